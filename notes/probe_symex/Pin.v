From Coq Require Import NArith List Bool Lia Arith PeanoNat.
Import ListNotations.
Require Import P.Lib.
Open Scope N_scope.
Set Default Timeout 60.

(* register-level helpers as the translator would emit them *)
Definition intersects a m := negb (N.land a m =? 0).
Definition clr a m := N.ldiff a m.
Definition dta_rdy_int a := intersects a 0x80. Definition fwm_int a := intersects a 0x40.
Definition ffull_int a := intersects a 0x20. Definition gen2_int a := intersects a 0x08.
Definition gen1_int a := intersects a 0x04. Definition orientch_int a := intersects a 0x02.
Definition actch_int a := intersects a 0x10. Definition d_tap_int a := intersects a 0x08.
Definition s_tap_int a := intersects a 0x04. Definition step_int a := intersects a 0x01.
Definition wk_is_en a := intersects a 0xE0.
Definition mapped (bit1 bit2 : N) (r1 r2 : N) := intersects r1 bit1 || intersects r2 bit2.
Definition m_drdy (p:PinCfg) := mapped 0x80 0x80 (int1_map p) (int2_map p).
Definition m_fwm (p:PinCfg) := mapped 0x40 0x40 (int1_map p) (int2_map p).
Definition m_ffull (p:PinCfg) := mapped 0x20 0x20 (int1_map p) (int2_map p).
Definition m_gen2 (p:PinCfg) := mapped 0x08 0x08 (int1_map p) (int2_map p).
Definition m_gen1 (p:PinCfg) := mapped 0x04 0x04 (int1_map p) (int2_map p).
Definition m_orient (p:PinCfg) := mapped 0x02 0x02 (int1_map p) (int2_map p).
Definition m_wkup (p:PinCfg) := mapped 0x01 0x01 (int1_map p) (int2_map p).
Definition m_actch (p:PinCfg) := mapped 0x08 0x80 (int12_map p) (int12_map p).
Definition m_tap (p:PinCfg) := mapped 0x04 0x40 (int12_map p) (int12_map p).
Definition m_step (p:PinCfg) := mapped 0x01 0x10 (int12_map p) (int12_map p).

Definition pin_write (self : PinCfg) : prog unit :=
  ic0 <- gets (fun d => int_config0 (int_config d));;
  ic1 <- gets (fun d => int_config1 (int_config d));;
  wkup0 <- gets (fun d => wkup_int_config0 (wkup_int_config d));;
  io_changed <- gets (fun d => neqb (int12_io_ctrl (int_pin_config d)) (int12_io_ctrl self));;
  wk_en <- gets (fun d => wk_is_en (wkup_int_config0 (wkup_int_config d)));;
  let tmp0 := if io_changed then N.lxor ic0 ic0 else
      let t := ic0 in
      let t := if dta_rdy_int ic0 && m_drdy self then clr t 0x80 else t in
      let t := if fwm_int ic0 && m_fwm self then clr t 0x40 else t in
      let t := if ffull_int ic0 && m_ffull self then clr t 0x20 else t in
      let t := if gen1_int ic0 && m_gen1 self then clr t 0x04 else t in
      let t := if gen2_int ic0 && m_gen2 self then clr t 0x08 else t in
      let t := if orientch_int ic0 && m_orient self then clr t 0x02 else t in t in
  let tmp1 := if io_changed then N.lxor ic1 ic1 else
      let t := ic1 in
      let t := if actch_int ic1 && m_actch self then clr t 0x10 else t in
      let t := if (s_tap_int ic1 || d_tap_int ic1) && m_tap self then clr (clr t 0x08) 0x04 else t in
      let t := if step_int ic1 && m_step self then clr t 0x01 else t in t in
  let tmpw := if io_changed then wkup0 else if wk_en && m_wkup self then clr (clr (clr wkup0 0x20) 0x40) 0x80 else wkup0 in
  when (neqb ic0 tmp0) (write_register 0x1F tmp0;; modify (set_int_config0 tmp0));;
  when (neqb ic1 tmp1) (write_register 0x20 tmp1;; modify (set_int_config1 tmp1));;
  when (neqb wkup0 tmpw) (write_register 0x2F tmpw;; modify (set_wkup0 tmpw));;
  c1 <- gets (fun d => neqb (int1_map (int_pin_config d)) (int1_map self));;
  when c1 (write_register 0x21 (int1_map self);; modify (set_int1_map (int1_map self)));;
  c2 <- gets (fun d => neqb (int2_map (int_pin_config d)) (int2_map self));;
  when c2 (write_register 0x22 (int2_map self);; modify (set_int2_map (int2_map self)));;
  c3 <- gets (fun d => neqb (int12_map (int_pin_config d)) (int12_map self));;
  when c3 (write_register 0x23 (int12_map self);; modify (set_int12_map (int12_map self)));;
  c4 <- gets (fun d => neqb (int12_io_ctrl (int_pin_config d)) (int12_io_ctrl self));;
  when c4 (write_register 0x24 (int12_io_ctrl self);; modify (set_io (int12_io_ctrl self)));;
  cur0 <- gets (fun d => int_config0 (int_config d));;
  when (neqb cur0 ic0) (write_register 0x1F ic0;; modify (set_int_config0 ic0));;
  cur1 <- gets (fun d => int_config1 (int_config d));;
  when (neqb cur1 ic1) (write_register 0x20 ic1;; modify (set_int_config1 ic1));;
  curw <- gets (fun d => wkup_int_config0 (wkup_int_config d));;
  when (neqb curw wkup0) (write_register 0x2F wkup0;; modify (set_wkup0 wkup0));;
  Ret tt.

(* C08-style checker for the values written to one enable register *)
Definition submask a b := N.land a b =? a.
Definition toggle_ok (orig : N) (ws : list N) : bool :=
  match ws with
  | [] => true
  | first :: _ => submask first orig && neqb first orig && forallb (fun v => submask v orig) ws && (last ws 0 =? orig)
  end.
Definition vals_at (a : N) (t : list (N*N)) : list N := map snd (filter (fun av => fst av =? a) t).

Lemma neqb_refl a : neqb a a = false. Proof. unfold neqb. now rewrite N.eqb_refl. Qed.
Lemma neqb_true a b : neqb a b = true -> a <> b. Proof. unfold neqb. intros H E. subst. now rewrite N.eqb_refl in H. Qed.
Lemma neqb_false a b : neqb a b = false -> a = b. Proof. unfold neqb. intros H. apply negb_false_iff in H. now apply N.eqb_eq. Qed.

(* sub-mask solver *)
Lemma submask_refl a : submask a a = true. Proof. unfold submask. now rewrite N.land_diag, N.eqb_refl. Qed.
Lemma submask_clr a b m : submask a b = true -> submask (clr a m) b = true.
Proof. unfold submask, clr. intros H. apply N.eqb_eq in H. apply N.eqb_eq. apply N.bits_inj; intro i.
  assert (Hi := f_equal (fun x => N.testbit x i) H). cbn beta in Hi. rewrite N.land_spec in Hi.
  rewrite N.land_spec, N.ldiff_spec.
  destruct (N.testbit a i), (N.testbit b i), (N.testbit m i); cbn in *; congruence. Qed.
Lemma submask_if (c:bool) x y b : submask x b = true -> submask y b = true -> submask (if c then x else y) b = true.
Proof. now destruct c. Qed.
Lemma submask_xor_self a b : submask (N.lxor a a) b = true.
Proof. unfold submask. now rewrite N.lxor_nilpotent. Qed.
#[export] Hint Resolve submask_refl submask_clr submask_if submask_xor_self : submask.

Opaque bind gets when write_register modify.
Opaque dta_rdy_int fwm_int ffull_int gen1_int gen2_int orientch_int actch_int d_tap_int s_tap_int step_int wk_is_en
       m_drdy m_fwm m_ffull m_gen2 m_gen1 m_orient m_wkup m_actch m_tap m_step clr.

Theorem pin_write_ok self w :
  post (pin_write self) w (fun _ w' =>
    drv w' = set_pin (fun _ => self) (drv w) /\
    (let j := skipn (length (trace w)) (trace w') in
     forallb (fun av => existsb (N.eqb (fst av)) [0x1F;0x20;0x2F;0x21;0x22;0x23;0x24]) j = true /\
     toggle_ok (int_config0 (int_config (drv w))) (vals_at 0x1F j) = true /\
     toggle_ok (int_config1 (int_config (drv w))) (vals_at 0x20 j) = true /\
     toggle_ok (wkup_int_config0 (wkup_int_config (drv w))) (vals_at 0x2F j) = true)).
Proof.
  cbv delta [pin_write]; cbn beta.
  Time repeat step.
  (* temporaries are sub-masks of the originals, whatever the mapped flags are *)
  assert (S0 : submask tmp0 g = true) by (subst tmp0; cbv zeta; auto 30 with submask).
  assert (S1 : submask tmp1 g0 = true) by (subst tmp1; cbv zeta; auto 30 with submask).
  assert (Sw : submask tmpw g1 = true) by (subst tmpw; auto 30 with submask).
  clearbody tmp0 tmp1 tmpw.
  destruct w as [[[i0 i1] [w0] [m1 m2 m12 io]] t n]; destruct self as [s1 s2 s12 sio].
  simp_state in *. subst g g0 g1 g8 g9 g10.
  assert (neqb_sym : forall a b, neqb a b = neqb b a) by (intros; unfold neqb; now rewrite N.eqb_sym).
  subst g7. 
  rewrite <- !app_assoc, skipn_app, skipn_all, Nat.sub_diag. cbn [skipn app].
  destruct (neqb i0 tmp0) eqn:E0, (neqb i1 tmp1) eqn:E1, (neqb w0 tmpw) eqn:Ew;
  rewrite ?(neqb_sym tmp0 i0), ?(neqb_sym tmp1 i1), ?(neqb_sym tmpw w0), ?E0, ?E1, ?Ew, ?neqb_refl;
  destruct g4 eqn:E4, g5 eqn:E5, g6 eqn:E6, g2 eqn:E7;
  (subst g4 g5 g6 g2; rewrite ?E7; split; [ unfold set_pin; simp_state;
            repeat match goal with H : neqb ?a ?b = false |- _ => apply neqb_false in H; subst a end; reflexivity
          | cbn -[N.land]; rewrite ?S0, ?S1, ?Sw, ?submask_refl, ?N.eqb_refl, ?(neqb_sym tmp0 i0), ?(neqb_sym tmp1 i1), ?(neqb_sym tmpw w0), ?E0, ?E1, ?Ew; cbn; auto ]).
Time Qed.
