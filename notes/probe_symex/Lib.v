From Coq Require Import NArith List Bool Lia.
Import ListNotations.
Open Scope N_scope.

(* ---- shadow (subset relevant to the pin builder) ---- *)
Record IntConfig := { int_config0 : N; int_config1 : N }.
Record WkupCfg := { wkup_int_config0 : N }.
Record PinCfg := { int1_map : N; int2_map : N; int12_map : N; int12_io_ctrl : N }.
Record Config := { int_config : IntConfig; wkup_int_config : WkupCfg; int_pin_config : PinCfg }.

Definition set_int_config0 v c := {| int_config := {| int_config0 := v; int_config1 := int_config1 (int_config c) |}; wkup_int_config := wkup_int_config c; int_pin_config := int_pin_config c |}.
Definition set_int_config1 v c := {| int_config := {| int_config0 := int_config0 (int_config c); int_config1 := v |}; wkup_int_config := wkup_int_config c; int_pin_config := int_pin_config c |}.
Definition set_wkup0 v c := {| int_config := int_config c; wkup_int_config := {| wkup_int_config0 := v |}; int_pin_config := int_pin_config c |}.
Definition set_pin (f : PinCfg -> PinCfg) c := {| int_config := int_config c; wkup_int_config := wkup_int_config c; int_pin_config := f (int_pin_config c) |}.
Definition set_int1_map v := set_pin (fun p => {| int1_map := v; int2_map := int2_map p; int12_map := int12_map p; int12_io_ctrl := int12_io_ctrl p |}).
Definition set_int2_map v := set_pin (fun p => {| int1_map := int1_map p; int2_map := v; int12_map := int12_map p; int12_io_ctrl := int12_io_ctrl p |}).
Definition set_int12_map v := set_pin (fun p => {| int1_map := int1_map p; int2_map := int2_map p; int12_map := v; int12_io_ctrl := int12_io_ctrl p |}).
Definition set_io v := set_pin (fun p => {| int1_map := int1_map p; int2_map := int2_map p; int12_map := int12_map p; int12_io_ctrl := v |}).

Inductive err := IOError | CfgErr (n:N).
Inductive prog (A:Type) : Type :=
| Ret (a:A) | Fail (e:err) | Write (addr val : N) (k : prog A) | Get (k : Config -> prog A) | Put (c : Config) (k : prog A).
Arguments Ret {A}. Arguments Fail {A}. Arguments Write {A}. Arguments Get {A}. Arguments Put {A}.
Fixpoint bind {A B} (p : prog A) (f : A -> prog B) : prog B :=
  match p with
  | Ret a => f a | Fail e => Fail e
  | Write a v k => Write a v (bind k f)
  | Get k => Get (fun c => bind (k c) f)
  | Put c k => Put c (bind k f)
  end.
Definition when (c:bool) (p : prog unit) : prog unit := if c then p else Ret tt.
Definition write_register a v : prog unit := Write a v (Ret tt).
Definition gets {A} (f : Config -> A) : prog A := Get (fun c => Ret (f c)).
Definition modify (f : Config -> Config) : prog unit := Get (fun c => Put (f c) (Ret tt)).
Notation "x <- p ;; q" := (bind p (fun x => q)) (at level 61, p at next level, right associativity).
Notation "p ;; q" := (bind p (fun _ => q)) (at level 61, right associativity).
Definition neqb a b := negb (N.eqb a b).

Record world := mk { drv : Config; trace : list (N*N); nwr : nat }.
Inductive outcome A := Done (a:A) (w:world) | Failed (e:err) (w:world).
Arguments Done {A}. Arguments Failed {A}.
(* device state is a function of the trace (acknowledged writes), so the world carries only shadow + journal *)
Fixpoint run {A} (p : prog A) (fault : option nat) (w : world) : outcome A :=
  match p with
  | Ret a => Done a w
  | Fail e => Failed e w
  | Get k => run (k (drv w)) fault w
  | Put c k => run k fault (mk c (trace w) (nwr w))
  | Write a v k =>
      if (match fault with Some f => Nat.eqb f (nwr w) | None => false end)
      then Failed IOError (mk (drv w) (trace w) (S (nwr w)))
      else run k fault (mk (drv w) (trace w ++ [(a,v)]) (S (nwr w)))
  end.

Class Lens (set:N->Config->Config) (get:Config->N) := lens_eta : forall d, set (get d) d = d.
Ltac eta_tac := intros [[? ?] [?] [? ? ? ?]]; reflexivity.
#[export] Instance L_i0 : Lens set_int_config0 (fun d => int_config0 (int_config d)). Proof. eta_tac. Qed.
#[export] Instance L_i1 : Lens set_int_config1 (fun d => int_config1 (int_config d)). Proof. eta_tac. Qed.
#[export] Instance L_w0 : Lens set_wkup0 (fun d => wkup_int_config0 (wkup_int_config d)). Proof. eta_tac. Qed.
#[export] Instance L_m1 : Lens set_int1_map (fun d => int1_map (int_pin_config d)). Proof. eta_tac. Qed.
#[export] Instance L_m2 : Lens set_int2_map (fun d => int2_map (int_pin_config d)). Proof. eta_tac. Qed.
#[export] Instance L_m12 : Lens set_int12_map (fun d => int12_map (int_pin_config d)). Proof. eta_tac. Qed.
#[export] Instance L_io : Lens set_io (fun d => int12_io_ctrl (int_pin_config d)). Proof. eta_tac. Qed.


Definition post {A} (p : prog A) (w : world) (Q : A -> world -> Prop) : Prop :=
  match run p None w with Done a w' => Q a w' | Failed _ _ => False end.
Lemma post_ret A (a:A) w (Q : A -> world -> Prop) : Q a w -> post (Ret a) w Q. Proof. intro H; exact H. Qed.
Lemma post_gets A B (g:Config->A) (k:A->prog B) w (Q : B -> world -> Prop) : post (k (g (drv w))) w Q -> post (x <- gets g ;; k x) w Q.
Proof. intro H; exact H. Qed.
Lemma post_when_wr A (set:N->Config->Config) (get:Config->N) (c:bool) (a v : N) (k:prog A) w (Q : A -> world -> Prop) (eta : Lens set get) :
  post k (mk (set (if c then v else get (drv w)) (drv w))
             (trace w ++ if c then [(a,v)] else [])
             (if c then S (nwr w) else nwr w)) Q ->
  post (when c (write_register a v ;; modify (set v)) ;; k) w Q.
Proof. unfold post. destruct c; cbn; [intro H; exact H|]. rewrite eta, app_nil_r. destruct w; intro H; exact H. Qed.

Tactic Notation "simp_state" := cbn [drv trace nwr
   int_config int_config0 int_config1 wkup_int_config wkup_int_config0 int_pin_config int1_map int2_map int12_map int12_io_ctrl
   set_int_config0 set_int_config1 set_wkup0 set_int1_map set_int2_map set_int12_map set_io set_pin].
Tactic Notation "simp_state" "in" hyp(H) := cbn [drv trace nwr
   int_config int_config0 int_config1 wkup_int_config wkup_int_config0 int_pin_config int1_map int2_map int12_map int12_io_ctrl
   set_int_config0 set_int_config1 set_wkup0 set_int1_map set_int2_map set_int12_map set_io set_pin] in H.
Tactic Notation "simp_state" "in" "*" := cbn [drv trace nwr
   int_config int_config0 int_config1 wkup_int_config wkup_int_config0 int_pin_config int1_map int2_map int12_map int12_io_ctrl
   set_int_config0 set_int_config1 set_wkup0 set_int1_map set_int2_map set_int12_map set_io set_pin] in *.
Ltac step :=
  lazymatch goal with
  | |- post (let x := ?e in @?b x) ?w ?Q =>
      let x' := fresh x in pose (x' := e); change (post (b x') w Q); cbn beta
  | |- post (bind (gets ?g) ?k) ?w ?Q =>
      refine (post_gets _ _ g k w Q _);
      let x' := fresh "g" in set (x' := g (drv w)); cbn beta; simp_state in x'
  | |- post (bind (when ?c (bind (write_register ?a ?v) (fun _ => modify (?s ?v)))) (fun _ => ?k)) ?w ?Q =>
      let g := constr:(_ : Lens s _) in
      lazymatch type of g with Lens _ ?get => refine (post_when_wr _ s get c a v k w Q g _); simp_state end
  | |- post (Ret ?a) ?w ?Q => refine (post_ret _ a w Q _); cbn beta; simp_state
  end.
