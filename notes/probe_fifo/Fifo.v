From Coq Require Import NArith ZArith List Bool Lia Arith ZifyN ZifyBool ZifyNat.
Import ListNotations.
Open Scope N_scope.
Set Default Timeout 60.

(* ---------- prelude (hand-written once) ---------- *)
Record slice := mkslice { buf : list N; off : N; len : N }.
Definition slice_wf (s:slice) := off s + len s <= N.of_nat (length (buf s)).
Definition slice_index (s:slice) (i:N) : option N :=
  if i <? len s then Some (nth (N.to_nat (off s + i)) (buf s) 0) else None.
Definition slice_sub (s:slice) (a b:N) : option slice :=
  if (a <=? b) && (b <=? len s) then Some (mkslice (buf s) (off s + a) (b - a)) else None.
Definition intersects a m := negb (N.land a m =? 0).
Definition contains a m := N.land a m =? m.
Definition checked_sub (a b : N) : option N := if b <=? a then Some (a - b) else None.
Definition obind {A B} (o:option A) (f:A->option B) := match o with Some a => f a | None => None end.
Notation "x <-? p ; q" := (obind p (fun x => q)) (at level 61, p at next level, right associativity).

(* ---------- generated style (types.rs) ---------- *)
Inductive FrameType := Data | Time | Control.
Definition Header_from_bits_truncate (b:N) := N.land b 0xFE.
Definition Header_frame_type (self:N) : FrameType :=
  if contains self 0xA0 then Time else if intersects self 0x40 then Control else Data.
Definition Header_resolution_is_12bit (self:N) : bool :=
  match Header_frame_type self with Data => intersects self 0x10 | _ => false end.
Definition Header_has_data (self:N) : bool :=
  match Header_frame_type self with Data => intersects self 0x0E | _ => false end.
Fixpoint while0 (fuel:nat) (n num_axes : N) : option (N*N) :=
  match fuel with
  | O => None
  | S f => if negb (n =? 0) then (m <-? checked_sub n 1 ; while0 f (N.land n m) (num_axes + 1)) else Some (n, num_axes)
  end.
Definition Header_num_payload_bytes (self:N) : option N :=
  match Header_frame_type self with
  | Time => Some 3
  | Data =>
      if negb (Header_has_data self) then Some 1 else
      st <-? while0 16 (N.land self 0x0E) 0 ;
      let num_axes := snd st in
      if Header_resolution_is_12bit self then Some (num_axes * 2) else Some num_axes
  | Control => Some 1
  end.
Definition Header_has_x_data self := match Header_frame_type self with Data => intersects self 0x02 | _ => false end.
Definition Header_has_y_data self := match Header_frame_type self with Data => intersects self 0x04 | _ => false end.
Definition Header_has_z_data self := match Header_frame_type self with Data => intersects self 0x08 | _ => false end.

Record Frame := { f_slice : slice }.
Record FifoFrames := { index : N; bytes : slice }.
Definition is_Data t := match t with Data => true | _ => false end.
Definition FifoFrames_next (self : FifoFrames) : option (option Frame * FifoFrames) :=
  if len (bytes self) <=? index self then Some (None, self) else
  let header_idx := index self in
  h <-? slice_index (bytes self) header_idx ;
  let header := Header_from_bits_truncate h in
  if is_Data (Header_frame_type header) && negb (Header_has_data header)
  then Some (None, {| index := index self + 2; bytes := bytes self |}) else
  n <-? Header_num_payload_bytes header ;
  let idx := index self + (n + 1) in
  if len (bytes self) <? idx then Some (None, {| index := idx; bytes := bytes self |}) else
  s <-? slice_sub (bytes self) header_idx idx ;
  Some (Some {| f_slice := s |}, {| index := idx; bytes := bytes self |}).

Definition sext12 (lsb msb : N) : Z := let v := Z.of_N (lsb + 256 * msb) in if (2048 <=? v)%Z then (v - 4096)%Z else v.
Definition Frame_data_at_offset (self:Frame) (offset:N) (res12:bool) : option Z :=
  if res12 then
    a <-? slice_index (f_slice self) (offset*2+1) ; b <-? slice_index (f_slice self) (offset*2+2) ;
    Some (sext12 (N.lor (N.land a 0xF) (N.land (N.shiftl b 4) 0xFF)) (N.shiftr b 4))
  else
    a <-? slice_index (f_slice self) (offset+1) ;
    Some (sext12 (N.land (N.shiftl a 4) 0xFF) (N.shiftr a 4)).
Definition Frame_z (self:Frame) : option (option Z) :=
  h <-? slice_index (f_slice self) 0 ;
  let header := Header_from_bits_truncate h in
  if negb (is_Data (Header_frame_type header)) || negb (Header_has_z_data header) then Some None else
  let offset := (if Header_has_x_data header then 1 else 0) + (if Header_has_y_data header then 1 else 0) in
  v <-? Frame_data_at_offset self offset (Header_resolution_is_12bit header) ; Some (Some v).

(* ---------- finite-domain facts about headers, by exhaustive evaluation ---------- *)
Fixpoint forall_bits (n : nat) (f : N -> bool) (base : N) : bool :=
  match n with O => f base | S k => forall_bits k f (2*base) && forall_bits k f (2*base+1) end.
Lemma forall_bits_sound n : forall f base, forall_bits n f base = true ->
  forall x, x < 2^(N.of_nat n) -> f (base * 2^(N.of_nat n) + x) = true.
Proof.
  induction n as [|n IH]; intros f base H x Hx.
  - cbn in *. assert (x = 0) by lia. subst. now rewrite N.mul_1_r, N.add_0_r.
  - cbn [forall_bits] in H. apply andb_prop in H as [H0 H1].
    rewrite Nat2N.inj_succ, N.pow_succ_r' in *.
    destruct (N.ltb_spec x (2^N.of_nat n)) as [Hlt|Hge].
    + specialize (IH f (2*base) H0 x Hlt).
      replace (base * (2 * 2 ^ N.of_nat n) + x) with (2 * base * 2 ^ N.of_nat n + x) by lia. exact IH.
    + specialize (IH f (2*base+1) H1 (x - 2^N.of_nat n)).
      replace (base * (2 * 2 ^ N.of_nat n) + x) with ((2 * base + 1) * 2 ^ N.of_nat n + (x - 2 ^ N.of_nat n)) by lia.
      apply IH. lia.
Qed.
Lemma forall_u8 (P : N -> bool) : forall_bits 8 P 0 = true -> forall x, x < 256 -> P x = true.
Proof. intros H x Hx. pose proof (forall_bits_sound 8 P 0 H x Hx) as H1. now rewrite N.mul_0_l, N.add_0_l in H1. Qed.

(* payload is defined (no panic, fuel suffices), between 1 and 6, and consistent with the accessors' offsets *)
Definition hdr_ok (h:N) : bool :=
  let header := Header_from_bits_truncate h in
  match Header_num_payload_bytes header with
  | None => false
  | Some n => (1 <=? n) && (n <=? 6) &&
      (* z accessor stays inside 1+n bytes *)
      (if is_Data (Header_frame_type header) && Header_has_z_data header then
         let offset := (if Header_has_x_data header then 1 else 0) + (if Header_has_y_data header then 1 else 0) in
         if Header_resolution_is_12bit header then offset*2+2 <? n+1 else offset+1 <? n+1
       else true)
  end.
Lemma hdr_ok_all : forall h, h < 256 -> hdr_ok h = true.
Proof. apply forall_u8. vm_compute. reflexivity. Qed.

Definition bytes_ok (s:slice) := slice_wf s /\ Forall (fun b => b < 256) (buf s).

Lemma slice_index_some s i : i < len s -> exists v, slice_index s i = Some v.
Proof. unfold slice_index. intros H. destruct (N.ltb_spec i (len s)); [eauto|lia]. Qed.
Lemma slice_index_byte s i v : bytes_ok s -> slice_index s i = Some v -> v < 256.
Proof.
  intros [Hwf Hall] H. unfold slice_index in H. destruct (N.ltb_spec i (len s)); [|discriminate]. inversion H; subst.
  rewrite Forall_forall in Hall. apply Hall. apply nth_In. unfold slice_wf in Hwf. lia.
Qed.

(* C05 core: next never panics; a yielded frame is the view [index, index+1+payload); cursor advances by >= 2 *)
Theorem next_safe self : bytes_ok (bytes self) ->
  exists r self', FifoFrames_next self = Some (r, self') /\ bytes self' = bytes self /\
    (index self < len (bytes self) -> index self + 2 <= index self' /\ index self' <= index self + 7) /\
    (len (bytes self) <= index self -> r = None /\ self' = self) /\
    (forall f, r = Some f ->
       buf (f_slice f) = buf (bytes self) /\ off (f_slice f) = off (bytes self) + index self /\
       len (f_slice f) = index self' - index self /\ index self' <= len (bytes self) /\
       exists z, Frame_z f = Some z).
Proof.
  intros Hok. unfold FifoFrames_next.
  destruct (N.leb_spec (len (bytes self)) (index self)) as [Hge|Hlt].
  { exists None, self. repeat split; try lia; try discriminate; auto. }
  destruct (slice_index_some (bytes self) (index self) Hlt) as [h Hh]. rewrite Hh. cbn [obind].
  pose proof (slice_index_byte _ _ _ Hok Hh) as Hb.
  pose proof (hdr_ok_all h Hb) as Hhdr. unfold hdr_ok in Hhdr. cbv zeta in *.
  set (header := Header_from_bits_truncate h) in *.
  destruct (is_Data (Header_frame_type header) && negb (Header_has_data header)) eqn:Hempty.
  { eexists _, _. split; [reflexivity|]. cbn. repeat split; try lia; try discriminate. }
  destruct (Header_num_payload_bytes header) as [n|] eqn:Hn; [|discriminate]. cbn [obind].
  apply andb_prop in Hhdr as [Hr Hz]. apply andb_prop in Hr as [H1 H6].
  destruct (N.ltb_spec (len (bytes self)) (index self + (n + 1))) as [Hcut|Hfit].
  { eexists _, _. split; [reflexivity|]. cbn. repeat split; try lia; try discriminate. }
  unfold slice_sub.
  destruct ((index self <=? index self + (n + 1)) && (index self + (n + 1) <=? len (bytes self))) eqn:Hc; [|lia].
  cbn [obind]. eexists _, _. split; [reflexivity|]. cbn [index bytes].
  split; [reflexivity|]. split; [intros _; lia|]. split; [intros ?; lia|].
  intros fr Hf. inversion Hf; subst fr; clear Hf. cbn [f_slice buf off len].
  split; [reflexivity|]. split; [reflexivity|]. split; [lia|]. split; [lia|].
  (* accessor z in bounds *)
  unfold Frame_z, Frame_data_at_offset, slice_index at 1. cbn [f_slice len off buf].
  destruct (N.ltb_spec 0 (index self + (n + 1) - index self)); [|lia]. cbn [obind].
  replace (off (bytes self) + index self + 0) with (off (bytes self) + index self) by lia.
  unfold slice_index in Hh. destruct (N.ltb_spec (index self) (len (bytes self))); [|lia]. inversion Hh as [Hh'].
  rewrite Hh'. fold header.
  destruct (negb (is_Data (Header_frame_type header)) || negb (Header_has_z_data header)) eqn:Hnz; [eauto|].
  apply orb_false_iff in Hnz as [Hd Hzz]. apply negb_false_iff in Hd, Hzz. rewrite Hd, Hzz in Hz. cbn [andb] in Hz.
  set (offset := (if Header_has_x_data header then 1 else 0) + (if Header_has_y_data header then 1 else 0)) in *.
  unfold slice_index; cbn [len off buf].
  destruct (Header_resolution_is_12bit header).
  - destruct (N.ltb_spec (offset*2+1) (index self + (n+1) - index self)); [|lia].
    destruct (N.ltb_spec (offset*2+2) (index self + (n+1) - index self)); [|lia]. cbn [obind]. eauto.
  - destruct (N.ltb_spec (offset+1) (index self + (n+1) - index self)); [|lia]. cbn [obind]. eauto.
Time Qed.
Print Assumptions next_safe.
