//! Simulated BMA400 chip, I2C bus, SPI bus + chip-select pin and delay provider, with a single
//! ordered journal of HAL calls and fault injection by call index (DESIGN.md sections 5.2, 7.2).
//! The chip semantics is the twin of coq/lib/Run.v (`chip_write`, `chip_read`).
use std::cell::RefCell;
use std::collections::VecDeque;
use std::rc::Rc;

pub const FIRST_CFG: usize = 25;

pub fn reset_val(a: usize) -> u8 {
    match a {
        26 => 73,
        36 => 34,
        88 => 6,
        _ => 0,
    }
}

#[derive(Clone)]
pub struct Chip {
    pub regs: [u8; 256],
    pub fifo: VecDeque<u8>,
    pub pos: [u8; 6],
    pub neg: [u8; 6],
}

impl Chip {
    pub fn power_on(ro: &[u8], fifo: &[u8], pos: [u8; 6], neg: [u8; 6]) -> Chip {
        let mut regs = [0u8; 256];
        for a in 0..128 {
            regs[a] = if a < FIRST_CFG { *ro.get(a).unwrap_or(&0) } else { reset_val(a) };
        }
        Chip { regs, fifo: fifo.iter().cloned().collect(), pos, neg }
    }
    pub fn write(&mut self, a: u8, v: u8) {
        let a = a as usize;
        if a == 126 {
            match v {
                182 => {
                    for x in FIRST_CFG..128 {
                        self.regs[x] = reset_val(x);
                    }
                }
                176 => self.fifo.clear(),
                177 => {
                    self.regs[21] = 0;
                    self.regs[22] = 0;
                    self.regs[23] = 0;
                }
                _ => {}
            }
        } else if a >= FIRST_CFG && a < 128 {
            self.regs[a] = v;
        }
    }
    fn reg_out(&self, a: usize) -> u8 {
        if a >= 256 {
            return 0;
        }
        if (4..=9).contains(&a) {
            if self.regs[125] == 7 {
                return self.pos[a - 4];
            } else if self.regs[125] == 15 {
                return self.neg[a - 4];
            }
        }
        self.regs[a]
    }
    pub fn read(&mut self, a: u8, buf: &mut [u8]) {
        if a == 20 {
            let mut odd = false;
            for b in buf.iter_mut() {
                match self.fifo.pop_front() {
                    Some(x) => {
                        *b = x;
                        odd = false;
                    }
                    None => {
                        *b = if odd { 0 } else { 128 };
                        odd = !odd;
                    }
                }
            }
        } else {
            for (i, b) in buf.iter_mut().enumerate() {
                *b = self.reg_out(a as usize + i);
            }
        }
    }
}

/// state shared by the bus objects handed to the driver
pub struct Bus {
    pub chip: Chip,
    pub i2c_addr: u8,
    pub raw: Vec<Vec<i64>>, // encoded HAL calls in order (same encoding as Driver.v `enc_hcall`)
    pub ncalls: u32,
    pub faults: Vec<u32>,
    pub cs_low: bool,
    // SPI decoder of the current chip-select window
    win_first: Option<u8>,  // first byte of the window (address + R/W)
    win_dummy_done: bool,
    win_ptr: u8,
    pub clocked_while_cs_high: u32,
}

pub type Shared = Rc<RefCell<Bus>>;

impl Bus {
    pub fn new(chip: Chip, i2c_addr: u8) -> Shared {
        Rc::new(RefCell::new(Bus {
            chip,
            i2c_addr,
            raw: Vec::new(),
            ncalls: 0,
            faults: Vec::new(),
            cs_low: false,
            win_first: None,
            win_dummy_done: false,
            win_ptr: 0,
            clocked_while_cs_high: 0,
        }))
    }
    pub fn begin_call(&mut self, faults: Vec<u32>) {
        self.raw.clear();
        self.ncalls = 0;
        self.faults = faults;
    }
    /// journal the call, count it, and tell whether it is planned to fail
    fn attempt(&mut self, enc: Vec<i64>) -> Result<(), u32> {
        let k = self.ncalls;
        self.raw.push(enc);
        self.ncalls += 1;
        if self.faults.contains(&k) {
            Err(k)
        } else {
            Ok(())
        }
    }
    // bytes clocked out on SPI (write), chip side
    fn spi_clock_out(&mut self, bytes: &[u8]) {
        if !self.cs_low {
            self.clocked_while_cs_high += bytes.len() as u32;
            return;
        }
        let mut i = 0;
        while i < bytes.len() {
            match self.win_first {
                None => {
                    self.win_first = Some(bytes[i]);
                    self.win_ptr = bytes[i] & 0x7F;
                    self.win_dummy_done = false;
                    i += 1;
                }
                Some(f) if f & 0x80 == 0 => {
                    // write: data bytes go to consecutive registers
                    let p = self.win_ptr;
                    self.chip.write(p, bytes[i]);
                    self.win_ptr = self.win_ptr.wrapping_add(1);
                    i += 1;
                }
                Some(_) => {
                    // read: bytes clocked out are ignored (first one is the dummy slot)
                    if !self.win_dummy_done {
                        self.win_dummy_done = true;
                        i += 1;
                    } else {
                        // data phase clocked through write(): discard the data
                        let mut tmp = vec![0u8; bytes.len() - i];
                        let p = self.win_ptr;
                        self.chip.read(p, &mut tmp);
                        if p != 20 {
                            self.win_ptr = self.win_ptr.wrapping_add(tmp.len() as u8);
                        }
                        i = bytes.len();
                    }
                }
            }
        }
    }
    // full-duplex transfer: bytes clocked out, buffer overwritten with what the chip returns
    fn spi_transfer(&mut self, buf: &mut [u8]) {
        if !self.cs_low {
            self.clocked_while_cs_high += buf.len() as u32;
            for b in buf.iter_mut() {
                *b = 0;
            }
            return;
        }
        let mut i = 0;
        while i < buf.len() {
            match self.win_first {
                None => {
                    self.win_first = Some(buf[i]);
                    self.win_ptr = buf[i] & 0x7F;
                    self.win_dummy_done = false;
                    buf[i] = 0;
                    i += 1;
                }
                Some(f) if f & 0x80 == 0 => {
                    let p = self.win_ptr;
                    self.chip.write(p, buf[i]);
                    self.win_ptr = self.win_ptr.wrapping_add(1);
                    buf[i] = 0;
                    i += 1;
                }
                Some(_) => {
                    if !self.win_dummy_done {
                        self.win_dummy_done = true;
                        buf[i] = 0;
                        i += 1;
                    } else {
                        let p = self.win_ptr;
                        let n = buf.len() - i;
                        self.chip.read(p, &mut buf[i..]);
                        if p != 20 {
                            self.win_ptr = self.win_ptr.wrapping_add(n as u8);
                        }
                        i = buf.len();
                    }
                }
            }
        }
    }
}

// ---------------------------------------------------------------- I2C
pub struct SimI2c(pub Shared);

impl embedded_hal::blocking::i2c::Write for SimI2c {
    type Error = u32;
    fn write(&mut self, addr: u8, bytes: &[u8]) -> Result<(), u32> {
        let mut b = self.0.borrow_mut();
        let mut enc = vec![10, addr as i64, bytes.len() as i64];
        enc.extend(bytes.iter().map(|x| *x as i64));
        b.attempt(enc)?;
        if addr != b.i2c_addr {
            return Err(0xEEEE); // nobody acknowledges
        }
        if let Some((&p, data)) = bytes.split_first() {
            for (i, v) in data.iter().enumerate() {
                b.chip.write(p.wrapping_add(i as u8), *v);
            }
        }
        Ok(())
    }
}

impl embedded_hal::blocking::i2c::WriteRead for SimI2c {
    type Error = u32;
    fn write_read(&mut self, addr: u8, bytes: &[u8], buffer: &mut [u8]) -> Result<(), u32> {
        let mut b = self.0.borrow_mut();
        let mut enc = vec![11, addr as i64, bytes.len() as i64];
        enc.extend(bytes.iter().map(|x| *x as i64));
        enc.push(buffer.len() as i64);
        b.attempt(enc)?;
        if addr != b.i2c_addr {
            return Err(0xEEEE);
        }
        if let Some((&p, data)) = bytes.split_first() {
            for (i, v) in data.iter().enumerate() {
                b.chip.write(p.wrapping_add(i as u8), *v);
            }
            b.chip.read(p.wrapping_add(data.len() as u8), buffer);
        }
        Ok(())
    }
}

// ---------------------------------------------------------------- SPI + chip select
pub struct SimSpi(pub Shared);
pub struct SimPin(pub Shared);

impl embedded_hal::blocking::spi::Write<u8> for SimSpi {
    type Error = u32;
    fn write(&mut self, words: &[u8]) -> Result<(), u32> {
        let mut b = self.0.borrow_mut();
        let mut enc = vec![14, words.len() as i64];
        enc.extend(words.iter().map(|x| *x as i64));
        b.attempt(enc)?;
        b.spi_clock_out(words);
        Ok(())
    }
}

impl embedded_hal::blocking::spi::Transfer<u8> for SimSpi {
    type Error = u32;
    fn transfer<'w>(&mut self, words: &'w mut [u8]) -> Result<&'w [u8], u32> {
        let mut b = self.0.borrow_mut();
        let mut enc = vec![15, words.len() as i64];
        enc.extend(words.iter().map(|x| *x as i64));
        b.attempt(enc)?;
        b.spi_transfer(words);
        Ok(words)
    }
}

impl embedded_hal::digital::v2::OutputPin for SimPin {
    type Error = u32;
    fn set_low(&mut self) -> Result<(), u32> {
        let mut b = self.0.borrow_mut();
        b.attempt(vec![12])?;
        if !b.cs_low {
            b.win_first = None;
        }
        b.cs_low = true;
        Ok(())
    }
    fn set_high(&mut self) -> Result<(), u32> {
        let mut b = self.0.borrow_mut();
        b.attempt(vec![13])?;
        b.cs_low = false;
        b.win_first = None;
        Ok(())
    }
}

// ---------------------------------------------------------------- delay
pub struct SimDelay(pub Shared);

impl embedded_hal::blocking::delay::DelayMs<u8> for SimDelay {
    fn delay_ms(&mut self, ms: u8) {
        self.0.borrow_mut().raw.push(vec![17, ms as i64]);
    }
}
