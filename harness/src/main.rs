//! impl_run — runs programs of API calls on the real bma400 crate over the simulated chip and prints
//! every call in the canonical numeric form shared with the Coq model's `Driver.run_program`.
//!
//! usage: impl_run <programs file>      (format: see tools/progs.py)
mod sim;
use bma400::{BMA400Error, I2CInterface, SPIInterface, BMA400};
use sim::*;
use std::io::{BufRead, Write as IoWrite};
use std::panic::{catch_unwind, AssertUnwindSafe};

include!("dispatch_gen.rs");

#[cfg(feature = "addr-alt")]
const CHIP_I2C_ADDR: u8 = 0x15;
#[cfg(not(feature = "addr-alt"))]
const CHIP_I2C_ADDR: u8 = 0x14;

trait Tok {
    fn tok(&self) -> i64;
}
impl Tok for u32 {
    fn tok(&self) -> i64 {
        *self as i64
    }
}
impl Tok for () {
    fn tok(&self) -> i64 {
        -1
    }
}

fn enc_err<I: Tok, P: Tok>(e: &BMA400Error<I, P>) -> Vec<i64> {
    match e {
        BMA400Error::IOError(t) => vec![1, t.tok()],
        BMA400Error::ChipSelectPinError(t) => vec![2, t.tok()],
        BMA400Error::ConfigBuildError(c) => vec![3, enc_ConfigError(c)],
        BMA400Error::ChipIdReadFailed => vec![4],
        BMA400Error::SelfTestFailedError => vec![5],
    }
}

fn enc_result<I: Tok, P: Tok>(r: Result<Vec<i64>, BMA400Error<I, P>>) -> Vec<i64> {
    match r {
        Ok(l) => {
            let mut v = vec![0, l.len() as i64];
            v.extend(l);
            v
        }
        Err(e) => enc_err(&e),
    }
}

fn opt_i16(o: Option<i16>) -> i64 {
    match o {
        None => 0,
        Some(z) => z as i64 + 100000,
    }
}
fn opt_u32(o: Option<u32>) -> i64 {
    match o {
        None => 0,
        Some(n) => n as i64 + 1,
    }
}
fn opt_bool(o: Option<bool>) -> i64 {
    match o {
        None => 0,
        Some(false) => 1,
        Some(true) => 2,
    }
}

/// iterate `len + 2` times (the iterator is not fused) and encode every answer
fn enc_fifo(mut it: bma400::FifoFrames<'_>, base: *const u8, len: usize) -> Vec<i64> {
    let mut out = Vec::new();
    for _ in 0..len + 2 {
        match it.next() {
            None => out.push(0),
            Some(f) => {
                let s = f.verif_slice();
                let off = (s.as_ptr() as usize).wrapping_sub(base as usize);
                out.push(1);
                out.push(off as i64);
                out.push(s.len() as i64);
                out.push(match f.frame_type() {
                    bma400::FrameType::Data => 0,
                    bma400::FrameType::Time => 1,
                    bma400::FrameType::Control => 2,
                });
                out.push(opt_i16(f.x()));
                out.push(opt_i16(f.y()));
                out.push(opt_i16(f.z()));
                out.push(opt_u32(f.time()));
                out.push(opt_bool(f.fifo_src_chg()));
                out.push(opt_bool(f.filt1_bw_chg()));
                out.push(opt_bool(f.acc1_chg()));
            }
        }
    }
    out
}

struct Call {
    op: String,
    args: Vec<String>,                      // positional arguments of plain ops (read_fifo_frames n, load a v, ...)
    setters: Vec<(String, Vec<String>)>,    // builder setter calls
    faults: Vec<u32>,
}

struct Program {
    id: String,
    ctor: String,
    ctor_faults: Vec<u32>,
    dump_each: bool,
    ro: Vec<u8>,
    fifo: Vec<u8>,
    pos: [u8; 6],
    neg: [u8; 6],
    calls: Vec<Call>,
}

fn hex(s: &str) -> Vec<u8> {
    (0..s.len() / 2).map(|i| u8::from_str_radix(&s[2 * i..2 * i + 2], 16).unwrap()).collect()
}
fn six(v: Vec<u8>) -> [u8; 6] {
    let mut a = [0u8; 6];
    for (i, x) in v.iter().take(6).enumerate() {
        a[i] = *x;
    }
    a
}
fn parse_faults(s: &str) -> Vec<u32> {
    s.split(',').filter(|x| !x.is_empty()).map(|x| x.parse().unwrap()).collect()
}

fn parse_programs(path: &str) -> Vec<Program> {
    let f = std::fs::File::open(path).expect("cannot open program file");
    let mut out = Vec::new();
    let mut cur: Option<Program> = None;
    let mut pending_faults: Vec<u32> = Vec::new();
    for line in std::io::BufReader::new(f).lines() {
        let line = line.unwrap();
        let toks: Vec<&str> = line.split_whitespace().collect();
        if toks.is_empty() {
            continue;
        }
        match toks[0] {
            "P" => {
                cur = Some(Program {
                    id: toks[1].to_string(),
                    ctor: toks[2].to_string(),
                    ctor_faults: std::mem::take(&mut pending_faults),
                    dump_each: toks.get(3) == Some(&"1"),
                    ro: vec![0; 25],
                    fifo: vec![],
                    pos: [0; 6],
                    neg: [0; 6],
                    calls: vec![],
                });
            }
            "S" => {
                let p = cur.as_mut().unwrap();
                for t in &toks[1..] {
                    let (k, v) = t.split_once('=').unwrap();
                    match k {
                        "ro" => p.ro = hex(v),
                        "fifo" => p.fifo = hex(v),
                        "pos" => p.pos = six(hex(v)),
                        "neg" => p.neg = six(hex(v)),
                        _ => panic!("bad scenario key {}", k),
                    }
                }
            }
            "F" => pending_faults = parse_faults(toks.get(1).unwrap_or(&"")),
            "CF" => cur.as_mut().unwrap().ctor_faults = parse_faults(toks.get(1).unwrap_or(&"")),
            "O" => {
                let mut args = Vec::new();
                let mut setters = Vec::new();
                for t in &toks[2..] {
                    if let Some((n, a)) = t.split_once(':') {
                        setters.push((n.to_string(), a.split(',').filter(|x| !x.is_empty()).map(|x| x.to_string()).collect()));
                    } else {
                        args.push(t.to_string());
                    }
                }
                cur.as_mut().unwrap().calls.push(Call { op: toks[1].to_string(), args, setters, faults: std::mem::take(&mut pending_faults) });
            }
            "E" => out.push(cur.take().unwrap()),
            other => panic!("bad line kind {}", other),
        }
    }
    out
}

fn join(v: &[i64]) -> String {
    v.iter().map(|x| x.to_string()).collect::<Vec<_>>().join(" ")
}

fn print_call(out: &mut impl IoWrite, res: Vec<i64>, bus: &Shared) {
    let b = bus.borrow();
    let mut v = res;
    v.push(b.raw.len() as i64);
    for c in &b.raw {
        v.extend(c.iter());
    }
    writeln!(out, "C {}", join(&v)).unwrap();
}

fn dump_regs(bus: &Shared) -> Vec<i64> {
    bus.borrow().chip.regs[..128].iter().map(|x| *x as i64).collect()
}

macro_rules! make_runner {
    ($name:ident, $devty:ty) => {
        fn $name(dev: &mut $devty, bus: &Shared, p: &Program, out: &mut impl IoWrite) {
            let dump_shadow = |dev: &mut $devty| -> Vec<i64> {
                let mut v: Vec<(u8, u8)> = Vec::new();
                dev.verif_shadow(&mut |a, b| v.push((a, b)));
                v.sort();
                v.iter().map(|x| x.1 as i64).collect()
            };
            for c in &p.calls {
                bus.borrow_mut().begin_call(c.faults.clone());
                let res: Vec<i64> = match catch_unwind(AssertUnwindSafe(|| -> Vec<i64> {
                    let op = c.op.as_str();
                    if let Some(r) = dispatch_plain!(dev, op) {
                        return enc_result(r);
                    }
                    if let Some(r) = dispatch_builder!(dev, op, c.setters) {
                        return enc_result(r);
                    }
                    match op {
                        "read_fifo_frames" => {
                            let n: usize = c.args[0].parse().unwrap();
                            let mut buf = vec![0u8; n];
                            let base = buf.as_ptr();
                            let r = dev.read_fifo_frames(&mut buf).map(|it| enc_fifo(it, base, n));
                            enc_result(r)
                        }
                        "perform_self_test" => {
                            let mut d = SimDelay(bus.clone());
                            enc_result(dev.perform_self_test(&mut d).map(|_| vec![]))
                        }
                        "get_temp_celsius" => enc_result(dev.get_temp_celsius().map(|t| {
                            let d = t * 2.0;
                            if d.fract() == 0.0 { vec![d as i64 + 100000] } else { vec![-777] }
                        })),
                        "load" => {
                            let a: u8 = c.args[0].parse().unwrap();
                            let v: u8 = c.args[1].parse().unwrap();
                            dev.verif_load(a, v);
                            bus.borrow_mut().chip.regs[a as usize] = v;
                            enc_result::<u32, u32>(Ok(vec![]))
                        }
                        "raw_write" => {
                            let a: u8 = c.args[0].parse().unwrap();
                            let v: u8 = c.args[1].parse().unwrap();
                            enc_result(dev.verif_raw_write(a, v).map(|_| vec![]))
                        }
                        "raw_read" => {
                            let a: u8 = c.args[0].parse().unwrap();
                            let n: usize = c.args[1].parse().unwrap();
                            let mut buf = vec![0u8; n];
                            enc_result(dev.verif_raw_read(a, &mut buf).map(|_| buf.iter().map(|x| *x as i64).collect()))
                        }
                        other => panic!("unknown operation {}", other),
                    }
                })) {
                    Ok(v) => v,
                    Err(_) => vec![9],
                };
                print_call(out, res, bus);
                if p.dump_each {
                    writeln!(out, "d {}", join(&dump_regs(bus))).unwrap();
                    writeln!(out, "d {}", join(&dump_shadow(dev))).unwrap();
                }
            }
            writeln!(out, "D {}", join(&dump_regs(bus))).unwrap();
            writeln!(out, "D {}", join(&dump_shadow(dev))).unwrap();
            writeln!(out, "D {}", bus.borrow().cs_low as i64).unwrap();
        }
    };
}

make_runner!(run_i2c, BMA400<I2CInterface<SimI2c>>);
make_runner!(run_spi, BMA400<SPIInterface<SimSpi, SimPin>>);

fn main() {
    std::panic::set_hook(Box::new(|_| {}));
    let args: Vec<String> = std::env::args().collect();
    let progs = parse_programs(&args[1]);
    let stdout = std::io::stdout();
    let mut out = std::io::BufWriter::new(stdout.lock());
    for p in &progs {
        writeln!(out, "R {}", p.id).unwrap();
        let chip = Chip::power_on(&p.ro, &p.fifo, p.pos, p.neg);
        let bus = Bus::new(chip, CHIP_I2C_ADDR);
        bus.borrow_mut().begin_call(p.ctor_faults.clone());
        match p.ctor.as_str() {
            "i2c" => {
                let r = catch_unwind(AssertUnwindSafe(|| BMA400::new_i2c(SimI2c(bus.clone()))));
                match r {
                    Ok(Ok(mut dev)) => {
                        print_call(&mut out, enc_result::<u32, ()>(Ok(vec![])), &bus);
                        run_i2c(&mut dev, &bus, p, &mut out);
                    }
                    Ok(Err(e)) => {
                        print_call(&mut out, enc_err(&e), &bus);
                        writeln!(out, "D {}", join(&dump_regs(&bus))).unwrap();
                        writeln!(out, "D {}", bus.borrow().cs_low as i64).unwrap();
                    }
                    Err(_) => {
                        print_call(&mut out, vec![9], &bus);
                        writeln!(out, "D {}", join(&dump_regs(&bus))).unwrap();
                        writeln!(out, "D {}", bus.borrow().cs_low as i64).unwrap();
                    }
                }
            }
            "spi" | "spi3" => {
                let three = p.ctor == "spi3";
                let r = catch_unwind(AssertUnwindSafe(|| {
                    if three {
                        BMA400::new_spi_3wire(SimSpi(bus.clone()), SimPin(bus.clone()))
                    } else {
                        BMA400::new_spi(SimSpi(bus.clone()), SimPin(bus.clone()))
                    }
                }));
                match r {
                    Ok(Ok(mut dev)) => {
                        print_call(&mut out, enc_result::<u32, u32>(Ok(vec![])), &bus);
                        run_spi(&mut dev, &bus, p, &mut out);
                    }
                    Ok(Err(e)) => {
                        print_call(&mut out, enc_err(&e), &bus);
                        writeln!(out, "D {}", join(&dump_regs(&bus))).unwrap();
                        writeln!(out, "D {}", bus.borrow().cs_low as i64).unwrap();
                    }
                    Err(_) => {
                        print_call(&mut out, vec![9], &bus);
                        writeln!(out, "D {}", join(&dump_regs(&bus))).unwrap();
                        writeln!(out, "D {}", bus.borrow().cs_low as i64).unwrap();
                    }
                }
            }
            other => panic!("bad constructor {}", other),
        }
        writeln!(out, "D {}", bus.borrow().clocked_while_cs_high).unwrap();
    }
}
