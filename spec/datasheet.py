# The BMA400 datasheet as data (hand-written, independent of the driver's code; DESIGN.md section 5.1).
# Source: Bosch BMA400 datasheet register map as transcribed by the author of this verification (no PDF is
# available offline) — part of the trusted base.

# register name (as used by the driver) -> (address, reset value, mask of defined bits)
REGS = {
    'AccConfig0': (0x19, 0x00, 0xE3), 'AccConfig1': (0x1A, 0x49, 0xFF), 'AccConfig2': (0x1B, 0x00, 0x0C),
    'IntConfig0': (0x1F, 0x00, 0xEE), 'IntConfig1': (0x20, 0x00, 0x9D),
    'Int1Map': (0x21, 0x00, 0xFF), 'Int2Map': (0x22, 0x00, 0xFF), 'Int12Map': (0x23, 0x00, 0xDD),
    'Int12IOCtrl': (0x24, 0x22, 0x66),
    'FifoConfig0': (0x26, 0x00, 0xFF), 'FifoConfig1': (0x27, 0x00, 0xFF), 'FifoConfig2': (0x28, 0x00, 0x07),
    'FifoPwrConfig': (0x29, 0x00, 0x01),
    'AutoLowPow0': (0x2A, 0x00, 0xFF), 'AutoLowPow1': (0x2B, 0x00, 0xFF),
    'AutoWakeup0': (0x2C, 0x00, 0xFF), 'AutoWakeup1': (0x2D, 0x00, 0xF6),
    'WakeupIntConfig0': (0x2F, 0x00, 0xFF), 'WakeupIntConfig1': (0x30, 0x00, 0xFF),
    'WakeupIntConfig2': (0x31, 0x00, 0xFF), 'WakeupIntConfig3': (0x32, 0x00, 0xFF), 'WakeupIntConfig4': (0x33, 0x00, 0xFF),
    'OrientChgConfig0': (0x35, 0x00, 0xFC), 'OrientChgConfig1': (0x36, 0x00, 0xFF), 'OrientChgConfig3': (0x38, 0x00, 0xFF),
    'OrientChgConfig4': (0x39, 0x00, 0xFF), 'OrientChgConfig5': (0x3A, 0x00, 0x0F),
    'OrientChgConfig6': (0x3B, 0x00, 0xFF), 'OrientChgConfig7': (0x3C, 0x00, 0x0F),
    'OrientChgConfig8': (0x3D, 0x00, 0xFF), 'OrientChgConfig9': (0x3E, 0x00, 0x0F),
    'ActChgConfig0': (0x55, 0x00, 0xFF), 'ActChgConfig1': (0x56, 0x00, 0xFF),
    'TapConfig0': (0x57, 0x00, 0x1F), 'TapConfig1': (0x58, 0x06, 0x3F),
    'InterfaceConfig': (0x7C, 0x00, 0x01), 'SelfTest': (0x7D, 0x00, 0x0F),
}
for g, base in (('Gen1IntConfig', 0x3F), ('Gen2IntConfig', 0x4A)):
    for k, (suffix, mask) in enumerate([('0', 0xFF), ('1', 0x03), ('2', 0xFF), ('3', 0xFF), ('31', 0xFF), ('4', 0xFF), ('5', 0x0F),
                                        ('6', 0xFF), ('7', 0x0F), ('8', 0xFF), ('9', 0x0F)]):
        REGS[g + suffix] = (base + k, 0x00, mask)

# read-only registers and commands
RO_REGS = {'ChipId': 0x00, 'ErrReg': 0x02, 'StatusReg': 0x03, 'AccXLSB': 0x04, 'SensorTime0': 0x0A, 'Event': 0x0D,
           'InterruptStatus0': 0x0E, 'InterruptStatus1': 0x0F, 'InterruptStatus2': 0x10, 'TempData': 0x11,
           'FifoLength0': 0x12, 'FifoData': 0x14, 'StepCount0': 0x15, 'StepStatus': 0x18}
COMMAND_ADDR = 0x7E
COMMANDS = {'FlushFifo': 0xB0, 'ClearStepCount': 0xB1, 'SoftReset': 0xB6}
CHIP_ID = 0x90

# field codes of the enumerated settings
ENUMS = {
    'PowerMode': {'Sleep': 0, 'LowPower': 1, 'Normal': 2},
    'OversampleRate': {'OSR0': 0, 'OSR1': 1, 'OSR2': 2, 'OSR3': 3},
    'Filter1Bandwidth': {'High': 0, 'Low': 1},
    'OutputDataRate': {'Hz12_5': 5, 'Hz25': 6, 'Hz50': 7, 'Hz100': 8, 'Hz200': 9, 'Hz400': 10, 'Hz800': 11},
    'Scale': {'Range2G': 0, 'Range4G': 1, 'Range8G': 2, 'Range16G': 3},
    'DataSource': {'AccFilt1': 0, 'AccFilt2': 1, 'AccFilt2Lp': 2},          # data register source (ACC_CONFIG2)
    'ActChgObsPeriod': {'Samples32': 0, 'Samples64': 1, 'Samples128': 2, 'Samples256': 3, 'Samples512': 4},
    'AutoLPTimeoutTrigger': {'TimeoutDisabled': 0, 'TimeoutEnabledNoReset': 1, 'TimeoutEnabledGen2IntReset': 2},
    'OrientIntRefMode': {'Manual': 0, 'AccFilt2': 1, 'AccFilt2Lp': 2},
    'GenIntRefMode': {'Manual': 0, 'OneTime': 1, 'EveryTimeFromSrc': 2, 'EveryTimeFromLp': 3},
    'Hysteresis': {'None': 0, 'Hyst24mg': 1, 'Hyst48mg': 2, 'Hyst96mg': 3},
    'GenIntCriterionMode': {'Inactivity': 0, 'Activity': 1},
    'GenIntLogicMode': {'Or': 0, 'And': 1},
    'Axis': {'Z': 0, 'Y': 1, 'X': 2},
    'TapSensitivity': {'SENS%d' % i: i for i in range(8)},
    'MinTapDuration': {'Samples4': 0, 'Samples8': 1, 'Samples12': 2, 'Samples16': 3},
    'DoubleTapDuration': {'Samples60': 0, 'Samples80': 1, 'Samples100': 2, 'Samples120': 3},
    'MaxTapDuration': {'Samples6': 0, 'Samples9': 1, 'Samples12': 2, 'Samples18': 3},
    'WakeupIntRefMode': {'Manual': 0, 'OneTime': 1, 'EveryTime': 2},
}
# one-bit source selections with the documented substitutes for sources the block cannot express
SRC_FILT1_FILT2 = {'AccFilt1': 0, 'AccFilt2': 1, 'AccFilt2Lp': 1}     # FIFO / generic 1,2 / activity change: LP -> filt2
SRC_ORIENT = {'AccFilt1': 0, 'AccFilt2': 0, 'AccFilt2Lp': 1}          # orientation: bit = 1 selects LP; filt1 -> filt2
PINS_INT1 = {'None': 0, 'Int1': 1, 'Int2': 0, 'Both': 1}
PINS_INT2 = {'None': 0, 'Int1': 0, 'Int2': 1, 'Both': 1}

# Builders: config record, its fields (in declaration order) with the register each shadows, and per public
# setter the argument list and the fields it owns.  An update is (field, mask, code) where code is
#   ('enum', arg, table, shift) | ('bool', arg, bitmask) | ('expr', coq expression over the argument names)
# and mask 0xFF on a register with fewer defined bits means "the whole register, reserved bits written as 0".
def E(arg, enum, shift=0, table=None):
    return ('enum', arg, enum, table if table is not None else ENUMS[enum], shift)
def B(arg, bit):
    return ('bool', arg, bit)
def X(expr):
    return ('expr', expr)
def axes(field, xa='x', ya='y', za='z'):
    return [(field, 0x20, B(xa, 0x20)), (field, 0x40, B(ya, 0x40)), (field, 0x80, B(za, 0x80))]

TC12 = 'of_signed 12 (Z.max (-2048) (Z.min 2047 %s))'   # 12-bit two's complement of the clamped value
def ref12(lo, hi, arg):
    t = TC12 % arg
    return [(lo, 0xFF, X('N.land (%s) 255' % t)), (hi, 0xFF, X('N.shiftr (%s) 8' % t))]

def pins(field1, field2, bit1, bit2=None):
    bit2 = bit1 if bit2 is None else bit2
    return [(field1, bit1, ('enum', 'mapped_to', 'InterruptPins', {k: v * bit1 for k, v in PINS_INT1.items()}, 0)),
            (field2, bit2, ('enum', 'mapped_to', 'InterruptPins', {k: v * bit2 for k, v in PINS_INT2.items()}, 0))]

def pincfg(field, od, lv):
    # PinOutputConfig::{PushPull, OpenDrain}(PinOutputLevel::{ActiveLow, ActiveHigh})
    return [(field, od | lv, ('pincfg', 'config', od, lv))]

def gen_setters():
    return {
        'with_axes': ([('x', 'bool'), ('y', 'bool'), ('z', 'bool')], axes('config0')),
        'with_src': ([('src', 'DataSource')], [('config0', 0x10, E('src', 'DataSource', 4, SRC_FILT1_FILT2))]),
        'with_ref_mode': ([('mode', 'GenIntRefMode')], [('config0', 0x0C, E('mode', 'GenIntRefMode', 2))]),
        'with_hysteresis': ([('hysteresis', 'Hysteresis')], [('config0', 0x03, E('hysteresis', 'Hysteresis'))]),
        'with_criterion_mode': ([('mode', 'GenIntCriterionMode')], [('config1', 0x02, E('mode', 'GenIntCriterionMode', 1))]),
        'with_logic_mode': ([('mode', 'GenIntLogicMode')], [('config1', 0x01, E('mode', 'GenIntLogicMode'))]),
        'with_threshold': ([('threshold', 'u8')], [('config2', 0xFF, X('threshold'))]),
        'with_duration': ([('duration', 'u16')], [('config3', 0xFF, X('N.shiftr duration 8')), ('config31', 0xFF, X('N.land duration 255'))]),
        'with_ref_accel': ([('ref_x', 'i16'), ('ref_y', 'i16'), ('ref_z', 'i16')],
                           ref12('config4', 'config5', 'ref_x') + ref12('config6', 'config7', 'ref_y') + ref12('config8', 'config9', 'ref_z')),
    }

GEN_FIELDS = ['config0', 'config1', 'config2', 'config3', 'config31', 'config4', 'config5', 'config6', 'config7', 'config8', 'config9']

BUILDERS = {
    'AccConfigBuilder': {
        'config': 'AccConfig',
        'fields': [('acc_config0', 'AccConfig0'), ('acc_config1', 'AccConfig1'), ('acc_config2', 'AccConfig2')],
        'setters': {
            'with_power_mode': ([('power_mode', 'PowerMode')], [('acc_config0', 0x03, E('power_mode', 'PowerMode'))]),
            'with_osr_lp': ([('osr', 'OversampleRate')], [('acc_config0', 0x60, E('osr', 'OversampleRate', 5))]),
            'with_filt1_bw': ([('bandwidth', 'Filter1Bandwidth')], [('acc_config0', 0x80, E('bandwidth', 'Filter1Bandwidth', 7))]),
            'with_odr': ([('odr', 'OutputDataRate')], [('acc_config1', 0x0F, E('odr', 'OutputDataRate'))]),
            'with_osr': ([('osr', 'OversampleRate')], [('acc_config1', 0x30, E('osr', 'OversampleRate', 4))]),
            'with_scale': ([('scale', 'Scale')], [('acc_config1', 0xC0, E('scale', 'Scale', 6))]),
            'with_reg_dta_src': ([('src', 'DataSource')], [('acc_config2', 0x0C, E('src', 'DataSource', 2))]),
        }},
    'ActChgConfigBuilder': {
        'config': 'ActChgConfig',
        'fields': [('actchg_config0', 'ActChgConfig0'), ('actchg_config1', 'ActChgConfig1')],
        'setters': {
            'with_threshold': ([('threshold', 'u8')], [('actchg_config0', 0xFF, X('threshold'))]),
            'with_axes': ([('x', 'bool'), ('y', 'bool'), ('z', 'bool')], axes('actchg_config1')),
            'with_src': ([('src', 'DataSource')], [('actchg_config1', 0x10, E('src', 'DataSource', 4, SRC_FILT1_FILT2))]),
            'with_obs_period': ([('obs_period', 'ActChgObsPeriod')], [('actchg_config1', 0x0F, E('obs_period', 'ActChgObsPeriod'))]),
        }},
    'AutoLpConfigBuilder': {
        'config': 'AutoLpConfig',
        'fields': [('auto_low_pow0', 'AutoLowPow0'), ('auto_low_pow1', 'AutoLowPow1')],
        'setters': {
            'with_timeout': ([('count', 'u16')], [('auto_low_pow0', 0xFF, X('N.shiftr (N.min count 4095) 4')),
                                                   ('auto_low_pow1', 0xF0, X('N.shiftl (N.land (N.min count 4095) 15) 4'))]),
            'with_auto_lp_trigger': ([('trigger', 'AutoLPTimeoutTrigger')], [('auto_low_pow1', 0x0C, E('trigger', 'AutoLPTimeoutTrigger', 2))]),
            'with_gen1_int_trigger': ([('enabled', 'bool')], [('auto_low_pow1', 0x02, B('enabled', 0x02))]),
            'with_drdy_trigger': ([('enabled', 'bool')], [('auto_low_pow1', 0x01, B('enabled', 0x01))]),
        }},
    'AutoWakeupConfigBuilder': {
        'config': 'AutoWakeupConfig',
        'fields': [('auto_wakeup0', 'AutoWakeup0'), ('auto_wakeup1', 'AutoWakeup1')],
        'setters': {
            'with_wakeup_period': ([('count', 'u16')], [('auto_wakeup0', 0xFF, X('N.shiftr (N.min count 4095) 4')),
                                                         ('auto_wakeup1', 0xF0, X('N.shiftl (N.land (N.min count 4095) 15) 4'))]),
            'with_periodic_wakeup': ([('enabled', 'bool')], [('auto_wakeup1', 0x04, B('enabled', 0x04))]),
            'with_activity_int': ([('enabled', 'bool')], [('auto_wakeup1', 0x02, B('enabled', 0x02))]),
        }},
    'FifoConfigBuilder': {
        'config': 'FifoConfig',
        'fields': [('fifo_config0', 'FifoConfig0'), ('fifo_config1', 'FifoConfig1'), ('fifo_config2', 'FifoConfig2'), ('fifo_pwr_config', 'FifoPwrConfig')],
        'setters': {
            'with_read_disabled': ([('disabled', 'bool')], [('fifo_pwr_config', 0x01, B('disabled', 0x01))]),
            'with_axes': ([('x', 'bool'), ('y', 'bool'), ('z', 'bool')], axes('fifo_config0')),
            'with_8bit_mode': ([('enabled', 'bool')], [('fifo_config0', 0x10, B('enabled', 0x10))]),
            'with_src': ([('src', 'DataSource')], [('fifo_config0', 0x08, E('src', 'DataSource', 3, SRC_FILT1_FILT2))]),
            'with_send_time_on_empty': ([('enabled', 'bool')], [('fifo_config0', 0x04, B('enabled', 0x04))]),
            'with_stop_on_full': ([('enabled', 'bool')], [('fifo_config0', 0x02, B('enabled', 0x02))]),
            'with_auto_flush': ([('enabled', 'bool')], [('fifo_config0', 0x01, B('enabled', 0x01))]),
            'with_watermark_thresh': ([('threshold', 'u16')], [('fifo_config1', 0xFF, X('N.land (N.min threshold 1024) 255')),
                                                                ('fifo_config2', 0xFF, X('N.shiftr (N.min threshold 1024) 8'))]),
        }},
    'IntConfigBuilder': {
        'config': 'IntConfig',
        'fields': [('int_config0', 'IntConfig0'), ('int_config1', 'IntConfig1')],
        'setters': dict(
            [(n, ([('enabled', 'bool')], [('int_config0', b, B('enabled', b))])) for n, b in
             [('with_dta_rdy_int', 0x80), ('with_fwm_int', 0x40), ('with_ffull_int', 0x20), ('with_gen2_int', 0x08), ('with_gen1_int', 0x04), ('with_orientch_int', 0x02)]] +
            [(n, ([('enabled', 'bool')], [('int_config1', b, B('enabled', b))])) for n, b in
             [('with_latch_int', 0x80), ('with_actch_int', 0x10), ('with_d_tap_int', 0x08), ('with_s_tap_int', 0x04), ('with_step_int', 0x01)]])},
    'IntPinConfigBuilder': {
        'config': 'IntPinConfig',
        'fields': [('int1_map', 'Int1Map'), ('int2_map', 'Int2Map'), ('int12_map', 'Int12Map'), ('int12_io_ctrl', 'Int12IOCtrl')],
        'setters': dict(
            [(n, ([('mapped_to', 'InterruptPins')], pins('int1_map', 'int2_map', b))) for n, b in
             [('with_drdy', 0x80), ('with_fifo_wm', 0x40), ('with_ffull', 0x20), ('with_ieng_ovrrn', 0x10), ('with_gen2', 0x08), ('with_gen1', 0x04), ('with_orientch', 0x02), ('with_wkup', 0x01)]] +
            [(n, ([('mapped_to', 'InterruptPins')], pins('int12_map', 'int12_map', b1, b2))) for n, b1, b2 in
             [('with_actch', 0x08, 0x80), ('with_tap', 0x04, 0x40), ('with_step', 0x01, 0x10)]] +
            [('with_int1_cfg', ([('config', 'PinOutputConfig')], pincfg('int12_io_ctrl', 0x04, 0x02))),
             ('with_int2_cfg', ([('config', 'PinOutputConfig')], pincfg('int12_io_ctrl', 0x40, 0x20)))])},
    'OrientChgConfigBuilder': {
        'config': 'OrientChgConfig',
        'fields': [('orientch_config%s' % i, 'OrientChgConfig%s' % i) for i in (0, 1, 3, 4, 5, 6, 7, 8, 9)],
        'setters': {
            'with_axes': ([('x', 'bool'), ('y', 'bool'), ('z', 'bool')], axes('orientch_config0')),
            'with_src': ([('src', 'DataSource')], [('orientch_config0', 0x10, E('src', 'DataSource', 4, SRC_ORIENT))]),
            'with_ref_mode': ([('mode', 'OrientIntRefMode')], [('orientch_config0', 0x0C, E('mode', 'OrientIntRefMode', 2))]),
            'with_threshold': ([('threshold', 'u8')], [('orientch_config1', 0xFF, X('threshold'))]),
            'with_duration': ([('duration', 'u8')], [('orientch_config3', 0xFF, X('duration'))]),
            'with_ref_accel': ([('ref_x', 'i16'), ('ref_y', 'i16'), ('ref_z', 'i16')],
                               ref12('orientch_config4', 'orientch_config5', 'ref_x') + ref12('orientch_config6', 'orientch_config7', 'ref_y') +
                               ref12('orientch_config8', 'orientch_config9', 'ref_z')),
        }},
    'TapConfigBuilder': {
        'config': 'TapConfig',
        'fields': [('tap_config0', 'TapConfig0'), ('tap_config1', 'TapConfig1')],
        'setters': {
            'with_axis': ([('axis', 'Axis')], [('tap_config0', 0x18, E('axis', 'Axis', 3))]),
            'with_sensitivity': ([('sensitivity', 'TapSensitivity')], [('tap_config0', 0x07, E('sensitivity', 'TapSensitivity'))]),
            'with_min_duration_btn_taps': ([('duration', 'MinTapDuration')], [('tap_config1', 0x30, E('duration', 'MinTapDuration', 4))]),
            'with_max_double_tap_window': ([('duration', 'DoubleTapDuration')], [('tap_config1', 0x0C, E('duration', 'DoubleTapDuration', 2))]),
            'with_max_tap_duration': ([('duration', 'MaxTapDuration')], [('tap_config1', 0x03, E('duration', 'MaxTapDuration'))]),
        }},
    'WakeupIntConfigBuilder': {
        'config': 'WakeupIntConfig',
        'fields': [('wkup_int_config%d' % i, 'WakeupIntConfig%d' % i) for i in range(5)],
        'setters': {
            'with_ref_mode': ([('mode', 'WakeupIntRefMode')], [('wkup_int_config0', 0x03, E('mode', 'WakeupIntRefMode'))]),
            'with_num_samples': ([('num_samples', 'u8')], [('wkup_int_config0', 0x1C, X('N.shiftl (N.max 1 (N.min 8 num_samples) - 1) 2'))]),
            'with_axes': ([('x', 'bool'), ('y', 'bool'), ('z', 'bool')], axes('wkup_int_config0')),
            'with_threshold': ([('threshold', 'u8')], [('wkup_int_config1', 0xFF, X('threshold'))]),
            'with_ref_accel': ([('x_ref', 'i8'), ('y_ref', 'i8'), ('z_ref', 'i8')],
                               [('wkup_int_config2', 0xFF, X('of_signed 8 x_ref')), ('wkup_int_config3', 0xFF, X('of_signed 8 y_ref')),
                                ('wkup_int_config4', 0xFF, X('of_signed 8 z_ref'))]),
        }},
    # the generic-interrupt builder holds either block; both obey the same table
    'GenIntConfigBuilder': {
        'config': 'GenIntConfig',
        'variants': [('Gen1Int', 'Gen1IntConfig'), ('Gen2Int', 'Gen2IntConfig')],
        'fields': [(f, None) for f in GEN_FIELDS],
        'setters': gen_setters(),
    },
}

# C06: an interrupt that needs a particular filter-1 output data rate: (enable register, enable mask, source register or None,
# source bit (set = filter 2, clear = filter 1), required ODR field code, error kind: 0 = TapIntEnabledInvalidODR, 1 = Filt1InterruptInvalidODR)
ODR_REG, ODR_MASK = 'AccConfig1', 0x0F
ODR_RULES = [
    ('IntConfig1', 0x0C, None, 0x00, ENUMS['OutputDataRate']['Hz200'], 0),              # single / double tap: 200 Hz
    ('IntConfig0', 0x04, 'Gen1IntConfig0', 0x10, ENUMS['OutputDataRate']['Hz100'], 1),  # generic 1 on filter 1: 100 Hz
    ('IntConfig0', 0x08, 'Gen2IntConfig0', 0x10, ENUMS['OutputDataRate']['Hz100'], 1),  # generic 2 on filter 1: 100 Hz
    ('IntConfig1', 0x10, 'ActChgConfig1', 0x10, ENUMS['OutputDataRate']['Hz100'], 1),   # activity change on filter 1: 100 Hz
]

# interrupt -> (enable register, enable mask) and the parameter registers it owns (C07)
PARAM_OWNERS = [
    ('gen1', 'IntConfig0', 0x04, ['Gen1IntConfig' + s for s in ('0', '1', '2', '3', '31', '4', '5', '6', '7', '8', '9')]),
    ('gen2', 'IntConfig0', 0x08, ['Gen2IntConfig' + s for s in ('0', '1', '2', '3', '31', '4', '5', '6', '7', '8', '9')]),
    ('orientch', 'IntConfig0', 0x02, ['OrientChgConfig%s' % i for i in (0, 1, 3, 4, 5, 6, 7, 8, 9)]),
    ('fwm', 'IntConfig0', 0x40, ['FifoConfig1', 'FifoConfig2']),
    ('actch', 'IntConfig1', 0x10, ['ActChgConfig0', 'ActChgConfig1']),
    ('tap', 'IntConfig1', 0x0C, ['TapConfig0', 'TapConfig1']),
    ('wkup', 'WakeupIntConfig0', 0xE0, ['WakeupIntConfig1', 'WakeupIntConfig2', 'WakeupIntConfig3', 'WakeupIntConfig4']),
]
