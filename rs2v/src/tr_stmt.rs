// Statement-position expressions (included into tr.rs)

struct AssignScan {
    assigned: Vec<String>,
    declared: BTreeSet<String>,
}

fn root_ident(e: &syn::Expr) -> Option<String> {
    match e {
        syn::Expr::Path(p) if p.path.segments.len() == 1 => Some(p.path.segments[0].ident.to_string()),
        syn::Expr::Field(f) => root_ident(&f.base),
        syn::Expr::Paren(p) => root_ident(&p.expr),
        syn::Expr::Reference(r) => root_ident(&r.expr),
        syn::Expr::Index(i) => root_ident(&i.expr),
        _ => None,
    }
}

fn is_assign_op(op: &syn::BinOp) -> bool {
    matches!(
        op,
        syn::BinOp::AddAssign(_)
            | syn::BinOp::SubAssign(_)
            | syn::BinOp::MulAssign(_)
            | syn::BinOp::BitAndAssign(_)
            | syn::BinOp::BitOrAssign(_)
            | syn::BinOp::BitXorAssign(_)
            | syn::BinOp::ShlAssign(_)
            | syn::BinOp::ShrAssign(_)
    )
}

impl AssignScan {
    fn add(&mut self, n: String) {
        if !self.assigned.contains(&n) {
            self.assigned.push(n);
        }
    }
    fn block(&mut self, b: &syn::Block) {
        for s in &b.stmts {
            match s {
                syn::Stmt::Local(l) => {
                    if let Some(i) = &l.init {
                        self.expr(&i.expr);
                    }
                    self.pat(&l.pat);
                }
                syn::Stmt::Expr(e, _) => self.expr(e),
                _ => {}
            }
        }
    }
    fn pat(&mut self, p: &syn::Pat) {
        match p {
            syn::Pat::Ident(i) => {
                self.declared.insert(i.ident.to_string());
            }
            syn::Pat::Type(t) => self.pat(&t.pat),
            syn::Pat::Tuple(t) => {
                for e in &t.elems {
                    self.pat(e)
                }
            }
            _ => {}
        }
    }
    fn expr(&mut self, e: &syn::Expr) {
        match e {
            syn::Expr::Assign(a) => {
                if let Some(r) = root_ident(&a.left) {
                    self.add(r);
                }
                self.expr(&a.right);
            }
            syn::Expr::Binary(b) => {
                if is_assign_op(&b.op) {
                    if let Some(r) = root_ident(&b.left) {
                        self.add(r);
                    }
                }
                self.expr(&b.left);
                self.expr(&b.right);
            }
            syn::Expr::If(i) => {
                self.expr(&i.cond);
                self.block(&i.then_branch);
                if let Some((_, eb)) = &i.else_branch {
                    self.expr(eb);
                }
            }
            syn::Expr::Block(b) => self.block(&b.block),
            syn::Expr::While(w) => {
                self.expr(&w.cond);
                self.block(&w.body);
            }
            syn::Expr::Match(m) => {
                // `match &mut place` mutates place through the arm bindings
                if let syn::Expr::Reference(r) = &*m.expr {
                    if r.mutability.is_some() {
                        if let Some(root) = root_ident(&r.expr) {
                            self.add(root);
                        }
                    }
                }
                for a in &m.arms {
                    // arm bindings are local to the arm
                    let mut inner = AssignScan { assigned: vec![], declared: BTreeSet::new() };
                    collect_pat_idents(&a.pat, &mut inner.declared);
                    inner.expr(&a.body);
                    for n in inner.assigned {
                        if !inner.declared.contains(&n) {
                            self.add(n);
                        }
                    }
                }
            }
            syn::Expr::Try(t) => self.expr(&t.expr),
            syn::Expr::Paren(p) => self.expr(&p.expr),
            syn::Expr::MethodCall(m) => {
                let name = m.method.to_string();
                if name == "read_register" && m.args.len() == 2 {
                    // the buffer argument is overwritten
                    if let Some(r) = root_ident(&m.args[1]) {
                        self.add(r);
                    }
                }
                self.expr(&m.receiver);
                for a in &m.args {
                    self.expr(a);
                }
            }
            syn::Expr::Call(c) => {
                for a in &c.args {
                    self.expr(a);
                }
            }
            _ => {}
        }
    }
}

fn collect_pat_idents(p: &syn::Pat, out: &mut BTreeSet<String>) {
    match p {
        syn::Pat::Ident(i) => {
            out.insert(i.ident.to_string());
        }
        syn::Pat::TupleStruct(t) => {
            for e in &t.elems {
                collect_pat_idents(e, out)
            }
        }
        syn::Pat::Tuple(t) => {
            for e in &t.elems {
                collect_pat_idents(e, out)
            }
        }
        syn::Pat::Reference(r) => collect_pat_idents(&r.pat, out),
        _ => {}
    }
}

impl<'a> Tr<'a> {
    // locals (visible in ctx) assigned inside the given expression/blocks
    fn mutated_locals(&self, ctx: &Ctx, f: impl FnOnce(&mut AssignScan)) -> Vec<String> {
        let mut sc = AssignScan { assigned: vec![], declared: BTreeSet::new() };
        f(&mut sc);
        sc.assigned
            .into_iter()
            .filter(|n| !sc.declared.contains(n))
            .filter(|n| {
                if n == "self" {
                    matches!(ctx.self_mode, SelfMode::Value(_) | SelfMode::BuilderValue(_))
                } else {
                    ctx.lookup(n).is_some()
                }
            })
            .collect()
    }

    fn tr_stmt_expr(&mut self, ctx: &mut Ctx, e: &syn::Expr) -> StmtCode {
        match e {
            syn::Expr::Paren(p) => self.tr_stmt_expr(ctx, &p.expr),
            syn::Expr::Assign(a) => self.tr_assign(ctx, &a.left, None, &a.right, e),
            syn::Expr::Binary(b) if is_assign_op(&b.op) => self.tr_assign(ctx, &b.left, Some(&b.op), &b.right, e),
            syn::Expr::If(i) => {
                let vars = self.mutated_locals(ctx, |sc| sc.expr(e));
                let tail = Tail::Vars(vars.clone());
                let mut items = vec![];
                let code = if let syn::Expr::Let(_) = &*i.cond {
                    self.tr_tail_expr(ctx, e, &tail)
                } else {
                    let c = self.tr_expr(ctx, &i.cond);
                    items = self.pre_items(ctx);
                    ctx.locals.push(HashMap::new());
                    let a = self.tr_stmts(ctx, &i.then_branch.stmts, &tail);
                    ctx.locals.pop();
                    let b = match &i.else_branch {
                        Some((_, eb)) => self.tr_tail_expr(ctx, eb, &tail),
                        None => Code::Ret(tuple_of(&vars)),
                    };
                    Code::If(c.s, Box::new(a), Box::new(b))
                };
                items.push(PreItem::Sub(tuple_pat(&vars), code));
                StmtCode::Pre(items)
            }
            syn::Expr::Block(b) => {
                let vars = self.mutated_locals(ctx, |sc| sc.expr(e));
                ctx.locals.push(HashMap::new());
                let code = self.tr_stmts(ctx, &b.block.stmts, &Tail::Vars(vars.clone()));
                ctx.locals.pop();
                StmtCode::Pre(vec![PreItem::Sub(tuple_pat(&vars), code)])
            }
            syn::Expr::Match(m) => {
                let vars = self.mutated_locals(ctx, |sc| sc.expr(e));
                // `match &mut place { V(b) => { b.f = ..; } }`: arm bindings alias the payload of place
                if let syn::Expr::Reference(r) = &*m.expr {
                    if r.mutability.is_some() {
                        return self.tr_match_mut(ctx, m, &r.expr, vars);
                    }
                }
                let s = self.tr_expr(ctx, &m.expr);
                let mut items = self.pre_items(ctx);
                let code = self.tr_match_code(ctx, m, &s, &Tail::Vars(vars.clone()));
                items.push(PreItem::Sub(tuple_pat(&vars), code));
                StmtCode::Pre(items)
            }
            syn::Expr::While(w) => {
                let vars = self.mutated_locals(ctx, |sc| sc.block(&w.body));
                if vars.is_empty() {
                    ctx.bail(w, "while loop that mutates no local");
                }
                let c = self.tr_expr(ctx, &w.cond);
                if !ctx.pre.is_empty() || ctx.shadow_var.is_some() {
                    ctx.bail(w, "loop condition with side conditions");
                }
                ctx.locals.push(HashMap::new());
                let body = self.tr_stmts(ctx, &w.body.stmts, &Tail::Vars(vars.clone()));
                ctx.locals.pop();
                if kind_of(&body) == Kind::Prog {
                    ctx.bail(w, "bus access inside a loop");
                }
                let pat = match vars.len() {
                    1 => v(&vars[0]),
                    _ => format!("({})", vars.iter().map(|x| v(x)).collect::<Vec<_>>().join(", ")),
                };
                StmtCode::Pre(vec![PreItem::Loop(pat, c.s, body, tuple_of(&vars))])
            }
            syn::Expr::Try(_) | syn::Expr::MethodCall(_) | syn::Expr::Call(_) => {
                // evaluated for effect
                let r = self.tr_expr(ctx, e);
                let mut items = self.pre_items(ctx);
                if r.ty != Ty::Unit && r.s != "tt" {
                    items.push(PreItem::Let("_".into(), r.s));
                }
                StmtCode::Pre(items)
            }
            _ => ctx.bail(e, "expression statement"),
        }
    }

    fn pre_items(&self, ctx: &mut Ctx) -> Vec<PreItem> {
        self.take_pre(ctx)
            .into_iter()
            .map(|p| match p {
                Pre::Res(x, e) => PreItem::Res(x, e),
                Pre::Prog(x, e) => PreItem::Prog(x, e),
                Pre::Let(x, e) => PreItem::Let(x, e),
            })
            .collect()
    }

    fn tr_match_mut(&mut self, ctx: &mut Ctx, m: &syn::ExprMatch, place: &syn::Expr, vars: Vec<String>) -> StmtCode {
        // place must be (the builder config held in) a local
        let pl = self.tr_place(ctx, place);
        let (root, _path, pty) = match pl {
            Place::Local { root, path, ty } if path.is_empty() => (root, path, ty),
            _ => ctx.bail(place, "match &mut on something other than a whole local"),
        };
        let ename = match &pty {
            Ty::Named(n) if self.db.enums.contains_key(n) => n.clone(),
            _ => ctx.bail(place, "match &mut on a non-enum"),
        };
        let mut arms = vec![];
        for arm in &m.arms {
            ctx.locals.push(HashMap::new());
            // pattern must be Enum::Variant(binding)
            let (vname, binder) = match &arm.pat {
                syn::Pat::TupleStruct(ts) if ts.elems.len() == 1 => {
                    let vn = ts.path.segments.last().unwrap().ident.to_string();
                    match &ts.elems[0] {
                        syn::Pat::Ident(i) => (vn, i.ident.to_string()),
                        _ => ctx.bail(&arm.pat, "pattern in match &mut"),
                    }
                }
                _ => ctx.bail(&arm.pat, "pattern in match &mut"),
            };
            let ed = self.db.enums.get(&ename).unwrap();
            let payload = ed.variants.iter().find(|(n, _)| *n == vname).unwrap_or_else(|| ctx.bail(&arm.pat, "unknown variant")).1.clone();
            ctx.bind(&binder, payload[0].clone());
            // the arm yields the rebuilt place plus the other mutated locals
            let mut yielded: Vec<String> = vec![];
            for x in &vars {
                if *x == root {
                    yielded.push(format!("{}_{} {}", ename, vname, v(&binder)));
                } else {
                    yielded.push(v(x));
                }
            }
            let tailv = match yielded.len() {
                1 => yielded[0].clone(),
                _ => format!("({})", yielded.join(", ")),
            };
            let body_stmts: Vec<syn::Stmt> = match &*arm.body {
                syn::Expr::Block(b) => {
                    let mut s = b.block.stmts.clone();
                    if let Some(syn::Stmt::Expr(x, None)) = s.last().cloned() {
                        let n = s.len();
                        s[n - 1] = syn::Stmt::Expr(x, Some(Default::default()));
                    }
                    s
                }
                other => vec![syn::Stmt::Expr(other.clone(), Some(Default::default()))],
            };
            let code = self.tr_stmts_then(ctx, &body_stmts, Code::Ret(tailv));
            ctx.locals.pop();
            arms.push((format!("{}_{} {}", ename, vname, v(&binder)), code));
        }
        let scrut = v(&root);
        StmtCode::Pre(vec![PreItem::Sub(tuple_pat(&vars), Code::Match(scrut, arms))])
    }

    // statements followed by a fixed final code
    fn tr_stmts_then(&mut self, ctx: &mut Ctx, stmts: &[syn::Stmt], fin: Code) -> Code {
        if stmts.is_empty() {
            return fin;
        }
        let (first, rest) = stmts.split_first().unwrap();
        match first {
            syn::Stmt::Expr(e, _) => {
                let st = self.tr_stmt_expr(ctx, e);
                let r = self.tr_stmts_then(ctx, rest, fin);
                st.into_code(self, r)
            }
            _ => ctx.bail(first, "statement form inside match &mut arm"),
        }
    }

    fn tr_assign(&mut self, ctx: &mut Ctx, left: &syn::Expr, op: Option<&syn::BinOp>, right: &syn::Expr, whole: &syn::Expr) -> StmtCode {
        let pl = self.tr_place(ctx, left);
        let lty = pl.ty();
        let rhs = match op {
            None => self.tr_expr_hint(ctx, right, Some(&lty)),
            Some(op) => {
                let base = match op {
                    syn::BinOp::AddAssign(t) => syn::BinOp::Add(syn::token::Plus(t.spans[0])),
                    syn::BinOp::SubAssign(t) => syn::BinOp::Sub(syn::token::Minus(t.spans[0])),
                    syn::BinOp::MulAssign(t) => syn::BinOp::Mul(syn::token::Star(t.spans[0])),
                    syn::BinOp::BitAndAssign(t) => syn::BinOp::BitAnd(syn::token::And(t.spans[0])),
                    syn::BinOp::BitOrAssign(t) => syn::BinOp::BitOr(syn::token::Or(t.spans[0])),
                    syn::BinOp::BitXorAssign(t) => syn::BinOp::BitXor(syn::token::Caret(t.spans[0])),
                    syn::BinOp::ShlAssign(t) => syn::BinOp::Shl(syn::token::Shl([t.spans[0], t.spans[1]])),
                    syn::BinOp::ShrAssign(t) => syn::BinOp::Shr(syn::token::Shr([t.spans[0], t.spans[1]])),
                    _ => ctx.bail(whole, "compound assignment operator"),
                };
                let l = self.tr_expr(ctx, left);
                let r = self.tr_expr_hint(ctx, right, Some(&l.ty));
                self.tr_binop(ctx, &base, l, r, whole)
            }
        };
        let mut items = self.pre_items(ctx);
        match pl {
            Place::Local { root, path, ty: _ } => {
                let rt = if root == "self" {
                    match &ctx.self_mode {
                        SelfMode::Value(t) | SelfMode::BuilderValue(t) | SelfMode::BuilderProg(t) => t.clone(),
                        _ => ctx.bail(left, "assignment through self"),
                    }
                } else {
                    ctx.lookup(&root).unwrap()
                };
                let newv = self.set_path(ctx, &rt, &path, &rhs.s, &v(&root), left);
                items.push(PreItem::Let(v(&root), newv));
                // refine an unknown local type
                if path.is_empty() {
                    if let Some(t) = ctx.lookup(&root) {
                        if t == Ty::Unknown || t == Ty::IntLit {
                            // update in the scope where it lives
                            for s in ctx.locals.iter_mut().rev() {
                                if s.contains_key(&root) {
                                    s.insert(root.clone(), rhs.ty.clone());
                                    break;
                                }
                            }
                        }
                    }
                }
            }
            Place::Shadow { path, ty: _ } => {
                if path.is_empty() {
                    items.push(PreItem::Prog("_".into(), format!("put_shadow {}", paren(&rhs.s))));
                } else {
                    let newv = self.set_path(ctx, &Ty::Named("Config".into()), &path, &rhs.s, "d", left);
                    items.push(PreItem::Prog("_".into(), format!("modify (fun d => {})", newv)));
                }
            }
        }
        StmtCode::Pre(items)
    }

    // functional update of `base` (of type bty) at field path with value
    fn set_path(&self, ctx: &Ctx, bty: &Ty, path: &[String], val: &str, base: &str, at: &syn::Expr) -> String {
        if path.is_empty() {
            return val.to_string();
        }
        let sname = match bty {
            Ty::Named(n) if self.db.structs.contains_key(n) => n.clone(),
            Ty::Named(n) if n == "BMA400" => "BMA400".to_string(),
            _ => ctx.bail(at, "field assignment on a non-struct"),
        };
        if sname == "BMA400" {
            // device.config.x : BMA400 is represented by its Config
            if path[0] != "config" {
                ctx.bail(at, "assignment to a BMA400 field other than config");
            }
            return self.set_path(ctx, &Ty::Named("Config".into()), &path[1..], val, base, at);
        }
        let sd = self.db.structs.get(&sname).unwrap();
        let fty = sd.fields.iter().find(|(n, _)| *n == path[0]).unwrap_or_else(|| ctx.bail(at, "unknown field")).1.clone();
        let inner_base = format!("({}_{} {})", sname, path[0], base);
        let inner = self.set_path(ctx, &fty, &path[1..], val, &inner_base, at);
        format!("set_{}_{} {} {}", sname, path[0], paren(&inner), base)
    }
}

// An assignable location
enum Place {
    Local { root: String, path: Vec<String>, ty: Ty },
    Shadow { path: Vec<String>, ty: Ty },
}
impl Place {
    fn ty(&self) -> Ty {
        match self {
            Place::Local { ty, .. } | Place::Shadow { ty, .. } => ty.clone(),
        }
    }
}
