// Expressions, places and patterns (included into tr.rs)

const BUS: &str = "#Bus";
const DEVICE: &str = "#Device";
const BSELF: &str = "#BuilderSelf";
const ASELF: &str = "#AmbientSelf";
const TIMER: &str = "#Dropped";

struct MatchesMacro {
    expr: syn::Expr,
    pat: syn::Pat,
}
impl syn::parse::Parse for MatchesMacro {
    fn parse(input: syn::parse::ParseStream) -> syn::Result<Self> {
        let expr: syn::Expr = input.parse()?;
        input.parse::<syn::Token![,]>()?;
        let pat = syn::Pat::parse_multi_with_leading_vert(input)?;
        Ok(MatchesMacro { expr, pat })
    }
}

impl<'a> Tr<'a> {
    fn named(n: &str) -> Ty {
        Ty::Named(n.to_string())
    }

    fn shadow(&self, ctx: &mut Ctx) -> String {
        if let Some(d) = &ctx.shadow_var {
            return d.clone();
        }
        if ctx.effect_in_stmt {
            unsupported(&ctx.f.file, ctx.f.line, "device state read after a bus access or state update within one statement");
        }
        let d = ctx.fresh("d");
        ctx.shadow_var = Some(d.clone());
        d
    }

    fn field_ty(&self, ctx: &Ctx, t: &Ty, f: &str, at: &syn::Expr) -> (String, Ty) {
        // returns (struct name, field type)
        match t {
            Ty::Named(n) if self.db.structs.contains_key(n) => {
                let sd = self.db.structs.get(n).unwrap();
                match sd.fields.iter().find(|(x, _)| x == f) {
                    Some((_, ft)) => (n.clone(), ft.clone()),
                    None => ctx.bail(at, &format!("unknown field {} of {}", f, n)),
                }
            }
            _ => ctx.bail(at, &format!("field access .{} on a value that is not a struct ({:?})", f, t)),
        }
    }

    fn tr_place(&mut self, ctx: &mut Ctx, e: &syn::Expr) -> Place {
        // collect the field chain
        let mut fields: Vec<String> = vec![];
        let mut cur = e;
        loop {
            match cur {
                syn::Expr::Field(f) => {
                    match &f.member {
                        syn::Member::Named(i) => fields.push(i.to_string()),
                        _ => ctx.bail(e, "tuple field assignment"),
                    }
                    cur = &f.base;
                }
                syn::Expr::Paren(p) => cur = &p.expr,
                syn::Expr::Unary(u) if matches!(u.op, syn::UnOp::Deref(_)) => cur = &u.expr,
                _ => break,
            }
        }
        fields.reverse();
        let root = match cur {
            syn::Expr::Path(p) if p.path.segments.len() == 1 => p.path.segments[0].ident.to_string(),
            _ => ctx.bail(e, "assignment target"),
        };
        let walk = |this: &Self, ctx: &Ctx, mut t: Ty, path: &[String]| -> Ty {
            for f in path {
                t = this.field_ty(ctx, &t, f, e).1;
            }
            t
        };
        if root == "self" {
            match ctx.self_mode.clone() {
                SelfMode::Value(t) => {
                    let ty = walk(self, ctx, t, &fields);
                    Place::Local { root, path: fields, ty }
                }
                SelfMode::BuilderValue(t) | SelfMode::BuilderProg(t) => {
                    if fields.first().map(|s| s.as_str()) == Some("config") {
                        let path = fields[1..].to_vec();
                        let ty = walk(self, ctx, t, &path);
                        Place::Local { root, path, ty }
                    } else if fields.len() >= 2 && fields[0] == "device" && fields[1] == "config" && matches!(ctx.self_mode, SelfMode::BuilderProg(_)) {
                        let path = fields[2..].to_vec();
                        let ty = walk(self, ctx, Self::named("Config"), &path);
                        Place::Shadow { path, ty }
                    } else {
                        ctx.bail(e, "assignment through a builder")
                    }
                }
                SelfMode::Ambient => {
                    if fields.first().map(|s| s.as_str()) == Some("config") {
                        let path = fields[1..].to_vec();
                        let ty = walk(self, ctx, Self::named("Config"), &path);
                        Place::Shadow { path, ty }
                    } else {
                        ctx.bail(e, "assignment to a device field other than config")
                    }
                }
                SelfMode::AmbientConfig => {
                    let ty = walk(self, ctx, Self::named("Config"), &fields);
                    Place::Shadow { path: fields, ty }
                }
                SelfMode::None => ctx.bail(e, "self in a function without receiver"),
            }
        } else {
            let t = ctx.lookup(&root).unwrap_or_else(|| ctx.bail(e, &format!("assignment to unknown local {}", root)));
            let ty = walk(self, ctx, t, &fields);
            Place::Local { root, path: fields, ty }
        }
    }

    pub fn tr_expr(&mut self, ctx: &mut Ctx, e: &syn::Expr) -> E {
        self.tr_expr_hint(ctx, e, None)
    }

    fn lit_int(&self, ctx: &Ctx, l: &syn::LitInt, hint: Option<&Ty>, neg: bool) -> E {
        let n = lit_to_n(l);
        let ty = match l.suffix() {
            "u8" => Ty::U8,
            "u16" => Ty::U16,
            "u32" => Ty::U32,
            "usize" => Ty::Usize,
            "i8" => Ty::I8,
            "i16" => Ty::I16,
            "i32" => Ty::I32,
            "" => match hint {
                Some(t) if t.is_unsigned() || t.is_signed() => t.clone(),
                _ => {
                    if neg { Ty::I32 } else { Ty::IntLit }
                }
            },
            _ => ctx.bail(l, "integer literal suffix"),
        };
        if ty.is_signed() {
            E { s: format!("({}{})%Z", if neg { "-" } else { "" }, n), ty }
        } else {
            if neg {
                ctx.bail(l, "negative unsigned literal");
            }
            E { s: format!("{}", n), ty }
        }
    }

    // run `f` with an empty pre-list; whatever it leaves is returned and the outer list is restored
    fn sub_code(&mut self, ctx: &mut Ctx, f: impl FnOnce(&mut Self, &mut Ctx) -> Code) -> Code {
        let saved = std::mem::take(&mut ctx.pre);
        ctx.sub_depth += 1;
        let c = f(self, ctx);
        ctx.sub_depth -= 1;
        if !ctx.pre.is_empty() {
            panic!("internal: dangling pre-binders");
        }
        ctx.pre = saved;
        c
    }

    // use a Code as an expression value
    fn code_value(&mut self, ctx: &mut Ctx, c: Code, ty: Ty) -> E {
        match kind_of(&c) {
            Kind::Pure => E { s: format!("({})", render(&c, Kind::Pure, 0).replace('\n', " ")), ty },
            Kind::Res => {
                let x = ctx.fresh("r");
                ctx.pre.push(Pre::Res(x.clone(), format!("({})", render(&c, Kind::Res, 0).replace('\n', " "))));
                E { s: x, ty }
            }
            Kind::Prog => {
                let x = ctx.fresh("r");
                ctx.pre.push(Pre::Prog(x.clone(), format!("({})", render(&c, Kind::Prog, 0).replace('\n', " "))));
                E { s: x, ty }
            }
        }
    }

    pub fn tr_expr_hint(&mut self, ctx: &mut Ctx, e: &syn::Expr, hint: Option<&Ty>) -> E {
        match e {
            syn::Expr::Paren(p) => self.tr_expr_hint(ctx, &p.expr, hint),
            syn::Expr::Group(p) => self.tr_expr_hint(ctx, &p.expr, hint),
            syn::Expr::Reference(r) => self.tr_expr_hint(ctx, &r.expr, hint),
            syn::Expr::Lit(l) => match &l.lit {
                syn::Lit::Int(i) => self.lit_int(ctx, i, hint, false),
                syn::Lit::Bool(b) => E { s: if b.value { "true".into() } else { "false".into() }, ty: Ty::Bool },
                _ => ctx.bail(e, "literal kind"),
            },
            syn::Expr::Unary(u) => match &u.op {
                syn::UnOp::Not(_) => {
                    let a = self.tr_expr(ctx, &u.expr);
                    if a.ty != Ty::Bool {
                        ctx.bail(e, "`!` on a non-boolean");
                    }
                    E { s: format!("negb {}", paren(&a.s)), ty: Ty::Bool }
                }
                syn::UnOp::Neg(_) => match &*u.expr {
                    syn::Expr::Lit(syn::ExprLit { lit: syn::Lit::Int(i), .. }) => self.lit_int(ctx, i, hint, true),
                    _ => ctx.bail(e, "negation of a non-literal"),
                },
                syn::UnOp::Deref(_) => self.tr_expr_hint(ctx, &u.expr, hint),
                _ => ctx.bail(e, "unary operator"),
            },
            syn::Expr::Path(p) => self.tr_path(ctx, p, e),
            syn::Expr::Field(f) => self.tr_field(ctx, f, e),
            syn::Expr::Binary(b) => {
                if is_assign_op(&b.op) {
                    ctx.bail(e, "compound assignment used as a value");
                }
                match &b.op {
                    syn::BinOp::And(_) | syn::BinOp::Or(_) => {
                        let is_and = matches!(b.op, syn::BinOp::And(_));
                        let l = self.tr_expr(ctx, &b.left);
                        // right operand is evaluated conditionally
                        let rexpr = &b.right;
                        let mut rty = Ty::Bool;
                        let rc = self.sub_code(ctx, |this, ctx| {
                            let r = this.tr_expr(ctx, rexpr);
                            rty = r.ty.clone();
                            let pre = this.take_pre(ctx);
                            this.wrap_pre(pre, Code::Ret(r.s))
                        });
                        if l.ty != Ty::Bool || rty != Ty::Bool {
                            ctx.bail(e, "&& / || on non-booleans");
                        }
                        if let Code::Ret(rs) = &rc {
                            let op = if is_and { "andb" } else { "orb" };
                            E { s: format!("{} {} {}", op, paren(&l.s), paren(rs)), ty: Ty::Bool }
                        } else {
                            let c = if is_and {
                                Code::If(l.s, Box::new(rc), Box::new(Code::Ret("false".into())))
                            } else {
                                Code::If(l.s, Box::new(Code::Ret("true".into())), Box::new(rc))
                            };
                            self.code_value(ctx, c, Ty::Bool)
                        }
                    }
                    _ => {
                        // literal operands take the type of the other side
                        let (l, r) = if matches!(&*b.left, syn::Expr::Lit(_)) {
                            let r = self.tr_expr(ctx, &b.right);
                            let l = self.tr_expr_hint(ctx, &b.left, Some(&r.ty));
                            (l, r)
                        } else {
                            let l = self.tr_expr_hint(ctx, &b.left, hint);
                            let shift = matches!(b.op, syn::BinOp::Shl(_) | syn::BinOp::Shr(_));
                            let r = if shift { self.tr_expr_hint(ctx, &b.right, Some(&Ty::Usize)) } else { self.tr_expr_hint(ctx, &b.right, Some(&l.ty)) };
                            (l, r)
                        };
                        self.tr_binop(ctx, &b.op, l, r, e)
                    }
                }
            }
            syn::Expr::MethodCall(m) => self.tr_method(ctx, m, e, false),
            syn::Expr::Try(t) => match &*t.expr {
                syn::Expr::MethodCall(m) => self.tr_method(ctx, m, e, true),
                _ => ctx.bail(e, "`?` on something other than a method call"),
            },
            syn::Expr::Call(c) => self.tr_call(ctx, c, e, hint),
            syn::Expr::Index(i) => self.tr_index(ctx, i, e),
            syn::Expr::Tuple(t) => {
                if t.elems.is_empty() {
                    return E { s: "tt".into(), ty: Ty::Unit };
                }
                let es: Vec<E> = t.elems.iter().map(|x| self.tr_expr(ctx, x)).collect();
                E { s: format!("({})", es.iter().map(|x| x.s.clone()).collect::<Vec<_>>().join(", ")), ty: Ty::Tuple(es.iter().map(|x| x.ty.clone()).collect()) }
            }
            syn::Expr::Array(a) => {
                let es: Vec<E> = a.elems.iter().map(|x| self.tr_expr_hint(ctx, x, Some(&Ty::U8))).collect();
                E { s: format!("[{}]", es.iter().map(|x| x.s.clone()).collect::<Vec<_>>().join("; ")), ty: Ty::Array(Box::new(Ty::U8), Some(es.len() as u64)) }
            }
            syn::Expr::Repeat(r) => {
                let v0 = self.tr_expr_hint(ctx, &r.expr, Some(&Ty::U8));
                let n = match &*r.len {
                    syn::Expr::Lit(syn::ExprLit { lit: syn::Lit::Int(i), .. }) => lit_to_n(i) as u64,
                    _ => ctx.bail(e, "array repeat with non-literal length"),
                };
                E { s: format!("repeatN {} {}", paren(&v0.s), n), ty: Ty::Array(Box::new(v0.ty), Some(n)) }
            }
            syn::Expr::Struct(s) => self.tr_struct_lit(ctx, s, e),
            syn::Expr::Macro(m) => {
                if m.mac.path.is_ident("matches") {
                    let mm: MatchesMacro = m.mac.parse_body().unwrap_or_else(|_| ctx.bail(e, "matches! arguments"));
                    let s = self.tr_expr(ctx, &mm.expr);
                    ctx.locals.push(HashMap::new());
                    let p = self.tr_pat(ctx, &mm.pat, &s.ty);
                    ctx.locals.pop();
                    E { s: format!("match {} with {} => true | _ => false end", s.s, p), ty: Ty::Bool }
                } else if m.mac.path.is_ident("unreachable") {
                    ctx.pre.push(Pre::Res("_".into(), "(@Panic unit)".into()));
                    E { s: "tt".into(), ty: hint.cloned().unwrap_or(Ty::Unknown) }
                } else {
                    ctx.bail(e, "macro in expression position")
                }
            }
            syn::Expr::If(_) | syn::Expr::Match(_) | syn::Expr::Block(_) => {
                let mut vty = Ty::Unknown;
                let c = self.sub_code(ctx, |this, ctx| {
                    ctx.value_tys.clear();
                    let c = this.tr_tail_expr(ctx, e, &Tail::Value);
                    // the value type is the first known arm type
                    for t in &ctx.value_tys {
                        if *t != Ty::Unknown && *t != Ty::IntLit {
                            vty = t.clone();
                            break;
                        }
                    }
                    if vty == Ty::Unknown {
                        if let Some(t) = ctx.value_tys.first() {
                            vty = t.clone();
                        }
                    }
                    c
                });
                if vty == Ty::IntLit || vty == Ty::Unknown {
                    if let Some(h) = hint {
                        vty = h.clone();
                    }
                }
                self.code_value(ctx, c, vty)
            }
            syn::Expr::Cast(_) => ctx.bail(e, "`as` cast"),
            syn::Expr::Closure(_) => ctx.bail(e, "closure"),
            syn::Expr::Range(_) => ctx.bail(e, "range outside an index"),
            _ => ctx.bail(e, "expression form"),
        }
    }

    fn tr_binop(&mut self, ctx: &mut Ctx, op: &syn::BinOp, l: E, r: E, at: &syn::Expr) -> E {
        let lt = if l.ty == Ty::IntLit || l.ty == Ty::Unknown { r.ty.clone() } else { l.ty.clone() };
        let a = paren(&l.s);
        let b = paren(&r.s);
        let signed = lt.is_signed();
        let is_reg = self.is_reg(&lt);
        let unsigned = lt.is_unsigned() || lt == Ty::IntLit || lt == Ty::Unknown || is_reg;
        let cmp = |name_n: &str, name_z: &str, swap: bool, neg: bool| -> E {
            let (x, y) = if swap { (&b, &a) } else { (&a, &b) };
            let f = if signed { name_z } else { name_n };
            let s = format!("{} {} {}", f, x, y);
            E { s: if neg { format!("negb ({})", s) } else { s }, ty: Ty::Bool }
        };
        match op {
            syn::BinOp::Eq(_) | syn::BinOp::Ne(_) => {
                let ne = matches!(op, syn::BinOp::Ne(_));
                if lt == Ty::Bool {
                    return E { s: if ne { format!("xorb {} {}", a, b) } else { format!("Bool.eqb {} {}", a, b) }, ty: Ty::Bool };
                }
                if signed {
                    E { s: if ne { format!("zneqb {} {}", a, b) } else { format!("Z.eqb {} {}", a, b) }, ty: Ty::Bool }
                } else if unsigned {
                    E { s: if ne { format!("neqb {} {}", a, b) } else { format!("N.eqb {} {}", a, b) }, ty: Ty::Bool }
                } else {
                    ctx.bail(at, "equality on a non-integer type")
                }
            }
            syn::BinOp::Lt(_) => cmp("N.ltb", "Z.ltb", false, false),
            syn::BinOp::Le(_) => cmp("N.leb", "Z.leb", false, false),
            syn::BinOp::Gt(_) => cmp("N.ltb", "Z.ltb", true, false),
            syn::BinOp::Ge(_) => cmp("N.leb", "Z.leb", true, false),
            syn::BinOp::BitAnd(_) if unsigned => E { s: format!("N.land {} {}", a, b), ty: lt },
            syn::BinOp::BitOr(_) if unsigned => E { s: format!("N.lor {} {}", a, b), ty: lt },
            syn::BinOp::BitXor(_) if unsigned => E { s: format!("N.lxor {} {}", a, b), ty: lt },
            syn::BinOp::Shr(_) if unsigned && !is_reg => {
                // shift amount must be a literal below the width, or the value is usize-like
                self.check_shift(ctx, &lt, &r, at);
                E { s: format!("shr {} {}", a, b), ty: lt }
            }
            syn::BinOp::Shl(_) if unsigned && !is_reg => {
                let w = match lt.width() {
                    Some(w) => w,
                    None => ctx.bail(at, "`<<` on a value of unknown width"),
                };
                if self.shift_is_safe(&lt, &r) {
                    E { s: format!("shl {} {} {}", w, a, b), ty: lt }
                } else {
                    let x = ctx.fresh("r");
                    ctx.pre.push(Pre::Res(x.clone(), format!("shl_chk {} {} {}", w, a, b)));
                    E { s: x, ty: lt }
                }
            }
            syn::BinOp::Shl(_) if signed => {
                let w = lt.width().unwrap();
                if self.shift_is_safe(&lt, &r) {
                    E { s: format!("ishl {} {} {}", w, a, b), ty: lt }
                } else {
                    let x = ctx.fresh("r");
                    ctx.pre.push(Pre::Res(x.clone(), format!("ishl_chk {} {} {}", w, a, b)));
                    E { s: x, ty: lt }
                }
            }
            syn::BinOp::Sub(_) if signed => {
                let x = ctx.fresh("r");
                ctx.pre.push(Pre::Res(x.clone(), format!("isub_chk {} {} {}", lt.width().unwrap(), a, b)));
                E { s: x, ty: lt }
            }
            syn::BinOp::Add(_) if signed => {
                let x = ctx.fresh("r");
                ctx.pre.push(Pre::Res(x.clone(), format!("iadd_chk {} {} {}", lt.width().unwrap(), a, b)));
                E { s: x, ty: lt }
            }
            syn::BinOp::Sub(_) if unsigned && !is_reg => {
                let x = ctx.fresh("r");
                ctx.pre.push(Pre::Res(x.clone(), format!("sub_chk {} {}", a, b)));
                E { s: x, ty: lt }
            }
            syn::BinOp::Add(_) | syn::BinOp::Mul(_) if unsigned && !is_reg => {
                let add = matches!(op, syn::BinOp::Add(_));
                match lt.width() {
                    // usize / untyped integer temporaries: unbounded (DESIGN.md §4.1; C05 bounds them by len + 7)
                    None => E { s: format!("{} {} {}", if add { "N.add" } else { "N.mul" }, a, b), ty: if lt == Ty::IntLit || lt == Ty::Unknown { Ty::Usize } else { lt } },
                    Some(w) => {
                        let x = ctx.fresh("r");
                        ctx.pre.push(Pre::Res(x.clone(), format!("{} {} {} {}", if add { "add_chk" } else { "mul_chk" }, w, a, b)));
                        E { s: x, ty: lt }
                    }
                }
            }
            _ => ctx.bail(at, &format!("binary operator on {:?}", lt)),
        }
    }

    fn shift_is_safe(&self, lt: &Ty, r: &E) -> bool {
        match (lt.width(), r.s.parse::<u32>()) {
            (Some(w), Ok(n)) => n < w,
            _ => false,
        }
    }
    fn check_shift(&self, ctx: &Ctx, lt: &Ty, r: &E, at: &syn::Expr) {
        if lt.width().is_some() && !self.shift_is_safe(lt, r) {
            ctx.bail(at, "`>>` with a non-literal or too large shift amount");
        }
    }

    fn enum_of_variant_path(&self, ctx: &Ctx, p: &syn::Path) -> Option<(String, String)> {
        let n = p.segments.len();
        if n < 2 {
            return None;
        }
        let mut en = p.segments[n - 2].ident.to_string();
        let vn = p.segments[n - 1].ident.to_string();
        if en == "Self" {
            en = ctx.self_ty_name.clone()?;
        }
        let ed = self.db.enums.get(&en)?;
        if ed.variants.iter().any(|(x, _)| *x == vn) {
            Some((en, vn))
        } else {
            None
        }
    }

    fn tr_path(&mut self, ctx: &mut Ctx, p: &syn::ExprPath, at: &syn::Expr) -> E {
        let segs = &p.path.segments;
        if segs.len() == 1 {
            let n = segs[0].ident.to_string();
            if n == "self" {
                return match ctx.self_mode.clone() {
                    SelfMode::Value(t) => E { s: v("self"), ty: t },
                    SelfMode::BuilderValue(_) | SelfMode::BuilderProg(_) => E { s: v("self"), ty: Self::named(BSELF) },
                    SelfMode::Ambient => E { s: "#".into(), ty: Self::named(ASELF) },
                    SelfMode::AmbientConfig => {
                        let d = self.shadow(ctx);
                        E { s: d, ty: Self::named("Config") }
                    }
                    SelfMode::None => ctx.bail(at, "self without receiver"),
                };
            }
            if n == "None" {
                return E { s: "None".into(), ty: Ty::Opt(Box::new(Ty::Unknown)) };
            }
            if ctx.generics_dropped.contains(&n) {
                return E { s: "#".into(), ty: Self::named(TIMER) };
            }
            if let Some(t) = ctx.lookup(&n) {
                return E { s: v(&n), ty: t };
            }
            // a named integer constant of the crate
            if let Some((t, _, _)) = self.db.consts.get(&format!("K_{}", n)) {
                return E { s: format!("K_{}", n), ty: t.clone() };
            }
            // a read-only register used as a value (first argument of read_register)
            if let Some(r) = self.db.regs.get(&n) {
                if !r.is_bitflags {
                    return E { s: format!("{}_ADDR", n), ty: Self::named(&n) };
                }
            }
            ctx.bail(at, &format!("unknown identifier {}", n));
        }
        // Type::X
        if let Some((en, vn)) = self.enum_of_variant_path(ctx, &p.path) {
            return E { s: format!("{}_{}", en, vn), ty: Self::named(&en) };
        }
        let n = segs.len();
        let mut tn = segs[n - 2].ident.to_string();
        let item = segs[n - 1].ident.to_string();
        if tn == "Self" {
            tn = ctx.self_ty_name.clone().unwrap_or_else(|| ctx.bail(at, "Self outside an impl"));
        }
        if let Some(r) = self.db.regs.get(&tn) {
            if r.flags.iter().any(|(f, _)| *f == item) {
                return E { s: format!("{}_{}", tn, item), ty: Self::named(&tn) };
            }
            if item == "ADDR" {
                return E { s: format!("{}_ADDR", tn), ty: Ty::U8 };
            }
        }
        // an associated integer constant of an impl block
        if let Some((t, _, _)) = self.db.consts.get(&format!("{}_{}", tn, item)) {
            if t.is_unsigned() || matches!(t, Ty::I8 | Ty::I16 | Ty::I32) {
                return E { s: format!("{}_{}", tn, item), ty: t.clone() };
            }
        }
        ctx.bail(at, &format!("path {}::{}", tn, item))
    }

    fn tr_field(&mut self, ctx: &mut Ctx, f: &syn::ExprField, at: &syn::Expr) -> E {
        let fname = match &f.member {
            syn::Member::Named(i) => i.to_string(),
            syn::Member::Unnamed(_) => ctx.bail(at, "tuple field"),
        };
        let base = self.tr_expr(ctx, &f.base);
        match &base.ty {
            Ty::Named(n) if n == BSELF => match fname.as_str() {
                "config" => {
                    let t = match &ctx.self_mode {
                        SelfMode::BuilderValue(t) | SelfMode::BuilderProg(t) => t.clone(),
                        _ => unreachable!(),
                    };
                    E { s: v("self"), ty: t }
                }
                "device" => {
                    if !matches!(ctx.self_mode, SelfMode::BuilderProg(_)) {
                        ctx.bail(at, "self.device outside write()");
                    }
                    E { s: "#".into(), ty: Self::named(DEVICE) }
                }
                _ => ctx.bail(at, "builder field"),
            },
            Ty::Named(n) if n == DEVICE || n == ASELF => match fname.as_str() {
                "config" => {
                    let d = self.shadow(ctx);
                    E { s: d, ty: Self::named("Config") }
                }
                "interface" => E { s: "#".into(), ty: Self::named(BUS) },
                _ => ctx.bail(at, "device field"),
            },
            Ty::Named(n) if n == "BMA400" => match fname.as_str() {
                "config" => E { s: base.s, ty: Self::named("Config") },
                _ => ctx.bail(at, "device field in pure code"),
            },
            t => {
                let (sn, ft) = self.field_ty(ctx, t, &fname, at);
                E { s: format!("{}_{} {}", sn, fname, paren(&base.s)), ty: ft }
            }
        }
    }

    fn tr_index(&mut self, ctx: &mut Ctx, i: &syn::ExprIndex, at: &syn::Expr) -> E {
        // x.to_le_bytes()[k]
        if let syn::Expr::MethodCall(m) = &*i.expr {
            if m.method == "to_le_bytes" {
                let k = match &*i.index {
                    syn::Expr::Lit(syn::ExprLit { lit: syn::Lit::Int(l), .. }) => lit_to_n(l) as u32,
                    _ => ctx.bail(at, "to_le_bytes() with a non-literal index"),
                };
                let x = self.tr_expr(ctx, &m.receiver);
                let w = x.ty.width().unwrap_or_else(|| ctx.bail(at, "to_le_bytes() on a value of unknown width"));
                if k * 8 >= w {
                    ctx.bail(at, "to_le_bytes() index out of range");
                }
                return if x.ty.is_signed() {
                    E { s: format!("ile_byte {} {} {}", w, k, paren(&x.s)), ty: Ty::U8 }
                } else {
                    E { s: format!("le_byte {} {}", k, paren(&x.s)), ty: Ty::U8 }
                };
            }
        }
        let a = self.tr_expr(ctx, &i.expr);
        let (elem, n) = match &a.ty {
            Ty::Array(e, n) => ((**e).clone(), *n),
            _ => ctx.bail(at, &format!("indexing a value that is not an array or slice ({:?})", a.ty)),
        };
        if let syn::Expr::Range(r) = &*i.index {
            let lo = match &r.start {
                Some(s) => self.tr_expr_hint(ctx, s, Some(&Ty::Usize)),
                None => E { s: "0".into(), ty: Ty::Usize },
            };
            let hi = match (&r.end, &r.limits) {
                (Some(s), syn::RangeLimits::HalfOpen(_)) => self.tr_expr_hint(ctx, s, Some(&Ty::Usize)),
                (None, _) => E { s: format!("len {}", paren(&a.s)), ty: Ty::Usize },
                _ => ctx.bail(at, "inclusive range"),
            };
            let x = ctx.fresh("r");
            ctx.pre.push(Pre::Res(x.clone(), format!("slice_range {} {} {}", paren(&a.s), paren(&lo.s), paren(&hi.s))));
            return E { s: x, ty: Ty::Array(Box::new(elem), None) };
        }
        let k = self.tr_expr_hint(ctx, &i.index, Some(&Ty::Usize));
        if let (Some(n), Ok(kk)) = (n, k.s.parse::<u64>()) {
            if kk < n {
                return E { s: format!("arr_get {} {}", paren(&a.s), kk), ty: elem };
            }
        }
        let x = ctx.fresh("r");
        ctx.pre.push(Pre::Res(x.clone(), format!("idx {} {}", paren(&a.s), paren(&k.s))));
        E { s: x, ty: elem }
    }

    fn tr_struct_lit(&mut self, ctx: &mut Ctx, s: &syn::ExprStruct, at: &syn::Expr) -> E {
        let mut name = s.path.segments.last().unwrap().ident.to_string();
        if name == "Self" {
            name = ctx.self_ty_name.clone().unwrap();
        }
        if s.rest.is_some() {
            ctx.bail(at, "struct update syntax");
        }
        if let Some(cfg) = self.db.builders.get(&name).cloned() {
            // a builder is represented by its `config` field
            for fv in &s.fields {
                if let syn::Member::Named(i) = &fv.member {
                    if i == "config" {
                        let e = self.tr_expr_hint(ctx, &fv.expr, Some(&cfg));
                        return E { s: e.s, ty: cfg };
                    }
                }
            }
            ctx.bail(at, "builder literal without config field");
        }
        let sd = self.db.structs.get(&name).unwrap_or_else(|| ctx.bail(at, &format!("literal of unknown struct {}", name))).clone();
        let mut vals: BTreeMap<String, String> = BTreeMap::new();
        for fv in &s.fields {
            let fname = match &fv.member {
                syn::Member::Named(i) => i.to_string(),
                _ => ctx.bail(at, "tuple struct literal"),
            };
            let fty = sd.fields.iter().find(|(n, _)| *n == fname).unwrap_or_else(|| ctx.bail(at, "unknown field in literal")).1.clone();
            let e = self.tr_expr_hint(ctx, &fv.expr, Some(&fty));
            vals.insert(fname, e.s);
        }
        let mut args = vec![];
        for (n, _) in &sd.fields {
            args.push(paren(vals.get(n).unwrap_or_else(|| ctx.bail(at, "missing field in literal"))));
        }
        E { s: format!("mk_{} {}", name, args.join(" ")), ty: Self::named(&name) }
    }

    pub fn tr_pat(&mut self, ctx: &mut Ctx, p: &syn::Pat, sty: &Ty) -> String {
        match p {
            syn::Pat::Wild(_) => "_".into(),
            syn::Pat::Reference(r) => self.tr_pat(ctx, &r.pat, sty),
            syn::Pat::Paren(r) => self.tr_pat(ctx, &r.pat, sty),
            syn::Pat::Lit(l) => match &l.lit {
                syn::Lit::Bool(b) => {
                    if b.value { "true".into() } else { "false".into() }
                }
                _ => ctx.bail(p, "literal pattern"),
            },
            syn::Pat::Ident(i) => {
                if i.subpat.is_some() {
                    ctx.bail(p, "@ pattern");
                }
                let n = i.ident.to_string();
                ctx.bind(&n, sty.clone());
                v(&n)
            }
            syn::Pat::Path(pp) => match self.enum_of_variant_path(ctx, &pp.path) {
                Some((en, vn)) => format!("{}_{}", en, vn),
                None => ctx.bail(p, "path pattern"),
            },
            syn::Pat::TupleStruct(ts) => {
                let (en, vn) = self.enum_of_variant_path(ctx, &ts.path).unwrap_or_else(|| {
                    if ts.path.is_ident("Some") {
                        ("#".into(), "Some".into())
                    } else {
                        ctx.bail(p, "tuple-struct pattern")
                    }
                });
                if en == "#" {
                    let inner = match sty {
                        Ty::Opt(t) => (**t).clone(),
                        _ => Ty::Unknown,
                    };
                    let s = self.tr_pat(ctx, &ts.elems[0], &inner);
                    return format!("Some {}", s);
                }
                let payload = self.db.enums.get(&en).unwrap().variants.iter().find(|(x, _)| *x == vn).unwrap().1.clone();
                let mut ss = vec![];
                for (k, e) in ts.elems.iter().enumerate() {
                    ss.push(self.tr_pat(ctx, e, payload.get(k).unwrap_or(&Ty::Unknown)));
                }
                format!("{}_{} {}", en, vn, ss.join(" "))
            }
            syn::Pat::Tuple(t) => {
                let tys: Vec<Ty> = match sty {
                    Ty::Tuple(ts) => ts.clone(),
                    _ => t.elems.iter().map(|_| Ty::Unknown).collect(),
                };
                let mut ss = vec![];
                for (k, e) in t.elems.iter().enumerate() {
                    ss.push(self.tr_pat(ctx, e, tys.get(k).unwrap_or(&Ty::Unknown)));
                }
                format!("({})", ss.join(", "))
            }
            syn::Pat::Or(o) => {
                let ss: Vec<String> = o.cases.iter().map(|c| self.tr_pat(ctx, c, sty)).collect();
                ss.join(" | ")
            }
            _ => ctx.bail(p, "pattern form"),
        }
    }
}

include!("tr_call.rs");
