// Calls and method calls (included into tr.rs)

impl<'a> Tr<'a> {
    fn reg_addr_of(&self, ctx: &Ctx, t: &Ty, at: &syn::Expr) -> String {
        match t {
            Ty::Named(n) if self.db.regs.contains_key(n) => {
                if self.db.regs[n].addr.is_none() {
                    ctx.bail(at, &format!("{} has no register address", n));
                }
                format!("{}_ADDR", n)
            }
            Ty::Named(n) if self.db.consts.contains_key(&format!("{}_ADDR", n)) => format!("{}_ADDR", n),
            _ => ctx.bail(at, &format!("cannot determine the register address of a value of type {:?}", t)),
        }
    }

    fn reg_byte_of(&mut self, ctx: &mut Ctx, e: &E, at: &syn::Expr) -> String {
        match &e.ty {
            Ty::Named(n) if self.db.regs.get(n).map(|r| r.is_bitflags).unwrap_or(false) => e.s.clone(),
            Ty::Named(n) => {
                let f = format!("{}_to_byte", n);
                let t = self.ensure(&f).unwrap_or_else(|| ctx.bail(at, "register value without to_byte"));
                if t.kind != Kind::Pure {
                    ctx.bail(at, "to_byte that may panic");
                }
                format!("{} {}", f, paren(&e.s))
            }
            _ => ctx.bail(at, "register value"),
        }
    }

    // call of a translated function; `args` are already translated (self first, if any)
    fn call_user(&mut self, ctx: &mut Ctx, coq_name: &str, args: Vec<String>, at: &syn::Expr) -> Option<E> {
        let idx = *self.fn_index.get(coq_name)?;
        let f = &self.db.fns[idx];
        if self.fn_is_skipped(f) {
            ctx.bail(at, &format!("call of {} (not translated)", coq_name));
        }
        let owner = f.owner.clone();
        let t = self.ensure(coq_name).unwrap();
        let mut rty = self.resolve_self(&f.ret, &owner);
        if let Ty::Res(inner) = &rty {
            rty = (**inner).clone();
        }
        // a builder method returning Self yields the builder's config
        if let (Ty::Named(n), Some(o)) = (&rty, &owner) {
            if n == o {
                if let Some(c) = self.db.builders.get(o) {
                    rty = c.clone();
                }
            }
        }
        let app = if args.is_empty() { coq_name.to_string() } else { format!("{} {}", coq_name, args.iter().map(|a| paren(a)).collect::<Vec<_>>().join(" ")) };
        Some(match t.kind {
            Kind::Pure => E { s: app, ty: rty },
            Kind::Res => {
                let x = ctx.fresh("r");
                ctx.pre.push(Pre::Res(x.clone(), app));
                E { s: x, ty: rty }
            }
            Kind::Prog => {
                let x = ctx.fresh("r");
                ctx.pre.push(Pre::Prog(x.clone(), app));
                ctx.effect_in_stmt = true;
                E { s: x, ty: rty }
            }
        })
    }

    fn tr_args(&mut self, ctx: &mut Ctx, coq_name: &str, args: &syn::punctuated::Punctuated<syn::Expr, syn::Token![,]>, at: &syn::Expr) -> Vec<String> {
        let idx = match self.fn_index.get(coq_name) {
            Some(i) => *i,
            None => ctx.bail(at, &format!("unknown function {}", coq_name)),
        };
        let f = &self.db.fns[idx];
        let ptys: Vec<Ty> = f.params.iter().map(|(_, t)| self.resolve_self(t, &f.owner)).collect();
        if ptys.len() != args.len() {
            ctx.bail(at, "argument count");
        }
        let mut out = vec![];
        for (a, pt) in args.iter().zip(ptys.iter()) {
            if matches!(pt, Ty::Generic(_)) {
                continue; // interface / timer parameters are implicit in the prog monad
            }
            let e = self.tr_expr_hint(ctx, a, Some(pt));
            out.push(e.s);
        }
        out
    }

    fn tr_method(&mut self, ctx: &mut Ctx, m: &syn::ExprMethodCall, at: &syn::Expr, tried: bool) -> E {
        let name = m.method.to_string();
        // x.to_le_bytes() handled in tr_index when indexed; here only the whole array of a u16
        let had_shadow = ctx.shadow_var.is_some();
        let recv = self.tr_expr(ctx, &m.receiver);
        ctx.recv_made_shadow = !had_shadow && ctx.shadow_var.is_some();
        match &recv.ty {
            Ty::Named(n) if n == TIMER && name == "delay_ms" => {
                let a = self.tr_expr_hint(ctx, &m.args[0], Some(&Ty::U8));
                ctx.pre.push(Pre::Prog("_".into(), format!("delay_ms {}", paren(&a.s))));
                E { s: "tt".into(), ty: Ty::Unit }
            }
            Ty::Named(n) if n == BUS || n == TIMER => {
                if !tried {
                    ctx.bail(at, "result of an interface call used other than with `?`");
                }
                match name.as_str() {
                    "write_register" => {
                        let a = self.tr_expr(ctx, &m.args[0]);
                        let addr = self.reg_addr_of(ctx, &a.ty, at);
                        let byte = self.reg_byte_of(ctx, &a, at);
                        ctx.pre.push(Pre::Prog("_".into(), format!("write_register {} {}", addr, paren(&byte))));
                        ctx.effect_in_stmt = true;
                        E { s: "tt".into(), ty: Ty::Unit }
                    }
                    "read_register" => {
                        let r = self.tr_expr(ctx, &m.args[0]);
                        let addr = self.reg_addr_of(ctx, &r.ty, at);
                        // the buffer: a local array / slice, or a temporary
                        let buf = &m.args[1];
                        let root = root_ident(buf);
                        match root.and_then(|r| ctx.lookup(&r).map(|t| (r, t))) {
                            Some((r, Ty::Array(_, _))) => {
                                ctx.pre.push(Pre::Prog(v(&r), format!("read_register {} (len {})", addr, v(&r))));
                            }
                            Some(_) => ctx.bail(at, "read_register into a non-array"),
                            None => {
                                let b = self.tr_expr(ctx, buf);
                                if !matches!(b.ty, Ty::Array(_, _)) {
                                    ctx.bail(at, "read_register buffer");
                                }
                                ctx.pre.push(Pre::Prog("_".into(), format!("read_register {} (len {})", addr, paren(&b.s))));
                            }
                        }
                        ctx.effect_in_stmt = true;
                        E { s: "tt".into(), ty: Ty::Unit }
                    }
                    _ => ctx.bail(at, "interface method"),
                }
            }
            Ty::Named(n) if n == ASELF => {
                // self.method() on the device inside a Prog method
                let f = format!("BMA400_{}", name);
                let args = self.tr_args(ctx, &f, &m.args, at);
                let r = self.call_user(ctx, &f, args, at).unwrap_or_else(|| ctx.bail(at, "unknown device method"));
                let t = self.done.get(&f).unwrap();
                if t.kind == Kind::Prog && !tried {
                    ctx.bail(at, "result of a device operation used other than with `?`");
                }
                r
            }
            Ty::Named(n) if n == BSELF => {
                // a helper method of the builder (non-Prog), applied to the builder's config
                let owner = ctx.self_ty_name.clone().unwrap();
                let f = format!("{}_{}", owner, name);
                let mut args = vec![v("self")];
                args.extend(self.tr_args(ctx, &f, &m.args, at));
                let r = self.call_user(ctx, &f, args, at).unwrap_or_else(|| ctx.bail(at, "unknown builder method"));
                if self.done.get(&f).unwrap().kind == Kind::Prog {
                    ctx.bail(at, "builder helper that accesses the bus");
                }
                r
            }
            _ => self.tr_method_on_value(ctx, m, recv, at, tried),
        }
    }

    fn tr_method_on_value(&mut self, ctx: &mut Ctx, m: &syn::ExprMethodCall, recv: E, at: &syn::Expr, tried: bool) -> E {
        let name = m.method.to_string();
        let made_shadow = ctx.recv_made_shadow;
        let rt = recv.ty.clone();
        // bitflags built-ins
        if self.is_reg(&rt) {
            let two = |this: &mut Self, ctx: &mut Ctx, f: &str, ty: Ty| -> E {
                let a = this.tr_expr(ctx, &m.args[0]);
                E { s: format!("{} {} {}", f, paren(&recv.s), paren(&a.s)), ty }
            };
            match name.as_str() {
                "union" => return two(self, ctx, "union", rt),
                "difference" => return two(self, ctx, "difference", rt),
                "intersection" => return two(self, ctx, "intersection", rt),
                "intersects" => return two(self, ctx, "intersects", Ty::Bool),
                "contains" => return two(self, ctx, "contains", Ty::Bool),
                "bits" | "to_byte" => return E { s: recv.s, ty: Ty::U8 },
                "clone" => return recv,
                _ => {}
            }
        }
        match name.as_str() {
            "clone" => return recv,
            "clamp" if rt.is_unsigned() || rt.is_signed() => {
                let lo = self.tr_expr_hint(ctx, &m.args[0], Some(&rt));
                let hi = self.tr_expr_hint(ctx, &m.args[1], Some(&rt));
                let f = if rt.is_signed() { "clampZ" } else { "clampN" };
                return E { s: format!("{} {} {} {}", f, paren(&recv.s), paren(&lo.s), paren(&hi.s)), ty: rt };
            }
            "to_le_bytes" if rt == Ty::U16 => {
                return E { s: format!("u16_to_le_bytes {}", paren(&recv.s)), ty: Ty::Array(Box::new(Ty::U8), Some(2)) };
            }
            "len" if matches!(rt, Ty::Array(_, _)) => return E { s: format!("len {}", paren(&recv.s)), ty: Ty::Usize },
            "into" => {
                if rt == Self::named("ConfigError") {
                    return E { s: format!("BMA400Error_ConfigBuildError {}", paren(&recv.s)), ty: Self::named("BMA400Error") };
                }
                ctx.bail(at, ".into() on a value other than ConfigError");
            }
            _ => {}
        }
        // user-defined method
        let tn = match &rt {
            Ty::Named(n) => {
                if self.db.builders.contains_key(n) { n.clone() } else { n.clone() }
            }
            _ => ctx.bail(at, &format!("method .{}() on {:?}", name, rt)),
        };
        let f = format!("{}_{}", tn, name);
        let idx = match self.fn_index.get(&f) {
            Some(i) => *i,
            None => ctx.bail(at, &format!("unknown method {}", f)),
        };
        let fd = &self.db.fns[idx];
        // &mut self method: only on a location of the shadow, and only when it returns unit
        if fd.self_kind == SelfKind::RefMut {
            // Prog methods of Config called on the shadow root: self.config.setup_self_test(..)
            let is_shadow_root = recv.ty == Self::named("Config") && self.is_shadow_expr(ctx, &m.receiver);
            let t = self.ensure(&f).unwrap();
            if t.kind == Kind::Prog {
                if !is_shadow_root {
                    ctx.bail(at, "device-state method on a value that is not the device state");
                }
                if !tried {
                    ctx.bail(at, "result of a device operation used other than with `?`");
                }
                let args = self.tr_args(ctx, &f, &m.args, at);
                return self.call_user(ctx, &f, args, at).unwrap();
            }
            if fd.ret != Ty::Unit {
                ctx.bail(at, "&mut self method returning a value");
            }
            let args = self.tr_args(ctx, &f, &m.args, at);
            let pl = self.tr_place(ctx, &m.receiver);
            match pl {
                Place::Shadow { path, ty: _ } => {
                    let get = self.get_path("d", &Self::named("Config"), &path, ctx, at);
                    let call = format!("{} {} {}", f, paren(&get), args.iter().map(|a| paren(a)).collect::<Vec<_>>().join(" "));
                    let newv = self.set_path(ctx, &Self::named("Config"), &path, &call, "d", at);
                    // drop the snapshot binder the receiver evaluation introduced, when nothing uses it
                    if made_shadow {
                        if let Some(dv) = &ctx.shadow_var {
                            if !args.iter().any(|a| a.contains(dv.as_str())) {
                                ctx.shadow_var = None;
                            }
                        }
                    }
                    ctx.pre.push(Pre::Prog("_".into(), format!("modify (fun d => {})", newv)));
                    ctx.effect_in_stmt = true;
                    return E { s: "tt".into(), ty: Ty::Unit };
                }
                Place::Local { root, path, ty: _ } => {
                    let rt0 = if root == "self" {
                        match &ctx.self_mode {
                            SelfMode::Value(t) | SelfMode::BuilderValue(t) | SelfMode::BuilderProg(t) => t.clone(),
                            _ => ctx.bail(at, "self"),
                        }
                    } else {
                        ctx.lookup(&root).unwrap()
                    };
                    let get = self.get_path(&v(&root), &rt0, &path, ctx, at);
                    let call = format!("{} {} {}", f, paren(&get), args.iter().map(|a| paren(a)).collect::<Vec<_>>().join(" "));
                    let newv = self.set_path(ctx, &rt0, &path, &call, &v(&root), at);
                    ctx.pre.push(Pre::Let(v(&root), newv));
                    return E { s: "tt".into(), ty: Ty::Unit };
                }
            }
        }
        let is_shadow_root = recv.ty == Self::named("Config") && self.is_shadow_expr(ctx, &m.receiver);
        let mut args = vec![];
        let t = self.ensure(&f).unwrap();
        if t.kind == Kind::Prog {
            if !is_shadow_root {
                ctx.bail(at, "device-state method on a value that is not the device state");
            }
            if !tried {
                ctx.bail(at, "result of a device operation used other than with `?`");
            }
        } else {
            args.push(recv.s.clone());
        }
        args.extend(self.tr_args(ctx, &f, &m.args, at));
        self.call_user(ctx, &f, args, at).unwrap()
    }

    fn is_shadow_expr(&self, ctx: &Ctx, e: &syn::Expr) -> bool {
        // syntactically `self.config` (device), `self.device.config` (builder) or `self` (Config)
        match e {
            syn::Expr::Paren(p) => self.is_shadow_expr(ctx, &p.expr),
            syn::Expr::Reference(r) => self.is_shadow_expr(ctx, &r.expr),
            syn::Expr::Path(p) => p.path.is_ident("self") && ctx.self_mode == SelfMode::AmbientConfig,
            syn::Expr::Field(f) => {
                let is_cfg = matches!(&f.member, syn::Member::Named(i) if i == "config");
                if !is_cfg {
                    return false;
                }
                match &*f.base {
                    syn::Expr::Path(p) if p.path.is_ident("self") => ctx.self_mode == SelfMode::Ambient,
                    syn::Expr::Field(g) => matches!(&g.member, syn::Member::Named(i) if i == "device") && matches!(&*g.base, syn::Expr::Path(p) if p.path.is_ident("self")) && matches!(ctx.self_mode, SelfMode::BuilderProg(_)),
                    _ => false,
                }
            }
            _ => false,
        }
    }

    fn get_path(&self, base: &str, bty: &Ty, path: &[String], ctx: &Ctx, at: &syn::Expr) -> String {
        let mut s = base.to_string();
        let mut t = bty.clone();
        for f in path {
            let (sn, ft) = self.field_ty(ctx, &t, f, at);
            s = format!("{}_{} {}", sn, f, paren(&s));
            t = ft;
        }
        s
    }

    fn tr_call(&mut self, ctx: &mut Ctx, c: &syn::ExprCall, at: &syn::Expr, hint: Option<&Ty>) -> E {
        let p = match &*c.func {
            syn::Expr::Path(p) => &p.path,
            _ => ctx.bail(at, "call of a non-path"),
        };
        let segs = &p.segments;
        if segs.len() == 1 {
            let n = segs[0].ident.to_string();
            match n.as_str() {
                "Some" => {
                    let inner_hint = match hint {
                        Some(Ty::Opt(t)) => Some((**t).clone()),
                        _ => None,
                    };
                    let a = self.tr_expr_hint(ctx, &c.args[0], inner_hint.as_ref());
                    return E { s: format!("Some {}", paren(&a.s)), ty: Ty::Opt(Box::new(a.ty)) };
                }
                "Ok" | "Err" => ctx.bail(at, "Ok/Err outside the tail of a Result function"),
                _ => {}
            }
            if self.fn_index.contains_key(&n) {
                let args = self.tr_args(ctx, &n, &c.args, at);
                return self.call_user(ctx, &n, args, at).unwrap();
            }
            ctx.bail(at, &format!("call of unknown function {}", n));
        }
        // enum variant constructor
        if let Some((en, vn)) = self.enum_of_variant_path(ctx, p) {
            let payload = self.db.enums[&en].variants.iter().find(|(x, _)| *x == vn).unwrap().1.clone();
            let mut args = vec![];
            for (a, t) in c.args.iter().zip(payload.iter()) {
                let e = self.tr_expr_hint(ctx, a, Some(t));
                args.push(paren(&e.s));
            }
            return E { s: format!("{}_{} {}", en, vn, args.join(" ")), ty: Self::named(&en) };
        }
        let n = segs.len();
        let mut tn = segs[n - 2].ident.to_string();
        let item = segs[n - 1].ident.to_string();
        if tn == "Self" {
            tn = ctx.self_ty_name.clone().unwrap_or_else(|| ctx.bail(at, "Self outside an impl"));
        }
        // primitives
        match (tn.as_str(), item.as_str()) {
            ("u32", "from_le_bytes") | ("u16", "from_le_bytes") | ("i16", "from_le_bytes") | ("i8", "from_le_bytes") => {
                let a = self.tr_expr(ctx, &c.args[0]);
                let need = match tn.as_str() {
                    "u32" => 4,
                    "u16" | "i16" => 2,
                    _ => 1,
                };
                match &a.ty {
                    Ty::Array(_, Some(k)) if *k == need => {}
                    _ => ctx.bail(at, "from_le_bytes argument is not an array of the right size"),
                }
                let ty = match tn.as_str() {
                    "u32" => Ty::U32,
                    "u16" => Ty::U16,
                    "i16" => Ty::I16,
                    _ => Ty::I8,
                };
                return E { s: format!("{}_from_le_bytes {}", tn, paren(&a.s)), ty };
            }
            _ => {}
        }
        if let Some(r) = self.db.regs.get(&tn) {
            if r.is_bitflags {
                match item.as_str() {
                    "from_bits_truncate" => {
                        let a = self.tr_expr_hint(ctx, &c.args[0], Some(&Ty::U8));
                        return E { s: format!("from_bits_truncate {}_ALL {}", tn, paren(&a.s)), ty: Self::named(&tn) };
                    }
                    "default" if r.default.is_some() => return E { s: format!("{}_DEFAULT", tn), ty: Self::named(&tn) },
                    "empty" => return E { s: "0".into(), ty: Self::named(&tn) },
                    "all" => return E { s: format!("{}_ALL", tn), ty: Self::named(&tn) },
                    _ => {}
                }
            }
        }
        if item == "default" {
            if let Some(sd) = self.db.structs.get(&tn) {
                if sd.derives_default {
                    return E { s: format!("{}_default", tn), ty: Self::named(&tn) };
                }
            }
        }
        let f = format!("{}_{}", tn, item);
        if self.fn_index.contains_key(&f) {
            let args = self.tr_args(ctx, &f, &c.args, at);
            return self.call_user(ctx, &f, args, at).unwrap();
        }
        ctx.bail(at, &format!("call of {}::{}", tn, item))
    }
}
