// Translation of function bodies to a small monad-agnostic IR (`Code`) and then to Gallina text.
use crate::db::*;
use crate::unsupported;
use std::collections::{BTreeMap, BTreeSet, HashMap};
use syn::spanned::Spanned;

#[derive(Clone, Copy, Debug, PartialEq, Eq, PartialOrd, Ord)]
pub enum Kind {
    Pure,
    Res,
    Prog,
}

#[derive(Clone, Debug)]
pub enum Code {
    Let(String, String, Box<Code>),          // let pat := pure in rest
    BindRes(String, String, Box<Code>),      // pat <-? res-expr ;; rest
    BindProg(String, String, Box<Code>),     // pat <- prog-expr ;; rest
    BindSub(String, Box<Code>, Box<Code>),   // pat <- (sub computation) ;; rest
    If(String, Box<Code>, Box<Code>),
    Match(String, Vec<(String, Code)>),
    Loop(String, String, Box<Code>, String, Box<Code>), // pat, cond, body (returns pat tuple), init tuple, rest
    Ret(String),
    Fail(String),
    PanicC,
}

pub fn kind_of(c: &Code) -> Kind {
    match c {
        Code::Let(_, _, r) => kind_of(r),
        Code::BindRes(_, _, r) => kind_of(r).max(Kind::Res),
        Code::BindProg(_, _, _) => Kind::Prog,
        Code::BindSub(_, s, r) => kind_of(s).max(kind_of(r)),
        Code::If(_, a, b) => kind_of(a).max(kind_of(b)),
        Code::Match(_, arms) => arms.iter().map(|(_, c)| kind_of(c)).max().unwrap_or(Kind::Pure),
        Code::Loop(_, _, _, _, r) => kind_of(r).max(Kind::Res),
        Code::Ret(_) => Kind::Pure,
        Code::Fail(_) => Kind::Prog,
        Code::PanicC => Kind::Res,
    }
}

fn ind(n: usize) -> String {
    "  ".repeat(n)
}

pub fn render(c: &Code, k: Kind, lvl: usize) -> String {
    let i = ind(lvl);
    match c {
        Code::Let(p, v, r) => format!("{}let {} := {} in\n{}", i, p, v, render(r, k, lvl)),
        Code::BindRes(p, v, r) => match k {
            Kind::Res => format!("{}{} <-? {} ;;\n{}", i, p, v, render(r, k, lvl)),
            Kind::Prog => format!("{}{} <- lift_res ({}) ;;\n{}", i, p, v, render(r, k, lvl)),
            Kind::Pure => panic!("BindRes in pure code"),
        },
        Code::BindProg(p, v, r) => format!("{}{} <- {} ;;\n{}", i, p, v, render(r, k, lvl)),
        Code::BindSub(p, s, r) => {
            let ks = kind_of(s);
            let body = render(s, ks, lvl + 2);
            match (ks, k) {
                (Kind::Pure, _) => format!("{}let {} :=\n{}\n{}in\n{}", i, p, body, ind(lvl + 1), render(r, k, lvl)),
                (Kind::Res, Kind::Res) => format!("{}{} <-? (\n{}\n{}) ;;\n{}", i, p, body, ind(lvl + 1), render(r, k, lvl)),
                (Kind::Res, Kind::Prog) => format!("{}{} <- lift_res (\n{}\n{}) ;;\n{}", i, p, body, ind(lvl + 1), render(r, k, lvl)),
                (Kind::Prog, Kind::Prog) => format!("{}{} <- (\n{}\n{}) ;;\n{}", i, p, body, ind(lvl + 1), render(r, k, lvl)),
                _ => panic!("sub-computation kind exceeds function kind"),
            }
        }
        Code::If(cnd, a, b) => format!("{}if {} then\n{}\n{}else\n{}", i, cnd, render(a, k, lvl + 1), i, render(b, k, lvl + 1)),
        Code::Match(s, arms) => {
            let mut out = format!("{}match {} with\n", i, s);
            for (p, c) in arms {
                out += &format!("{}| {} =>\n{}\n", i, p, render(c, k, lvl + 2));
            }
            out += &format!("{}end", i);
            out
        }
        Code::Loop(p, cond, body, init, r) => {
            let b = render(body, Kind::Res, lvl + 3);
            let head = format!("while_res LOOP_FUEL (fun st => match st with {} => {} end)\n{}(fun st => match st with {} =>\n{}\n{}end) {}", p, cond, ind(lvl + 2), p, b, ind(lvl + 2), init);
            let bp = if p.starts_with('(') { format!("'{}", p) } else { p.clone() };
            match k {
                Kind::Res => format!("{}{} <-? {} ;;\n{}", i, bp, head, render(r, k, lvl)),
                Kind::Prog => format!("{}{} <- lift_res ({}) ;;\n{}", i, bp, head, render(r, k, lvl)),
                Kind::Pure => panic!("loop in pure code"),
            }
        }
        Code::Ret(e) => match k {
            Kind::Pure => format!("{}{}", i, e),
            Kind::Res => format!("{}Ok ({})", i, e),
            Kind::Prog => format!("{}Ret ({})", i, e),
        },
        Code::Fail(e) => format!("{}Fail ({})", i, e),
        Code::PanicC => match k {
            Kind::Res => format!("{}Panic", i),
            Kind::Prog => format!("{}PanicP", i),
            Kind::Pure => panic!("panic in pure code"),
        },
    }
}

// ------------------------------------------------------------------------------------------

#[derive(Clone, Debug)]
pub struct Translated {
    pub coq_name: String,
    pub kind: Kind,
    pub params: Vec<(String, String)>, // (coq var, coq type)
    pub ret_ty: String,
    pub text: String, // full Definition
    pub file: String,
    pub is_pub: bool,
    pub owner: Option<String>,
    pub name: String,
    pub rust_params: Vec<(String, Ty)>,
}

pub struct Tr<'a> {
    pub db: &'a Db,
    pub done: BTreeMap<String, Translated>,
    pub order: Vec<String>,
    pub in_progress: BTreeSet<String>,
    pub fn_index: HashMap<String, usize>, // coq name -> index in db.fns
}

#[derive(Clone, Debug)]
enum Pre {
    Res(String, String),
    Prog(String, String),
    Let(String, String),
}

struct E {
    s: String,
    ty: Ty,
}

// What `self` denotes inside the function being translated
#[derive(Clone, Debug, PartialEq)]
enum SelfMode {
    None,
    Value(Ty),        // ordinary value `v_self` of this type
    Ambient,          // BMA400 in a Prog method: state of the prog monad (self.config = shadow)
    AmbientConfig,    // Config in a Prog method: self = shadow
    BuilderValue(Ty), // builder in a non-Prog method: self.config = v_self
    BuilderProg(Ty),  // builder in write(): self.config = v_self, self.device = ambient
}

struct Ctx<'b> {
    f: &'b FnDef,
    self_mode: SelfMode,
    self_ty_name: Option<String>,
    locals: Vec<HashMap<String, Ty>>, // scopes
    pre: Vec<Pre>,
    fresh: usize,
    shadow_var: Option<String>, // name of the shadow snapshot bound for the current statement
    ret_self: bool,              // &mut self on a value: returns (v_self, result)
    ret_unit: bool,
    generics_dropped: Vec<String>, // parameter names dropped (interface / timer)
    is_result_fn: bool,
    value_tys: Vec<Ty>,
    sub_depth: usize,
    recv_made_shadow: bool,
    effect_in_stmt: bool,
}

impl<'b> Ctx<'b> {
    fn lookup(&self, n: &str) -> Option<Ty> {
        for s in self.locals.iter().rev() {
            if let Some(t) = s.get(n) {
                return Some(t.clone());
            }
        }
        None
    }
    fn bind(&mut self, n: &str, t: Ty) {
        self.locals.last_mut().unwrap().insert(n.to_string(), t);
    }
    fn fresh(&mut self, base: &str) -> String {
        self.fresh += 1;
        format!("{}{}", base, self.fresh)
    }
    fn bail<T: Spanned>(&self, t: &T, what: &str) -> ! {
        unsupported(&self.f.file, line_of(t), what)
    }
}

fn v(n: &str) -> String {
    format!("v_{}", n)
}

fn paren(s: &str) -> String {
    if s.contains(' ') && !(s.starts_with('(') && balanced_outer(s)) {
        format!("({})", s)
    } else {
        s.to_string()
    }
}
fn balanced_outer(s: &str) -> bool {
    // true when the first '(' closes at the very end
    let mut depth = 0i32;
    for (i, ch) in s.char_indices() {
        if ch == '(' {
            depth += 1;
        } else if ch == ')' {
            depth -= 1;
            if depth == 0 && i != s.len() - 1 {
                return false;
            }
        }
    }
    depth == 0
}

fn lit_to_n(l: &syn::LitInt) -> u128 {
    l.base10_parse::<u128>().unwrap()
}

impl<'a> Tr<'a> {
    pub fn new(db: &'a Db) -> Self {
        let mut fn_index = HashMap::new();
        for (i, f) in db.fns.iter().enumerate() {
            let n = f.coq_name();
            if fn_index.contains_key(&n) {
                unsupported(&f.file, f.line, &format!("duplicate function name {}", n));
            }
            fn_index.insert(n, i);
        }
        Tr { db, done: BTreeMap::new(), order: vec![], in_progress: BTreeSet::new(), fn_index }
    }

    pub fn coq_ty(&self, t: &Ty) -> String {
        match t {
            Ty::U8 | Ty::U16 | Ty::U32 | Ty::Usize | Ty::IntLit => "N".into(),
            Ty::I8 | Ty::I16 | Ty::I32 => "Z".into(),
            Ty::Bool => "bool".into(),
            Ty::Unit => "unit".into(),
            Ty::Named(n) => {
                if self.db.regs.contains_key(n) {
                    "N".into()
                } else if let Some(c) = self.db.builders.get(n) {
                    self.coq_ty(c)
                } else if n == "BMA400" {
                    "Config".into()
                } else {
                    n.clone()
                }
            }
            Ty::Tuple(ts) => format!("({})", ts.iter().map(|t| self.coq_ty(t)).collect::<Vec<_>>().join(" * ")),
            Ty::Array(e, _) => format!("(list {})", self.coq_ty(e)),
            Ty::Opt(e) => format!("(option {})", self.coq_ty(e)),
            Ty::Res(e) => self.coq_ty(e),
            Ty::Generic(_) => "unit".into(),
            Ty::Unknown => "_".into(),
        }
    }

    fn is_reg(&self, t: &Ty) -> bool {
        matches!(t, Ty::Named(n) if self.db.regs.get(n).map(|r| r.is_bitflags).unwrap_or(false))
    }

    fn resolve_self(&self, t: &Ty, selfname: &Option<String>) -> Ty {
        match t {
            Ty::Named(n) if n == "Self" => Ty::Named(selfname.clone().unwrap_or_else(|| "Self".into())),
            Ty::Named(n) if n == "Self::Item" => Ty::Named("Frame".into()),
            Ty::Opt(e) => Ty::Opt(Box::new(self.resolve_self(e, selfname))),
            Ty::Res(e) => Ty::Res(Box::new(self.resolve_self(e, selfname))),
            Ty::Tuple(ts) => Ty::Tuple(ts.iter().map(|t| self.resolve_self(t, selfname)).collect()),
            _ => t.clone(),
        }
    }

    // ------------------------------------------------------------------ functions

    pub fn ensure(&mut self, coq_name: &str) -> Option<Translated> {
        if let Some(t) = self.done.get(coq_name) {
            return Some(t.clone());
        }
        let idx = *self.fn_index.get(coq_name)?;
        let f = &self.db.fns[idx];
        if self.in_progress.contains(coq_name) {
            unsupported(&f.file, f.line, &format!("recursive function {}", coq_name));
        }
        self.in_progress.insert(coq_name.to_string());
        let t = self.translate_fn(f);
        self.in_progress.remove(coq_name);
        self.done.insert(coq_name.to_string(), t.clone());
        self.order.push(coq_name.to_string());
        Some(t)
    }

    fn fn_is_skipped(&self, f: &FnDef) -> bool {
        f.float || f.name == "destroy"
    }

    pub fn translate_all(&mut self) {
        let names: Vec<String> = self.db.fns.iter().filter(|f| !self.fn_is_skipped(f)).map(|f| f.coq_name()).collect();
        for n in names {
            self.ensure(&n);
        }
    }

    fn mentions_bus(&self, f: &FnDef) -> bool {
        // syntactic pre-classification: does the body talk to the interface / timer or assign the device state?
        let s = {
            let mut ts = proc_macro2::TokenStream::new();
            quote::ToTokens::to_tokens(&f.body, &mut ts);
            ts.to_string()
        };
        s.contains("write_register") || s.contains("read_register") || s.contains("delay_ms") || s.contains("? ;") && s.contains("self . get_")
    }

    fn translate_fn(&mut self, f: &'a FnDef) -> Translated {
        let owner = f.owner.clone();
        let is_builder = owner.as_ref().map(|o| self.db.builders.contains_key(o)).unwrap_or(false);
        let prog_like = self.mentions_bus(f) || self.calls_prog(f);
        let self_ty = owner.as_ref().map(|o| Ty::Named(o.clone()));
        let self_mode = match (&f.self_kind, &owner) {
            (SelfKind::None, _) => SelfMode::None,
            (_, Some(o)) if is_builder => {
                let cfg = self.db.builders.get(o).unwrap().clone();
                if prog_like { SelfMode::BuilderProg(cfg) } else { SelfMode::BuilderValue(cfg) }
            }
            (_, Some(o)) if o == "BMA400" => {
                if prog_like { SelfMode::Ambient } else { SelfMode::Value(Ty::Named("BMA400".into())) }
            }
            (_, Some(o)) if o == "Config" && prog_like => SelfMode::AmbientConfig,
            (_, Some(_)) => SelfMode::Value(self_ty.clone().unwrap()),
            _ => SelfMode::None,
        };
        let mut ctx = Ctx {
            f,
            self_mode: self_mode.clone(),
            self_ty_name: owner.clone(),
            locals: vec![HashMap::new()],
            pre: vec![],
            fresh: 0,
            shadow_var: None,
            ret_self: false,
            ret_unit: false,
            generics_dropped: vec![],
            is_result_fn: matches!(f.ret, Ty::Res(_)),
            value_tys: vec![],
            sub_depth: 0,
            recv_made_shadow: false,
            effect_in_stmt: false,
        };
        let mut params: Vec<(String, String)> = vec![];
        match &self_mode {
            SelfMode::Value(t) => {
                params.push((v("self"), self.coq_ty(t)));
                ctx.bind("self", t.clone());
            }
            SelfMode::BuilderValue(t) | SelfMode::BuilderProg(t) => {
                params.push((v("self"), self.coq_ty(t)));
                ctx.bind("self", t.clone());
            }
            _ => {}
        }
        for (n, t) in &f.params {
            let t = self.resolve_self(t, &owner);
            if matches!(t, Ty::Generic(_)) {
                ctx.generics_dropped.push(n.clone());
                continue;
            }
            params.push((v(n), self.coq_ty(&t)));
            ctx.bind(n, t);
        }
        let ret = self.resolve_self(&f.ret, &owner);
        let ret_inner = match &ret {
            Ty::Res(t) => (**t).clone(),
            t => t.clone(),
        };
        // &mut self on an ordinary value: the new self is returned
        if f.self_kind == SelfKind::RefMut {
            if let SelfMode::Value(_) = self_mode {
                ctx.ret_self = true;
                ctx.ret_unit = ret_inner == Ty::Unit;
            }
        }
        let code = self.tr_fn_body(&mut ctx, &f.body);
        let mut kind = kind_of(&code);
        if prog_like {
            kind = Kind::Prog;
        }
        let base_ret = if ctx.ret_self {
            let st = self.coq_ty(&self_ty.clone().unwrap());
            if ctx.ret_unit { st } else { format!("({} * {})", st, self.coq_ty(&ret_inner)) }
        } else if let SelfMode::BuilderValue(t) = &self_mode {
            if matches!(&ret_inner, Ty::Named(n) if Some(n) == owner.as_ref()) { self.coq_ty(t) } else { self.coq_ty(&ret_inner) }
        } else {
            self.coq_ty(&ret_inner)
        };
        let ret_ty = match kind {
            Kind::Pure => base_ret.clone(),
            Kind::Res => format!("res {}", paren(&base_ret)),
            Kind::Prog => format!("prog {}", paren(&base_ret)),
        };
        let coq_name = f.coq_name();
        let ps = params.iter().map(|(n, t)| format!(" ({} : {})", n, t)).collect::<String>();
        let text = format!(
            "(* {}:{} *)\nDefinition {}{} : {} :=\n{}.\n",
            f.file,
            f.line,
            coq_name,
            ps,
            ret_ty,
            render(&code, kind, 1)
        );
        Translated { coq_name, kind, params, ret_ty: base_ret, text, file: f.file.clone(), is_pub: f.is_pub, owner: f.owner.clone(), name: f.name.clone(), rust_params: f.params.clone() }
    }

    fn calls_prog(&mut self, f: &FnDef) -> bool {
        // does the body call a function already known (or found) to be Prog?  Looks for `?`-calls on methods
        // of BMA400 / Config that mention the bus.
        let s = {
            let mut ts = proc_macro2::TokenStream::new();
            quote::ToTokens::to_tokens(&f.body, &mut ts);
            ts.to_string()
        };
        for g in &self.db.fns {
            if g.coq_name() == f.coq_name() {
                continue;
            }
            if self.mentions_bus(g) && (s.contains(&format!(". {} (", g.name)) || s.contains(&format!(":: {} (", g.name))) {
                // only same-family calls (self.method / self.config.method)
                if matches!(g.owner.as_deref(), Some("BMA400") | Some("Config")) && matches!(f.owner.as_deref(), Some("BMA400") | Some("Config")) {
                    return true;
                }
            }
        }
        false
    }

    // ------------------------------------------------------------------ blocks and statements

    fn tr_fn_body(&mut self, ctx: &mut Ctx, b: &syn::Block) -> Code {
        self.tr_stmts(ctx, &b.stmts, &Tail::FnReturn)
    }

    fn wrap_pre(&self, pre: Vec<Pre>, inner: Code) -> Code {
        let mut c = inner;
        for p in pre.into_iter().rev() {
            c = match p {
                Pre::Res(x, e) => Code::BindRes(x, e, Box::new(c)),
                Pre::Prog(x, e) => Code::BindProg(x, e, Box::new(c)),
                Pre::Let(x, e) => Code::Let(x, e, Box::new(c)),
            };
        }
        c
    }

    fn take_pre(&self, ctx: &mut Ctx) -> Vec<Pre> {
        let mut pre = std::mem::take(&mut ctx.pre);
        if ctx.sub_depth == 0 {
            // the snapshot of the device state read by this statement is taken at its start
            if let Some(d) = ctx.shadow_var.take() {
                pre.insert(0, Pre::Prog(d, "get_shadow".into()));
            }
            ctx.effect_in_stmt = false;
        }
        pre
    }

    fn ret_value(&self, ctx: &Ctx, e: &str) -> String {
        if ctx.ret_self {
            if ctx.ret_unit { v("self") } else { format!("({}, {})", v("self"), e) }
        } else {
            e.to_string()
        }
    }

    // translate the value of a `return e` / tail expression of the function
    fn tr_return_expr(&mut self, ctx: &mut Ctx, e: Option<&syn::Expr>) -> Code {
        match e {
            None => Code::Ret(self.ret_value(ctx, "tt")),
            Some(e) => self.tr_tail_expr(ctx, e, &Tail::FnReturn),
        }
    }

    fn tr_tail_expr(&mut self, ctx: &mut Ctx, e: &syn::Expr, tail: &Tail) -> Code {
        match e {
            syn::Expr::Paren(p) => self.tr_tail_expr(ctx, &p.expr, tail),
            syn::Expr::Block(b) => {
                ctx.locals.push(HashMap::new());
                let c = self.tr_stmts(ctx, &b.block.stmts, tail);
                ctx.locals.pop();
                c
            }
            syn::Expr::Return(r) => self.tr_return_expr(ctx, r.expr.as_deref()),
            syn::Expr::If(i) if !matches!(&*i.cond, syn::Expr::Let(_)) => {
                let c = self.tr_expr(ctx, &i.cond);
                let pre = self.take_pre(ctx);
                ctx.locals.push(HashMap::new());
                let a = self.tr_stmts(ctx, &i.then_branch.stmts, tail);
                ctx.locals.pop();
                let b = match &i.else_branch {
                    Some((_, eb)) => self.tr_tail_expr(ctx, eb, tail),
                    None => self.finish_tail(ctx, None, tail),
                };
                self.wrap_pre(pre, Code::If(c.s, Box::new(a), Box::new(b)))
            }
            syn::Expr::If(i) => {
                // if let PAT = scrut { a } else { b }
                let (pat, scrut) = match &*i.cond {
                    syn::Expr::Let(l) => (&l.pat, &l.expr),
                    _ => unreachable!(),
                };
                let s = self.tr_expr(ctx, scrut);
                let pre = self.take_pre(ctx);
                ctx.locals.push(HashMap::new());
                let p = self.tr_pat(ctx, pat, &s.ty);
                let a = self.tr_stmts(ctx, &i.then_branch.stmts, tail);
                ctx.locals.pop();
                let b = match &i.else_branch {
                    Some((_, eb)) => self.tr_tail_expr(ctx, eb, tail),
                    None => self.finish_tail(ctx, None, tail),
                };
                self.wrap_pre(pre, Code::Match(s.s, vec![(p, a), ("_".into(), b)]))
            }
            syn::Expr::Match(m) => {
                let s = self.tr_expr(ctx, &m.expr);
                let pre = self.take_pre(ctx);
                let c = self.tr_match_code(ctx, m, &s, tail);
                self.wrap_pre(pre, c)
            }
            syn::Expr::Macro(m) if m.mac.path.is_ident("unreachable") => Code::PanicC,
            _ => {
                // a value
                self.finish_tail(ctx, Some(e), tail)
            }
        }
    }

    fn tr_match_code(&mut self, ctx: &mut Ctx, m: &syn::ExprMatch, s: &E, tail: &Tail) -> Code {
        // integer scrutinee with literal patterns -> if chain
        if s.ty.is_unsigned() || s.ty == Ty::IntLit {
            let sv = ctx.fresh("m");
            let mut arms: Vec<(Option<String>, Code)> = vec![];
            for arm in &m.arms {
                let lit = match &arm.pat {
                    syn::Pat::Lit(l) => match &l.lit {
                        syn::Lit::Int(i) => Some(format!("{}", lit_to_n(i))),
                        _ => ctx.bail(&arm.pat, "literal pattern"),
                    },
                    syn::Pat::Wild(_) => None,
                    _ => ctx.bail(&arm.pat, "pattern on integer scrutinee"),
                };
                ctx.locals.push(HashMap::new());
                let c = self.tr_tail_expr(ctx, &arm.body, tail);
                ctx.locals.pop();
                arms.push((lit, c));
            }
            let (last_lit, last) = arms.pop().unwrap();
            if last_lit.is_some() {
                ctx.bail(m, "integer match without final wildcard arm");
            }
            let mut c = last;
            for (l, a) in arms.into_iter().rev() {
                c = Code::If(format!("N.eqb {} {}", sv, l.unwrap()), Box::new(a), Box::new(c));
            }
            return Code::Let(sv, s.s.clone(), Box::new(c));
        }
        let mut arms = vec![];
        for arm in &m.arms {
            if arm.guard.is_some() {
                ctx.bail(arm, "match guard");
            }
            ctx.locals.push(HashMap::new());
            let p = self.tr_pat(ctx, &arm.pat, &s.ty);
            let c = self.tr_tail_expr(ctx, &arm.body, tail);
            ctx.locals.pop();
            arms.push((p, c));
        }
        Code::Match(s.s.clone(), arms)
    }

    // end of a block: produce the value demanded by `tail`
    fn finish_tail(&mut self, ctx: &mut Ctx, e: Option<&syn::Expr>, tail: &Tail) -> Code {
        match tail {
            Tail::FnReturn => {
                match e {
                    None => Code::Ret(self.ret_value(ctx, "tt")),
                    Some(e) => {
                        // Ok(..) / Err(..) in Result functions
                        if ctx.is_result_fn {
                            if let syn::Expr::Call(c) = e {
                                if let syn::Expr::Path(p) = &*c.func {
                                    if p.path.is_ident("Ok") {
                                        let a = self.tr_expr(ctx, &c.args[0]);
                                        let pre = self.take_pre(ctx);
                                        let rv = self.ret_value(ctx, &a.s);
                                        return self.wrap_pre(pre, Code::Ret(rv));
                                    }
                                    if p.path.is_ident("Err") {
                                        let a = self.tr_expr(ctx, &c.args[0]);
                                        let pre = self.take_pre(ctx);
                                        return self.wrap_pre(pre, Code::Fail(a.s));
                                    }
                                }
                            }
                            // a Result-returning call in tail position, `f(..)`, is `Ok(f(..)?)` (same error type, or it would not compile)
                            if matches!(e, syn::Expr::MethodCall(_) | syn::Expr::Call(_)) {
                                let try_e = syn::Expr::Try(syn::ExprTry { attrs: vec![], expr: Box::new(e.clone()), question_token: Default::default() });
                                let ok_path = syn::Expr::Path(syn::ExprPath {
                                    attrs: vec![], qself: None,
                                    path: syn::Path::from(syn::Ident::new("Ok", e.span())),
                                });
                                let mut args = syn::punctuated::Punctuated::new();
                                args.push(try_e);
                                let call = syn::Expr::Call(syn::ExprCall { attrs: vec![], func: Box::new(ok_path), paren_token: Default::default(), args });
                                return self.finish_tail(ctx, Some(&call), tail);
                            }
                            ctx.bail(e, "tail of a Result function that is neither Ok(..) nor Err(..)");
                        }
                        let a = self.tr_expr(ctx, e);
                        let pre = self.take_pre(ctx);
                        let rv = self.ret_value(ctx, &a.s);
                        self.wrap_pre(pre, Code::Ret(rv))
                    }
                }
            }
            Tail::Vars(vars) => {
                if let Some(e) = e {
                    // a trailing expression statement without semicolon in a statement-position block
                    let extra = self.tr_stmt_expr(ctx, e);
                    let rest = Code::Ret(tuple_of(vars));
                    return extra.into_code(self, rest);
                }
                Code::Ret(tuple_of(vars))
            }
            Tail::Value => match e {
                None => Code::Ret("tt".into()),
                Some(e) => {
                    let a = self.tr_expr(ctx, e);
                    ctx.value_tys.push(a.ty.clone());
                    let pre = self.take_pre(ctx);
                    self.wrap_pre(pre, Code::Ret(a.s))
                }
            },
        }
    }

    fn tr_stmts(&mut self, ctx: &mut Ctx, stmts: &[syn::Stmt], tail: &Tail) -> Code {
        if stmts.is_empty() {
            return self.finish_tail(ctx, None, tail);
        }
        let (first, rest) = stmts.split_first().unwrap();
        match first {
            syn::Stmt::Local(l) => {
                let (pat_s, names) = self.local_pat(ctx, &l.pat);
                match &l.init {
                    None => {
                        // declared, assigned later
                        for (n, t) in names {
                            ctx.bind(&n, t);
                        }
                        self.tr_stmts(ctx, rest, tail)
                    }
                    Some(init) => {
                        if init.diverge.is_some() {
                            ctx.bail(l, "let-else");
                        }
                        let e = self.tr_expr_hint(ctx, &init.expr, names.first().map(|x| &x.1));
                        let pre = self.take_pre(ctx);
                        // bind names with inferred type
                        if names.len() == 1 && !pat_s.starts_with("'(") {
                            let t = if names[0].1 != Ty::Unknown { names[0].1.clone() } else { e.ty.clone() };
                            ctx.bind(&names[0].0, t);
                        } else {
                            let tys: Vec<Ty> = match &e.ty {
                                Ty::Tuple(ts) if ts.len() == names.len() => ts.clone(),
                                _ => names.iter().map(|_| Ty::Unknown).collect(),
                            };
                            for ((n, _), t) in names.iter().zip(tys) {
                                ctx.bind(n, t);
                            }
                        }
                        let r = self.tr_stmts(ctx, rest, tail);
                        self.wrap_pre(pre, Code::Let(pat_s, e.s, Box::new(r)))
                    }
                }
            }
            syn::Stmt::Item(_) => ctx.bail(first, "item inside function body"),
            syn::Stmt::Macro(m) => {
                if m.mac.path.is_ident("unreachable") {
                    Code::PanicC
                } else {
                    ctx.bail(m, "macro statement")
                }
            }
            syn::Stmt::Expr(e, semi) => {
                if rest.is_empty() && semi.is_none() {
                    return self.tr_tail_expr(ctx, e, tail);
                }
                // `return ...;` as last statement
                if let syn::Expr::Return(r) = e {
                    return self.tr_return_expr(ctx, r.expr.as_deref());
                }
                // if with early return
                if let syn::Expr::If(i) = e {
                    if block_returns(&i.then_branch) && !matches!(&*i.cond, syn::Expr::Let(_)) {
                        let c = self.tr_expr(ctx, &i.cond);
                        let pre = self.take_pre(ctx);
                        ctx.locals.push(HashMap::new());
                        let a = self.tr_stmts(ctx, &i.then_branch.stmts, &Tail::FnReturn);
                        ctx.locals.pop();
                        let b = match &i.else_branch {
                            None => self.tr_stmts(ctx, rest, tail),
                            Some((_, eb)) => {
                                // else-block followed by the rest
                                let mut all: Vec<syn::Stmt> = match &**eb {
                                    syn::Expr::Block(bb) => bb.block.stmts.clone(),
                                    other => vec![syn::Stmt::Expr(other.clone(), Some(Default::default()))],
                                };
                                // make a trailing expression a statement
                                if let Some(syn::Stmt::Expr(x, None)) = all.last().cloned() {
                                    let n = all.len();
                                    all[n - 1] = syn::Stmt::Expr(x, Some(Default::default()));
                                }
                                all.extend(rest.iter().cloned());
                                self.tr_stmts(ctx, &all, tail)
                            }
                        };
                        return self.wrap_pre(pre, Code::If(c.s, Box::new(a), Box::new(b)));
                    }
                }
                let st = self.tr_stmt_expr(ctx, e);
                let r = self.tr_stmts(ctx, rest, tail);
                st.into_code(self, r)
            }
        }
    }

    fn local_pat(&mut self, ctx: &mut Ctx, p: &syn::Pat) -> (String, Vec<(String, Ty)>) {
        match p {
            syn::Pat::Ident(i) => (v(&i.ident.to_string()), vec![(i.ident.to_string(), Ty::Unknown)]),
            syn::Pat::Type(t) => {
                let (s, mut names) = self.local_pat(ctx, &t.pat);
                let ty = conv_type(&t.ty, &[], &ctx.f.file);
                if names.len() == 1 {
                    names[0].1 = ty;
                }
                (s, names)
            }
            syn::Pat::Tuple(t) => {
                let mut ss = vec![];
                let mut names = vec![];
                for e in &t.elems {
                    let (s, n) = self.local_pat(ctx, e);
                    ss.push(s);
                    names.extend(n);
                }
                (format!("'({})", ss.join(", ")), names)
            }
            syn::Pat::Wild(_) => ("_".into(), vec![]),
            _ => ctx.bail(p, "let pattern"),
        }
    }
}

fn tuple_of(vars: &[String]) -> String {
    match vars.len() {
        0 => "tt".into(),
        1 => v(&vars[0]),
        _ => format!("({})", vars.iter().map(|x| v(x)).collect::<Vec<_>>().join(", ")),
    }
}
pub fn tuple_pat(vars: &[String]) -> String {
    match vars.len() {
        0 => "_".into(),
        1 => v(&vars[0]),
        _ => format!("'({})", vars.iter().map(|x| v(x)).collect::<Vec<_>>().join(", ")),
    }
}

fn block_returns(b: &syn::Block) -> bool {
    match b.stmts.last() {
        Some(syn::Stmt::Expr(syn::Expr::Return(_), _)) => true,
        _ => false,
    }
}

#[derive(Clone, Debug)]
pub enum Tail {
    FnReturn,          // the block's value is the function's return value
    Vars(Vec<String>), // statement-position block: yields the tuple of these (mutated) locals
    Value,             // expression-position block: yields its trailing expression
}

// A translated statement: a list of binders to be put in front of the rest.
pub enum StmtCode {
    Pre(Vec<PreItem>),
}
pub enum PreItem {
    Let(String, String),
    Res(String, String),
    Prog(String, String),
    Sub(String, Code),
    Loop(String, String, Code, String),
}
impl StmtCode {
    fn into_code(self, _tr: &Tr, rest: Code) -> Code {
        let StmtCode::Pre(items) = self;
        let mut c = rest;
        for it in items.into_iter().rev() {
            c = match it {
                PreItem::Let(p, e) => Code::Let(p, e, Box::new(c)),
                PreItem::Res(p, e) => Code::BindRes(p, e, Box::new(c)),
                PreItem::Prog(p, e) => Code::BindProg(p, e, Box::new(c)),
                PreItem::Sub(p, s) => Code::BindSub(p, Box::new(s), Box::new(c)),
                PreItem::Loop(p, cond, body, init) => Code::Loop(p, cond, Box::new(body), init, Box::new(c)),
            };
        }
        c
    }
}

include!("tr_stmt.rs");
include!("tr_expr.rs");
