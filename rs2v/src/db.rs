// Item collection: parses the source files and records enums, structs, registers and functions.
use crate::unsupported;
use std::collections::BTreeMap;
use std::path::Path;
use syn::spanned::Spanned;

#[derive(Clone, Debug, PartialEq)]
pub enum Ty {
    U8,
    U16,
    U32,
    Usize,
    I8,
    I16,
    I32,
    Bool,
    Unit,
    Named(String),
    Tuple(Vec<Ty>),
    Array(Box<Ty>, Option<u64>), // None = slice
    Opt(Box<Ty>),
    Res(Box<Ty>), // Result<T, _>
    Generic(String), // a generic type parameter (interface, timer, error types)
    IntLit,
    Unknown,
}

impl Ty {
    pub fn is_unsigned(&self) -> bool {
        matches!(self, Ty::U8 | Ty::U16 | Ty::U32 | Ty::Usize)
    }
    pub fn is_signed(&self) -> bool {
        matches!(self, Ty::I8 | Ty::I16 | Ty::I32)
    }
    pub fn width(&self) -> Option<u32> {
        match self {
            Ty::U8 | Ty::I8 => Some(8),
            Ty::U16 | Ty::I16 => Some(16),
            Ty::U32 | Ty::I32 => Some(32),
            _ => None,
        }
    }
}

#[derive(Clone, Debug)]
pub struct EnumDef {
    pub name: String,
    pub variants: Vec<(String, Vec<Ty>)>,
    pub file: String,
}

#[derive(Clone, Debug)]
pub struct StructDef {
    pub name: String,
    pub fields: Vec<(String, Ty)>,
    pub derives_default: bool,
    pub file: String,
}

#[derive(Clone, Debug)]
pub struct RegDef {
    pub name: String,
    pub addr: Option<u64>,
    pub default: Option<u64>,
    pub flags: Vec<(String, syn::Expr)>, // empty for read-only (unit struct) registers
    pub is_bitflags: bool,
    pub file: String,
}

#[derive(Clone, Debug, PartialEq)]
pub enum SelfKind {
    None,
    Value,  // self / mut self
    Ref,    // &self
    RefMut, // &mut self
}

#[derive(Clone, Debug)]
pub struct FnDef {
    pub owner: Option<String>,
    pub name: String,
    pub self_kind: SelfKind,
    pub params: Vec<(String, Ty)>,
    pub ret: Ty,
    pub body: syn::Block,
    pub file: String,
    pub is_pub: bool,
    pub line: usize,
    pub float: bool, // under cfg(feature = "float") (hand-modelled)
}

impl FnDef {
    pub fn coq_name(&self) -> String {
        match &self.owner {
            Some(o) => format!("{}_{}", o, self.name),
            None => self.name.clone(),
        }
    }
}

pub struct Db {
    pub enums: BTreeMap<String, EnumDef>,
    pub structs: BTreeMap<String, StructDef>,
    pub regs: BTreeMap<String, RegDef>,
    pub fns: Vec<FnDef>,
    pub type_order: Vec<String>,
    pub builders: BTreeMap<String, Ty>, // builder struct name -> type of its `config` field
    pub consts: BTreeMap<String, (Ty, syn::Expr, String)>, // Owner_NAME -> (type, expr, file)
}

fn cfg_skip(attrs: &[syn::Attribute]) -> (bool, bool) {
    // returns (skip item, is float feature)
    let mut skip = false;
    let mut float = false;
    for a in attrs {
        if a.path().is_ident("cfg") {
            let s = a.meta.to_token_stream_string();
            if s.contains("bma400_verif") {
                skip = true;
            } else if s.contains("feature = \"float\"") {
                float = true;
            } else if s.replace(' ', "") == "cfg(test)" {
                skip = true;
            }
            // cfg(any(feature = "spi", test)) and cfg(any(feature = "i2c", test)) are kept
        }
    }
    (skip, float)
}

trait ToTs {
    fn to_token_stream_string(&self) -> String;
}
impl<T: quote::ToTokens> ToTs for T {
    fn to_token_stream_string(&self) -> String {
        let mut ts = proc_macro2::TokenStream::new();
        self.to_tokens(&mut ts);
        ts.to_string()
    }
}

pub fn line_of<T: Spanned>(t: &T) -> usize {
    t.span().start().line
}

pub fn conv_type(t: &syn::Type, generics: &[String], file: &str) -> Ty {
    match t {
        syn::Type::Reference(r) => conv_type(&r.elem, generics, file),
        syn::Type::Paren(p) => conv_type(&p.elem, generics, file),
        syn::Type::Tuple(tt) => {
            if tt.elems.is_empty() {
                Ty::Unit
            } else {
                Ty::Tuple(tt.elems.iter().map(|e| conv_type(e, generics, file)).collect())
            }
        }
        syn::Type::Slice(s) => Ty::Array(Box::new(conv_type(&s.elem, generics, file)), None),
        syn::Type::Array(a) => {
            let n = match &a.len {
                syn::Expr::Lit(syn::ExprLit { lit: syn::Lit::Int(i), .. }) => i.base10_parse::<u64>().ok(),
                _ => None,
            };
            Ty::Array(Box::new(conv_type(&a.elem, generics, file)), n)
        }
        syn::Type::Path(p) => {
            let seg = p.path.segments.last().unwrap();
            let name = seg.ident.to_string();
            match name.as_str() {
                "u8" => Ty::U8,
                "u16" => Ty::U16,
                "u32" => Ty::U32,
                "usize" => Ty::Usize,
                "i8" => Ty::I8,
                "i16" => Ty::I16,
                "i32" => Ty::I32,
                "bool" => Ty::Bool,
                "Self" => Ty::Named("Self".into()),
                "Option" | "Result" => {
                    if let syn::PathArguments::AngleBracketed(ab) = &seg.arguments {
                        if let Some(syn::GenericArgument::Type(t0)) = ab.args.first() {
                            let inner = conv_type(t0, generics, file);
                            return if name == "Option" { Ty::Opt(Box::new(inner)) } else { Ty::Res(Box::new(inner)) };
                        }
                    }
                    unsupported(file, line_of(t), "Option/Result without type argument")
                }
                _ => {
                    if generics.iter().any(|g| *g == name) && p.path.segments.len() == 1 {
                        Ty::Generic(name)
                    } else if p.path.segments.len() == 2 && p.path.segments[0].ident == "Self" {
                        // Self::Item / Self::Error
                        Ty::Named(format!("Self::{}", name))
                    } else {
                        Ty::Named(name)
                    }
                }
            }
        }
        _ => unsupported(file, line_of(t), "type form"),
    }
}

fn generic_names(g: &syn::Generics) -> Vec<String> {
    g.params
        .iter()
        .filter_map(|p| match p {
            syn::GenericParam::Type(t) => Some(t.ident.to_string()),
            _ => None,
        })
        .collect()
}

fn lit_u64(e: &syn::Expr) -> Option<u64> {
    match e {
        syn::Expr::Lit(syn::ExprLit { lit: syn::Lit::Int(i), .. }) => i.base10_parse::<u64>().ok(),
        _ => None,
    }
}

// `cfg_register! { Name: 0x19 = 0x00 { const A = expr; ... } }`
struct CfgRegister {
    name: syn::Ident,
    addr: syn::Expr,
    default: syn::Expr,
    flags: Vec<(syn::Ident, syn::Expr)>,
}
impl syn::parse::Parse for CfgRegister {
    fn parse(input: syn::parse::ParseStream) -> syn::Result<Self> {
        let name: syn::Ident = input.parse()?;
        input.parse::<syn::Token![:]>()?;
        let addr: syn::Expr = syn::Expr::Lit(input.parse()?);
        input.parse::<syn::Token![=]>()?;
        let default: syn::Expr = syn::Expr::Lit(input.parse()?);
        let content;
        syn::braced!(content in input);
        let mut flags = vec![];
        while !content.is_empty() {
            content.parse::<syn::Token![const]>()?;
            let id: syn::Ident = content.parse()?;
            content.parse::<syn::Token![=]>()?;
            let e: syn::Expr = content.parse()?;
            content.parse::<syn::Token![;]>()?;
            flags.push((id, e));
        }
        Ok(CfgRegister { name, addr, default, flags })
    }
}
// `r_register!(Name: 0x00)`
struct RRegister {
    name: syn::Ident,
    addr: syn::Expr,
}
impl syn::parse::Parse for RRegister {
    fn parse(input: syn::parse::ParseStream) -> syn::Result<Self> {
        let name: syn::Ident = input.parse()?;
        input.parse::<syn::Token![:]>()?;
        let addr: syn::Expr = syn::Expr::Lit(input.parse()?);
        Ok(RRegister { name, addr })
    }
}
// `bitflags! { struct Header: u8 { const A = expr; ... } }`
struct BitflagsDef {
    name: syn::Ident,
    flags: Vec<(syn::Ident, syn::Expr)>,
}
impl syn::parse::Parse for BitflagsDef {
    fn parse(input: syn::parse::ParseStream) -> syn::Result<Self> {
        let _attrs = input.call(syn::Attribute::parse_outer)?;
        let _vis: syn::Visibility = input.parse()?;
        input.parse::<syn::Token![struct]>()?;
        let name: syn::Ident = input.parse()?;
        input.parse::<syn::Token![:]>()?;
        let _t: syn::Type = input.parse()?;
        let content;
        syn::braced!(content in input);
        let mut flags = vec![];
        while !content.is_empty() {
            let _attrs = content.call(syn::Attribute::parse_outer)?;
            content.parse::<syn::Token![const]>()?;
            let id: syn::Ident = content.parse()?;
            content.parse::<syn::Token![=]>()?;
            let e: syn::Expr = content.parse()?;
            content.parse::<syn::Token![;]>()?;
            flags.push((id, e));
        }
        Ok(BitflagsDef { name, flags })
    }
}

pub fn collect(src: &Path) -> Db {
    let mut db = Db {
        enums: BTreeMap::new(),
        structs: BTreeMap::new(),
        regs: BTreeMap::new(),
        fns: vec![],
        type_order: vec![],
        builders: BTreeMap::new(),
        consts: BTreeMap::new(),
    };
    // fixed file list: the transports (i2c.rs, spi.rs) and interface.rs are hand-modelled
    let mut files: Vec<String> = vec!["types.rs".into(), "registers.rs".into()];
    let mut cfgs: Vec<String> = std::fs::read_dir(src.join("config"))
        .unwrap_or_else(|_| unsupported("config", 0, "missing config directory"))
        .filter_map(|e| e.ok())
        .map(|e| e.file_name().to_string_lossy().to_string())
        .filter(|n| n.ends_with(".rs"))
        .collect();
    cfgs.sort();
    for c in cfgs {
        files.push(format!("config/{}", c));
    }
    files.push("config.rs".into());
    files.push("lib.rs".into());
    for f in &files {
        let text = std::fs::read_to_string(src.join(f)).unwrap_or_else(|_| unsupported(f, 0, "cannot read file"));
        let ast = syn::parse_file(&text).unwrap_or_else(|e| unsupported(f, e.span().start().line, &format!("parse error: {}", e)));
        for item in &ast.items {
            collect_item(&mut db, item, f);
        }
    }
    db
}

fn collect_item(db: &mut Db, item: &syn::Item, file: &str) {
    match item {
        syn::Item::Use(_) | syn::Item::Mod(_) | syn::Item::Trait(_) | syn::Item::ExternCrate(_) => {
            if let syn::Item::Mod(m) = item {
                let (skip, _) = cfg_skip(&m.attrs);
                if !skip && m.content.is_some() {
                    unsupported(file, line_of(m), "inline module");
                }
            }
        }
        syn::Item::Macro(m) => {
            let (skip, _) = cfg_skip(&m.attrs);
            if skip {
                return;
            }
            let name = m.mac.path.segments.last().unwrap().ident.to_string();
            match name.as_str() {
                "macro_rules" => {}
                "r_register" => {
                    let r: RRegister = m.mac.parse_body().unwrap_or_else(|e| unsupported(file, line_of(m), &format!("r_register!: {}", e)));
                    let n = r.name.to_string();
                    db.type_order.push(n.clone());
                    db.regs.insert(n.clone(), RegDef { name: n, addr: lit_u64(&r.addr), default: None, flags: vec![], is_bitflags: false, file: file.into() });
                }
                "cfg_register" => {
                    let r: CfgRegister = m.mac.parse_body().unwrap_or_else(|e| unsupported(file, line_of(m), &format!("cfg_register!: {}", e)));
                    let n = r.name.to_string();
                    db.type_order.push(n.clone());
                    db.regs.insert(
                        n.clone(),
                        RegDef {
                            name: n,
                            addr: lit_u64(&r.addr),
                            default: lit_u64(&r.default),
                            flags: r.flags.into_iter().map(|(i, e)| (i.to_string(), e)).collect(),
                            is_bitflags: true,
                            file: file.into(),
                        },
                    );
                }
                "bitflags" => {
                    let r: BitflagsDef = m.mac.parse_body().unwrap_or_else(|e| unsupported(file, line_of(m), &format!("bitflags!: {}", e)));
                    let n = r.name.to_string();
                    db.type_order.push(n.clone());
                    db.regs.insert(
                        n.clone(),
                        RegDef { name: n, addr: None, default: None, flags: r.flags.into_iter().map(|(i, e)| (i.to_string(), e)).collect(), is_bitflags: true, file: file.into() },
                    );
                }
                _ => unsupported(file, line_of(m), &format!("macro invocation {}!", name)),
            }
        }
        syn::Item::Enum(e) => {
            let (skip, _) = cfg_skip(&e.attrs);
            if skip {
                return;
            }
            let generics = generic_names(&e.generics);
            let name = e.ident.to_string();
            let mut variants = vec![];
            for v in &e.variants {
                let tys: Vec<Ty> = match &v.fields {
                    syn::Fields::Unit => vec![],
                    syn::Fields::Unnamed(u) => u.unnamed.iter().map(|f| conv_type(&f.ty, &generics, file)).collect(),
                    syn::Fields::Named(_) => unsupported(file, line_of(v), "enum variant with named fields"),
                };
                variants.push((v.ident.to_string(), tys));
            }
            db.type_order.push(name.clone());
            db.enums.insert(name.clone(), EnumDef { name, variants, file: file.into() });
        }
        syn::Item::Struct(s) => {
            let (skip, _) = cfg_skip(&s.attrs);
            if skip {
                return;
            }
            let generics = generic_names(&s.generics);
            let name = s.ident.to_string();
            let derives_default = s.attrs.iter().any(|a| a.path().is_ident("derive") && a.meta.to_token_stream_string().contains("Default"));
            match &s.fields {
                syn::Fields::Named(n) => {
                    let fields: Vec<(String, Ty)> = n.named.iter().map(|f| (f.ident.as_ref().unwrap().to_string(), conv_type(&f.ty, &generics, file))).collect();
                    // builder structs: { config: X, device: &mut BMA400<..> }
                    if fields.len() == 2 && fields[0].0 == "config" && fields[1].0 == "device" {
                        db.builders.insert(name.clone(), fields[0].1.clone());
                        return;
                    }
                    db.type_order.push(name.clone());
                    db.structs.insert(name.clone(), StructDef { name, fields, derives_default, file: file.into() });
                }
                syn::Fields::Unit => {
                    // unit struct other than via r_register!
                    unsupported(file, line_of(s), "unit struct outside r_register!");
                }
                syn::Fields::Unnamed(_) => unsupported(file, line_of(s), "tuple struct"),
            }
        }
        syn::Item::Impl(im) => {
            let (skip, _) = cfg_skip(&im.attrs);
            if skip {
                return;
            }
            let generics = generic_names(&im.generics);
            let owner = match &*im.self_ty {
                syn::Type::Path(p) => p.path.segments.last().unwrap().ident.to_string(),
                _ => unsupported(file, line_of(im), "impl target"),
            };
            let trait_name = im.trait_.as_ref().map(|(_, p, _)| p.segments.last().unwrap().ident.to_string());
            if let Some(t) = &trait_name {
                if t == "From" {
                    return; // `.into()` on ConfigError is translated directly
                }
            }
            for it in &im.items {
                match it {
                    syn::ImplItem::Fn(f) => {
                        let (skip, float) = cfg_skip(&f.attrs);
                        if skip {
                            continue;
                        }
                        let mut g2 = generics.clone();
                        g2.extend(generic_names(&f.sig.generics));
                        let mut self_kind = SelfKind::None;
                        let mut params = vec![];
                        for inp in &f.sig.inputs {
                            match inp {
                                syn::FnArg::Receiver(r) => {
                                    self_kind = if r.reference.is_some() {
                                        if r.mutability.is_some() { SelfKind::RefMut } else { SelfKind::Ref }
                                    } else {
                                        SelfKind::Value
                                    };
                                }
                                syn::FnArg::Typed(pt) => {
                                    let n = match &*pt.pat {
                                        syn::Pat::Ident(pi) => pi.ident.to_string(),
                                        _ => unsupported(file, line_of(pt), "parameter pattern"),
                                    };
                                    params.push((n, conv_type(&pt.ty, &g2, file)));
                                }
                            }
                        }
                        let ret = match &f.sig.output {
                            syn::ReturnType::Default => Ty::Unit,
                            syn::ReturnType::Type(_, t) => conv_type(t, &g2, file),
                        };
                        db.fns.push(FnDef {
                            owner: Some(owner.clone()),
                            name: f.sig.ident.to_string(),
                            self_kind,
                            params,
                            ret,
                            body: f.block.clone(),
                            file: file.into(),
                            is_pub: matches!(f.vis, syn::Visibility::Public(_)),
                            line: line_of(f),
                            float,
                        });
                    }
                    syn::ImplItem::Const(c) => {
                        let t = conv_type(&c.ty, &generics, file);
                        db.consts.insert(format!("{}_{}", owner, c.ident), (t, c.expr.clone(), file.into()));
                    }
                    syn::ImplItem::Type(_) => {}
                    _ => unsupported(file, line_of(it), "impl item"),
                }
            }
        }
        syn::Item::Fn(f) => {
            let (skip, float) = cfg_skip(&f.attrs);
            if skip {
                return;
            }
            let g2 = generic_names(&f.sig.generics);
            let mut params = vec![];
            for inp in &f.sig.inputs {
                if let syn::FnArg::Typed(pt) = inp {
                    let n = match &*pt.pat {
                        syn::Pat::Ident(pi) => pi.ident.to_string(),
                        _ => unsupported(file, line_of(pt), "parameter pattern"),
                    };
                    params.push((n, conv_type(&pt.ty, &g2, file)));
                }
            }
            let ret = match &f.sig.output {
                syn::ReturnType::Default => Ty::Unit,
                syn::ReturnType::Type(_, t) => conv_type(t, &g2, file),
            };
            db.fns.push(FnDef {
                owner: None,
                name: f.sig.ident.to_string(),
                self_kind: SelfKind::None,
                params,
                ret,
                body: (*f.block).clone(),
                file: file.into(),
                is_pub: matches!(f.vis, syn::Visibility::Public(_)),
                line: line_of(f),
                float,
            });
        }
        syn::Item::Const(c) => {
            // a named integer constant: emitted as a definition K_NAME, referenced by its bare name
            let t = conv_type(&c.ty, &[], file);
            if !(t.is_unsigned() || matches!(t, Ty::I8 | Ty::I16 | Ty::I32)) {
                unsupported(file, line_of(item), "top-level const of a non-integer type");
            }
            db.consts.insert(format!("K_{}", c.ident), (t, (*c.expr).clone(), file.into()));
        }
        syn::Item::Static(_) | syn::Item::Type(_) => unsupported(file, line_of(item), "top-level static/type"),
        _ => unsupported(file, line_of(item), "item kind"),
    }
}
