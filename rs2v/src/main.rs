fn main(){}
