// rs2v — translator from the Rust sources of bma400-rs (the subset listed in DESIGN.md §4.2)
// to the Gallina model checked by the proofs under /verif/coq.
//
// usage: rs2v <repo/src dir> <out dir>
//
// Anything outside the supported subset stops the translation with
//   rs2v: unsupported: <file>:<line>: <what>
// and exit status 3; it is never skipped silently.
mod db;
mod emit;
mod tr;

use std::path::PathBuf;

fn main() {
    let args: Vec<String> = std::env::args().collect();
    if args.len() != 3 {
        eprintln!("usage: rs2v <repo/src> <outdir>");
        std::process::exit(2);
    }
    let src = PathBuf::from(&args[1]);
    let out = PathBuf::from(&args[2]);
    let db = db::collect(&src);
    emit::emit_all(&db, &out);
}

pub fn unsupported(file: &str, line: usize, what: &str) -> ! {
    println!("rs2v: unsupported: {}:{}: {}", file, line, what);
    eprintln!("rs2v: unsupported: {}:{}: {}", file, line, what);
    std::process::exit(3);
}
