(* Coherent.v — "the driver's belief equals the device" as an invariant of every API call at
   every exit, under every fault plan (a failed register transaction is not applied):
   compositional proof over the generated bodies (DESIGN.md section 6.4). *)
Require Import BMA.lib.Base BMA.lib.Reflect BMA.gen.GenTypes BMA.gen.GenPure BMA.lib.Prog BMA.gen.GenProg BMA.gen.GenMeta
               BMA.lib.Encode BMA.gen.GenApi BMA.lib.Run BMA.lib.Driver BMA.proofs.Generic BMA.proofs.Rules.
From Coq Require Import Lia.
Open Scope N_scope.

Definition coherent (d : Config) (c : chip) : Prop := forall a v, In (a, v) (Config_dump d) -> regs c a = v.
Definition Coh (w : world) : Prop := coherent (shadow w) (wchip w).

(* at every exit of the program, whatever the fault plan carried by the world *)
Definition preserves {A} (p : prog A) : Prop := forall w, Coh w -> Coh (world_of (run T_reg p w)).

Lemma pres_ret : forall A (a : A), preserves (Ret a). Proof. intros A a w H. exact H. Qed.
Lemma pres_fail : forall A e, @preserves A (Fail e). Proof. intros A e w H. exact H. Qed.
Lemma pres_panic : forall A, @preserves A PanicP. Proof. intros A w H. exact H. Qed.
Lemma pres_fuel : forall A, @preserves A FuelP. Proof. intros A w H. exact H. Qed.
Lemma pres_bind : forall A B (p : prog A) (f : A -> prog B), preserves p -> (forall a, preserves (f a)) -> preserves (bind p f).
Proof.
  intros A B p f Hp Hf w H. rewrite run_bind. specialize (Hp w H). destruct (run T_reg p w); cbn [world_of] in *; try assumption.
  apply Hf. exact Hp.
Qed.
Lemma pres_get : preserves get_shadow. Proof. intros w H. exact H. Qed.
Lemma pres_lift : forall A (r : res A), preserves (lift_res r). Proof. intros A [a| |] w H; exact H. Qed.
Lemma pres_let : forall X A (e : X) (f : X -> prog A), (forall x, preserves (f x)) -> preserves (let x := e in f x).
Proof. intros X A e f H. exact (H e). Qed.

Lemma attempt_chip : forall c h, hchip (snd (attempt c h)) = hchip h. Proof. reflexivity. Qed.

Lemma pres_delay : forall ms, preserves (delay_ms ms).
Proof. intros ms w H. unfold delay_ms. cbn [run world_of]. unfold Coh, wchip, log_ev in *. cbn [shadow hst]. autorewrite with hproj. exact H. Qed.

(* a read never changes a register *)
Lemma chip_read_regs : forall a n c, regs (snd (chip_read a n c)) = regs c.
Proof. intros a n c. unfold chip_read. destruct (N.eqb a 20); reflexivity. Qed.
Lemma pres_read : forall a n, preserves (read_register a n).
Proof.
  intros a n w H. unfold read_register. cbn [run]. cbn [t_read T_reg]. unfold reg_read, attempt.
  destruct (faulty (hst w)); cbn [world_of]; unfold Coh, wchip, log_ev in *; cbn [shadow hst].
  - autorewrite with hproj. exact H.
  - autorewrite with hproj. destruct (chip_read a n (hchip (hst w))) as [l c] eqn:E. cbn [world_of shadow hst]. autorewrite with hproj.
    unfold coherent in *. intros a0 v0 Hin. pose proof (chip_read_regs a n (hchip (hst w))) as R. rewrite E in R. cbn [snd] in R. rewrite R. apply H. exact Hin.
Qed.

(* ---- a register write mirrored into the shadow ---- *)
Definition upd_dump (a v : N) (l : list (N * N)) : list (N * N) := map (fun p => if N.eqb (fst p) a then (fst p, v) else p) l.
Definition mirror_ok (a v : N) (f : Config -> Config) : Prop :=
  (N.leb 25 a && N.ltb a 126)%bool = true /\ forall d, Config_dump (f d) = upd_dump a v (Config_dump d).

Lemma coherent_mirror : forall a v f d c, mirror_ok a v f -> coherent d c -> coherent (f d) (chip_write a v c).
Proof.
  intros a v f d c [Ra Hd] H a0 v0 Hin. rewrite Hd in Hin. unfold upd_dump in Hin. apply in_map_iff in Hin. destruct Hin as [[a1 v1] [E Hin1]].
  apply andb_prop in Ra. destruct Ra as [R1 R2]. apply N.leb_le in R1. apply N.ltb_lt in R2.
  unfold chip_write. replace (N.eqb a 126) with false by (symmetry; apply N.eqb_neq; lia).
  replace (N.leb FIRST_CFG a && N.ltb a 128)%bool with true by (symmetry; apply andb_true_intro; split; [apply N.leb_le; unfold FIRST_CFG; lia | apply N.ltb_lt; lia]).
  cbn [regs fst] in *. unfold upd. destruct (N.eqb_spec a1 a) as [Ea|Ea]; injection E as E1 E2; subst a0 v0.
  - subst a1. rewrite N.eqb_refl. reflexivity.
  - replace (N.eqb a1 a) with false by (symmetry; apply N.eqb_neq; exact Ea). apply H. exact Hin1.
Qed.

Lemma pres_write_mirror : forall a v f B (rest : prog B), mirror_ok a v f -> preserves rest ->
  preserves (bind (write_register a v) (fun _ => bind (modify f) (fun _ => rest))).
Proof.
  intros a v f B rest M Hr w H. cbn [bind write_register modify run]. cbn [t_write T_reg]. unfold reg_write, attempt.
  destruct (faulty (hst w)).
  - cbn [world_of]. unfold Coh, wchip, log_ev in *. cbn [shadow hst]. autorewrite with hproj. exact H.
  - apply Hr. unfold Coh, wchip, log_ev in *. cbn [shadow hst]. autorewrite with hproj. apply coherent_mirror; assumption.
Qed.

(* ---- writes to registers the shadow does not mirror: the self-test register, commands other than reset ---- *)
Definition dump_addrs : list N := map fst (Config_dump Config_default).
Lemma dump_addrs_fixed : forall d, map fst (Config_dump d) = dump_addrs.
Proof. intro d. reflexivity. Qed.

Lemma pres_write_unshadowed : forall a v, (negb (existsb (N.eqb a) dump_addrs) && negb (N.eqb a 126 && N.eqb v 182))%bool = true ->
  preserves (write_register a v).
Proof.
  intros a v Hc w H. unfold write_register. cbn [run]. cbn [t_write T_reg]. unfold reg_write, attempt.
  destruct (faulty (hst w)); cbn [world_of]; unfold Coh, wchip, log_ev in *; cbn [shadow hst]; autorewrite with hproj; [exact H|].
  apply andb_prop in Hc. destruct Hc as [Hn Hr]. apply negb_true_iff in Hn.
  intros a0 v0 Hin. rewrite <- (H a0 v0 Hin).
  assert (Ha0 : a0 <> a).
  { intro E. subst a0. assert (In a dump_addrs) by (rewrite <- (dump_addrs_fixed (shadow w)); apply in_map_iff; exists (a, v0); auto).
    assert (existsb (N.eqb a) dump_addrs = true) by (apply existsb_exists; exists a; split; [assumption | apply N.eqb_refl]). congruence. }
  assert (Ra0 : 25 <= a0 < 89).
  { assert (In a0 dump_addrs) by (rewrite <- (dump_addrs_fixed (shadow w)); apply in_map_iff; exists (a0, v0); auto).
    assert (F : forallb (fun x => N.leb 25 x && N.ltb x 89)%bool dump_addrs = true) by (vm_compute; reflexivity).
    rewrite forallb_forall in F. specialize (F a0 H0). apply andb_prop in F. destruct F as [F1 F2]. apply N.leb_le in F1. apply N.ltb_lt in F2. lia. }
  unfold chip_write. destruct (N.eqb_spec a 126) as [E|E].
  - subst a. cbn [andb] in Hr. apply negb_true_iff in Hr. rewrite Hr.
    destruct (N.eqb v 176); [reflexivity|]. destruct (N.eqb v 177); [|reflexivity].
    cbn [regs]. unfold upd. repeat (match goal with |- context [N.eqb a0 ?k] => replace (N.eqb a0 k) with false by (symmetry; apply N.eqb_neq; lia) end). reflexivity.
  - destruct (N.leb FIRST_CFG a && N.ltb a 128)%bool; [|reflexivity]. cbn [regs]. unfold upd.
    replace (N.eqb a0 a) with false by (symmetry; apply N.eqb_neq; exact Ha0). reflexivity.
Qed.

(* ---- soft reset: the command, then the shadow replaced by the defaults ---- *)
Lemma default_is_reset : forallb (fun p => N.eqb (reset_val (fst p)) (snd p) && N.leb 25 (fst p) && N.ltb (fst p) 128)%bool (Config_dump Config_default) = true.
Proof. vm_compute. reflexivity. Qed.

Lemma pres_reset : forall B (rest : prog B), preserves rest ->
  preserves (bind (write_register 126 182) (fun _ => bind (put_shadow Config_default) (fun _ => rest))).
Proof.
  intros B rest Hr w H. cbn [bind write_register put_shadow run]. cbn [t_write T_reg]. unfold reg_write, attempt.
  destruct (faulty (hst w)).
  - cbn [world_of]. unfold Coh, wchip, log_ev in *. cbn [shadow hst]. autorewrite with hproj. exact H.
  - apply Hr. unfold Coh, wchip, log_ev. cbn [shadow hst]. autorewrite with hproj.
    intros a v Hin. pose proof default_is_reset as D. rewrite forallb_forall in D. specialize (D (a, v) Hin). cbn [fst snd] in D.
    repeat (apply andb_prop in D; destruct D as [D ?]). apply N.eqb_eq in D. apply N.leb_le in H1. apply N.ltb_lt in H0.
    unfold chip_write. cbn [N.eqb]. change (N.eqb 126 126) with true. change (N.eqb 182 182) with true. cbv iota.
    unfold chip_soft_reset. cbn [regs]. unfold FIRST_CFG.
    replace (N.ltb a 25) with false by (symmetry; apply N.ltb_ge; lia). replace (N.ltb a 128) with true by (symmetry; apply N.ltb_lt; lia). exact D.
Qed.

(* ---- the traversal ---- *)
Ltac destruct_config d :=
  let c1 := fresh in let c2 := fresh in let c3 := fresh in let c4 := fresh in let c5 := fresh in let c6 := fresh in
  let c7 := fresh in let c8 := fresh in let c9 := fresh in let c10 := fresh in let c11 := fresh in let c12 := fresh in
  destruct d as [c1 c2 c3 c4 c5 c6 c7 c8 c9 c10 c11 c12];
  destruct c1, c2, c3, c4, c5, c6, c7, c8, c9, c10, c11, c12.
Ltac solve_mirror :=
  split; [vm_compute; reflexivity | let d := fresh "d" in intro d; destruct_config d; reflexivity].

Ltac pres_step :=
  lazymatch goal with
  | |- preserves (Ret _) => apply pres_ret
  | |- preserves (Fail _) => apply pres_fail
  | |- preserves PanicP => apply pres_panic
  | |- preserves FuelP => apply pres_fuel
  | |- preserves (bind (write_register _ _) (fun _ => bind (modify _) (fun _ => _))) => apply pres_write_mirror; [solve_mirror | ]
  | |- preserves (bind (write_register _ _) (fun _ => bind (put_shadow Config_default) (fun _ => _))) => apply pres_reset
  | |- preserves (bind _ _) => apply pres_bind; [ | intro ]
  | |- preserves (write_register _ _) => apply pres_write_unshadowed; vm_compute; reflexivity
  | |- preserves (read_register _ _) => apply pres_read
  | |- preserves (delay_ms _) => apply pres_delay
  | |- preserves get_shadow => apply pres_get
  | |- preserves (lift_res _) => apply pres_lift
  | |- preserves (let x := ?e in @?f x) => refine (pres_let _ _ e f _); intro
  | |- preserves (if ?b then _ else _) => destruct b
  | |- preserves (match ?x with _ => _ end) => destruct x
  | |- preserves (?h _ _ _) => unfold h
  | |- preserves (?h _ _) => unfold h
  | |- preserves (?h _) => unfold h
  | |- preserves ?h => unfold h
  end.
Ltac pres_all := repeat pres_step.

Theorem step_preserves : forall op, api_only op = true -> preserves (step op).
Proof. intros op H. destruct op; try discriminate H; clear H; unfold step; pres_all. Qed.
