(* BuilderCor.v — from the symbolic-execution theorem of one builder (postx ... builder_post) to statements
   about the device: what `sem` / the chip do when the builder's write() runs from a coherent state. *)
Require Import BMA.lib.Base BMA.lib.Reflect BMA.gen.GenTypes BMA.gen.GenPure BMA.lib.Prog BMA.gen.GenProg BMA.gen.GenMeta
               BMA.gen.GenLens BMA.lib.Run BMA.proofs.Generic BMA.proofs.Rules BMA.proofs.Coherent BMA.proofs.Symex BMA.proofs.BuilderSpec BMA.proofs.Builders BMA.proofs.SymexLink.
From Coq Require Import Lia.
Open Scope N_scope.

Lemma shv_coherent : forall d c a, coherent d c -> In a (map fst (Config_dump d)) -> shv d a = regs c a.
Proof.
  intros d c a H Hin. unfold shv. destruct (find (fun p => N.eqb (fst p) a) (Config_dump d)) as [p|] eqn:E.
  - apply find_some in E. destruct E as [E1 E2]. apply N.eqb_eq in E2. destruct p as [a' v']. cbn [fst snd] in *. subst a'. symmetry. apply H. exact E1.
  - exfalso. apply in_map_iff in Hin. destruct Hin as [[a' v'] [E1 E2]]. cbn in E1. subst a'.
    pose proof (find_none _ _ E _ E2) as F. cbn in F. rewrite N.eqb_refl in F. discriminate.
Qed.
Lemma ghost_coherent : forall d c, coherent d c -> chip_ghost c = ghost_of d.
Proof.
  intros d c H. unfold chip_ghost, ghost_of. rewrite !(shv_coherent d c) by (exact H || (rewrite dump_addrs_fixed; vm_compute; auto 60)). reflexivity.
Qed.

Lemma entry_addr_ok : forall blk d reqf e, forallb (fun a => N.leb 25 a && N.ltb a 126)%bool blk = true ->
  entry_ok blk d reqf e = true -> cfg_addr (jw_addr e).
Proof.
  intros blk d reqf e Hb H. unfold entry_ok, c08_entry in H. apply andb_prop in H. destruct H as [_ H]. apply andb_prop in H. destruct H as [H _].
  apply orb_prop in H. destruct H as [H|H]; apply existsb_exists in H; destruct H as [x [Hx Ex]]; apply N.eqb_eq in Ex; subst x.
  - rewrite forallb_forall in Hb. specialize (Hb _ Hx). apply andb_prop in Hb. destruct Hb as [H1 H2]. apply N.leb_le in H1. apply N.ltb_lt in H2. split; assumption.
  - unfold ENABLES in Hx. cbn in Hx. unfold cfg_addr. destruct Hx as [E|[E|[E|[]]]]; rewrite <- E; lia.
Qed.

Lemma apply_writes_frame : forall nj c a, (forall e, In e nj -> cfg_addr (jw_addr e) /\ jw_addr e <> a) -> regs (apply_writes c nj) a = regs c a.
Proof.
  induction nj as [|e r IH]; intros c a H; [reflexivity|]. cbn [apply_writes fold_left]. fold (apply_writes (chip_write (jw_addr e) (jw_val e) c) r).
  rewrite IH by (intros e' He'; apply H; right; exact He').
  destruct (H e (or_introl eq_refl)) as [[H1 H2] H3]. unfold chip_write.
  replace (N.eqb (jw_addr e) 126) with false by (symmetry; apply N.eqb_neq; lia).
  destruct (N.leb FIRST_CFG (jw_addr e) && N.ltb (jw_addr e) 128)%bool; [|reflexivity]. cbn [regs]. unfold upd.
  replace (N.eqb a (jw_addr e)) with false by (symmetry; apply N.eqb_neq; congruence). reflexivity.
Qed.

(* what one accepted / rejected builder call does, in terms of the register-level semantics on the chip *)
Theorem builder_on_device : forall (p : prog unit) d c evs blk expected reqf,
  postx p d (ghost_of d) [] (builder_post blk d expected reqf []) (reject_post d []) ->
  coherent d c -> forallb (fun a => N.leb 25 a && N.ltb a 126)%bool blk = true ->
  (exists nj, sem p d c evs = ADone tt expected (apply_writes c nj) (evs ++ map jw_ev nj)
     /\ forallb (entry_ok blk d reqf) nj = true /\ entries_match c nj
     /\ enable_ok blk d reqf 31 nj = true /\ enable_ok blk d reqf 32 nj = true /\ enable_ok blk d reqf 47 nj = true
     /\ chip_ghost (apply_writes c nj) = ghost_of expected
     /\ (forall a, ~ In a blk -> ~ In a ENABLES -> regs (apply_writes c nj) a = regs c a))
  \/ (exists e, sem p d c evs = AFailed e d c evs).
Proof.
  intros p d c evs blk expected reqf H Hc Hb. unfold postx in H.
  pose proof (ghost_coherent d c Hc) as Hg. symmetry in Hg.
  destruct (semx p d (ghost_of d) []) as [[] d' g' j' | e d' g' j' |] eqn:E; [| |contradiction].
  - left. destruct H as [H1 [H2 [nj [H3 [H4 [H5 [H6 H7]]]]]]]. cbn [app] in H3. subst j' d' g'.
    assert (Ha : addrs_ok nj).
    { unfold addrs_ok. apply Forall_forall. intros e He. rewrite forallb_forall in H4. apply (entry_addr_ok blk d reqf e Hb (H4 e He)). }
    destruct (semx_sem_done _ p d (ghost_of d) [] c evs tt expected (ghost_of expected) nj E Ha Hg) as [S1 [S2 S3]].
    exists nj. repeat split; try assumption; [symmetry; exact S2|].
    intros a Hn1 Hn2. apply apply_writes_frame. intros e He. split; [unfold addrs_ok in Ha; rewrite Forall_forall in Ha; apply Ha; exact He|].
    rewrite forallb_forall in H4. specialize (H4 e He). unfold entry_ok, c08_entry in H4. apply andb_prop in H4. destruct H4 as [_ H4]. apply andb_prop in H4. destruct H4 as [H4 _].
    intro Ea. apply orb_prop in H4. destruct H4 as [H4|H4]; apply existsb_exists in H4; destruct H4 as [x [Hx Ex]]; apply N.eqb_eq in Ex; subst x; rewrite Ea in Hx; contradiction.
  - right. destruct H as [H1 [H2 H3]]. subst d' g' j'. exists e.
    destruct (semx_sem_failed _ p d (ghost_of d) [] c evs e d (ghost_of d) [] E (Forall_nil _) Hg) as [S1 _]. cbn in S1. rewrite app_nil_r in S1. exact S1.
Qed.
