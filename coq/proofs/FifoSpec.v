(* FifoSpec.v — the FIFO frame formats of the datasheet as an encoder (specification side,
   hand-written) and the proof that the generated iterator and accessors decode every
   encoded stream (C04).  Sample values range over the whole 12-bit domain (evaluated in
   the kernel), the number of frames, offsets and buffer length are unbounded (induction). *)
Require Import BMA.lib.Base BMA.lib.Reflect BMA.gen.GenTypes BMA.gen.GenPure BMA.gen.GenMeta BMA.lib.Encode BMA.gen.GenApi BMA.proofs.Fifo.
From Coq Require Import Lia.
Open Scope N_scope.

Inductive frame_spec : Type :=
| FData (ax : N) (res12 : bool) (x y z : Z)   (* ax: bit 0 = x, bit 1 = y, bit 2 = z present *)
| FCtrl (src bw acc1 : bool)
| FTime (b0 b1 b2 : N).                        (* 24-bit little-endian sensor time *)

Definition s12 (v : Z) : N := of_signed 12 v.
Definition enc_sample (res12 : bool) (v : Z) : list N :=
  if res12 then [N.land (s12 v) 15; N.shiftr (s12 v) 4] else [N.shiftr (s12 v) 4].
Definition opt_sample (present res12 : bool) (v : Z) : list N := if present then enc_sample res12 v else [].
Definition b2n (b : bool) : N := if b then 1 else 0.
Definition encode_frame (f : frame_spec) : list N :=
  match f with
  | FData ax r x y z =>
      (128 + (if r then 16 else 0) + 2 * ax)
        :: opt_sample (N.testbit ax 0) r x ++ opt_sample (N.testbit ax 1) r y ++ opt_sample (N.testbit ax 2) r z
  | FCtrl s b a => [72; 2 * b2n s + 4 * b2n b + 8 * b2n a]
  | FTime b0 b1 b2 => [160; b0; b1; b2]
  end.

Definition in12 (v : Z) : Prop := (-2048 <= v <= 2047)%Z.
Definition sample_wf (res12 : bool) (v : Z) : Prop := in12 v /\ (res12 = false -> (v mod 16 = 0)%Z).
Definition wf_frame (f : frame_spec) : Prop :=
  match f with
  | FData ax r x y z => 1 <= ax <= 7 /\ sample_wf r x /\ sample_wf r y /\ sample_wf r z
  | FCtrl _ _ _ => True
  | FTime b0 b1 b2 => b0 < 256 /\ b1 < 256 /\ b2 < 256
  end.

(* what the accessors must return on the frame *)
Definition want_type (f : frame_spec) : FrameType :=
  match f with FData _ _ _ _ _ => FrameType_Data | FCtrl _ _ _ => FrameType_Control | FTime _ _ _ => FrameType_Time end.
Definition want_axis (f : frame_spec) (k : N) : option Z :=
  match f with
  | FData ax _ x y z => if N.testbit ax k then Some (if N.eqb k 0 then x else if N.eqb k 1 then y else z) else None
  | _ => None
  end.
Definition want_time (f : frame_spec) : option N :=
  match f with FTime b0 b1 b2 => Some (b0 + 256 * b1 + 65536 * b2) | _ => None end.
Definition want_flag (f : frame_spec) (k : N) : option bool :=
  match f with FCtrl s b a => Some (if N.eqb k 0 then s else if N.eqb k 1 then b else a) | _ => None end.

(* ---- enumeration of the 12-bit sample domain ---- *)
Lemma in12_enum (P : Z -> Prop) : (forall u, u < 4096 -> P (to_signed 12 u)) -> forall v, in12 v -> P v.
Proof.
  intros H v [L U].
  assert (E : to_signed 12 (of_signed 12 v) = v).
  { unfold to_signed, of_signed. change (pow2 12) with 4096. change (pow2 (12 - 1)) with 2048. change (Z.of_N 4096) with 4096%Z.
    destruct (Z.ltb v 0) eqn:Ev; [apply Z.ltb_lt in Ev | apply Z.ltb_ge in Ev].
    - replace (v mod 4096)%Z with (v + 4096)%Z by (apply Z.mod_unique with (q := (-1)%Z); lia).
      destruct (N.ltb_spec (Z.to_N (v + 4096)) 2048); lia.
    - rewrite Z.mod_small by lia. destruct (N.ltb_spec (Z.to_N v) 2048); lia. }
  rewrite <- E. apply H. unfold of_signed. change (Z.of_N (pow2 12)) with 4096%Z. pose proof (Z.mod_pos_bound v 4096). lia.
Qed.
Definition all_u12 (f : N -> bool) : bool := forall_bits 12 f 0.
Lemma all_u12_sound f : all_u12 f = true -> forall u, u < 4096 -> f u = true.
Proof. unfold all_u12. intros H u Hu. refine (forall_bits_all 12 f H u _). change (2 ^ N.of_nat 12) with 4096. exact Hu. Qed.

(* ---- per-axis decoding on every data header: the sample under test ranges over its whole domain, the other
        samples are arbitrary (they are not read) ---- *)
Definition AXES : list N := [1; 2; 3; 4; 5; 6; 7].
Definition chk (a : res (option Z)) (w : option Z) : bool := beq a (Ok w).
Definition x_ok12 (y z : Z) (u : N) : bool := let v := to_signed 12 u in
  forallb (fun ax => chk (Frame_x (mk_Frame (encode_frame (FData ax true v y z)))) (want_axis (FData ax true v y z) 0)) AXES.
Definition y_ok12 (x z : Z) (u : N) : bool := let v := to_signed 12 u in
  forallb (fun ax => chk (Frame_y (mk_Frame (encode_frame (FData ax true x v z)))) (want_axis (FData ax true x v z) 1)) AXES.
Definition z_ok12 (x y : Z) (u : N) : bool := let v := to_signed 12 u in
  forallb (fun ax => chk (Frame_z (mk_Frame (encode_frame (FData ax true x y v)))) (want_axis (FData ax true x y v) 2)) AXES.
(* 8-bit mode: the sample is a multiple of 16 *)
Definition x_ok8 (y z : Z) (u : N) : bool := let v := (16 * to_signed 8 u)%Z in
  forallb (fun ax => chk (Frame_x (mk_Frame (encode_frame (FData ax false v y z)))) (want_axis (FData ax false v y z) 0)) AXES.
Definition y_ok8 (x z : Z) (u : N) : bool := let v := (16 * to_signed 8 u)%Z in
  forallb (fun ax => chk (Frame_y (mk_Frame (encode_frame (FData ax false x v z)))) (want_axis (FData ax false x v z) 1)) AXES.
Definition z_ok8 (x y : Z) (u : N) : bool := let v := (16 * to_signed 8 u)%Z in
  forallb (fun ax => chk (Frame_z (mk_Frame (encode_frame (FData ax false x y v)))) (want_axis (FData ax false x y v) 2)) AXES.

Lemma x12 y z : forall u, u < 4096 -> x_ok12 y z u = true. Proof. apply all_u12_sound. timeout 300 (vm_compute; reflexivity). Qed.
Lemma y12 x z : forall u, u < 4096 -> y_ok12 x z u = true. Proof. apply all_u12_sound. timeout 300 (vm_compute; reflexivity). Qed.
Lemma z12 x y : forall u, u < 4096 -> z_ok12 x y u = true. Proof. apply all_u12_sound. timeout 300 (vm_compute; reflexivity). Qed.
Lemma x8 y z : forall u, u < 256 -> x_ok8 y z u = true. Proof. apply all_u8_sound. timeout 300 (vm_compute; reflexivity). Qed.
Lemma y8 x z : forall u, u < 256 -> y_ok8 x z u = true. Proof. apply all_u8_sound. timeout 300 (vm_compute; reflexivity). Qed.
Lemma z8 x y : forall u, u < 256 -> z_ok8 x y u = true. Proof. apply all_u8_sound. timeout 300 (vm_compute; reflexivity). Qed.

Lemma mult16_enum (P : Z -> Prop) : (forall u, u < 256 -> P (16 * to_signed 8 u)%Z) -> forall v, in12 v -> (v mod 16 = 0)%Z -> P v.
Proof.
  intros H v [L U] M.
  assert (Ev : v = (16 * (v / 16))%Z) by (rewrite (Z.div_mod v 16) at 1 by lia; lia).
  assert (Rk : (-128 <= v / 16 < 128)%Z) by (split; [apply Z.div_le_lower_bound | apply Z.div_lt_upper_bound]; lia).
  rewrite Ev. rewrite <- (to_signed_of_signed8 (v / 16) Rk). apply H. apply of_signed8_range.
Qed.

Lemma in_axes : forall ax, 1 <= ax <= 7 -> In ax AXES.
Proof. intros ax H. unfold AXES. assert (ax = 1 \/ ax = 2 \/ ax = 3 \/ ax = 4 \/ ax = 5 \/ ax = 6 \/ ax = 7) by lia. cbn. intuition. Qed.

Lemma chk_eq a w : chk a w = true -> a = Ok w.
Proof. unfold chk. intro H. apply (@beq_eq _ (BEq_res)) in H. exact H. Qed.

Lemma data_x : forall ax r x y z, wf_frame (FData ax r x y z) ->
  Frame_x (mk_Frame (encode_frame (FData ax r x y z))) = Ok (want_axis (FData ax r x y z) 0).
Proof.
  intros ax r x y z [Hax [[Hx Hx8] [[Hy Hy8] [Hz Hz8]]]]. pose proof (in_axes ax Hax) as Hin. destruct r.
  - revert x Hx Hx8. refine (in12_enum _ _). intros u Hu _.
    pose proof (x12 y z u Hu) as H. cbv beta delta [x_ok12] in H. cbv zeta in H.
    rewrite forallb_forall in H. exact (chk_eq _ _ (H ax Hin)).
  - specialize (Hx8 eq_refl). revert x Hx Hx8. refine (mult16_enum _ _). intros u Hu.
    pose proof (x8 y z u Hu) as H. cbv beta delta [x_ok8] in H. cbv zeta in H.
    rewrite forallb_forall in H. exact (chk_eq _ _ (H ax Hin)).
Qed.
Lemma data_y : forall ax r x y z, wf_frame (FData ax r x y z) ->
  Frame_y (mk_Frame (encode_frame (FData ax r x y z))) = Ok (want_axis (FData ax r x y z) 1).
Proof.
  intros ax r x y z [Hax [[Hx Hx8] [[Hy Hy8] [Hz Hz8]]]]. pose proof (in_axes ax Hax) as Hin. destruct r.
  - revert y Hy Hy8. refine (in12_enum _ _). intros u Hu _.
    pose proof (y12 x z u Hu) as H. cbv beta delta [y_ok12] in H. cbv zeta in H.
    rewrite forallb_forall in H. exact (chk_eq _ _ (H ax Hin)).
  - specialize (Hy8 eq_refl). revert y Hy Hy8. refine (mult16_enum _ _). intros u Hu.
    pose proof (y8 x z u Hu) as H. cbv beta delta [y_ok8] in H. cbv zeta in H.
    rewrite forallb_forall in H. exact (chk_eq _ _ (H ax Hin)).
Qed.
Lemma data_z : forall ax r x y z, wf_frame (FData ax r x y z) ->
  Frame_z (mk_Frame (encode_frame (FData ax r x y z))) = Ok (want_axis (FData ax r x y z) 2).
Proof.
  intros ax r x y z [Hax [[Hx Hx8] [[Hy Hy8] [Hz Hz8]]]]. pose proof (in_axes ax Hax) as Hin. destruct r.
  - revert z Hz Hz8. refine (in12_enum _ _). intros u Hu _.
    pose proof (z12 x y u Hu) as H. cbv beta delta [z_ok12] in H. cbv zeta in H.
    rewrite forallb_forall in H. exact (chk_eq _ _ (H ax Hin)).
  - specialize (Hz8 eq_refl). revert z Hz Hz8. refine (mult16_enum _ _). intros u Hu.
    pose proof (z8 x y u Hu) as H. cbv beta delta [z_ok8] in H. cbv zeta in H.
    rewrite forallb_forall in H. exact (chk_eq _ _ (H ax Hin)).
Qed.

(* the remaining accessors depend on the header (and, for control / time frames, on the payload bytes) only *)
Definition others_ok (f : frame_spec) : bool :=
  let fr := mk_Frame (encode_frame f) in
  beq (Frame_frame_type fr) (Ok (want_type f)) && beq (Frame_time fr) (Ok (want_time f))
  && beq (Frame_fifo_src_chg fr) (Ok (want_flag f 0)) && beq (Frame_filt1_bw_chg fr) (Ok (want_flag f 1)) && beq (Frame_acc1_chg fr) (Ok (want_flag f 2)).
Lemma data_others : forall ax r x y z, 1 <= ax <= 7 -> others_ok (FData ax r x y z) = true.
Proof.
  intros ax r x y z Hax. pose proof (in_axes ax Hax) as Hin.
  assert (H : forallb (fun ax => others_ok (FData ax true x y z) && others_ok (FData ax false x y z)) AXES = true) by (vm_compute; reflexivity).
  rewrite forallb_forall in H. specialize (H ax Hin). apply andb_prop in H. destruct H, r; assumption.
Qed.
Lemma ctrl_others : forall s b a, others_ok (FCtrl s b a) = true.
Proof. intros [|] [|] [|]; vm_compute; reflexivity. Qed.
Lemma ctrl_axes : forall s b a, let fr := mk_Frame (encode_frame (FCtrl s b a)) in Frame_x fr = Ok None /\ Frame_y fr = Ok None /\ Frame_z fr = Ok None.
Proof. intros [|] [|] [|]; vm_compute; repeat split; reflexivity. Qed.
Lemma time_all : forall b0 b1 b2, let f := FTime b0 b1 b2 in let fr := mk_Frame (encode_frame f) in
  Frame_frame_type fr = Ok FrameType_Time /\ Frame_x fr = Ok None /\ Frame_y fr = Ok None /\ Frame_z fr = Ok None /\
  Frame_time fr = Ok (want_time f) /\ Frame_fifo_src_chg fr = Ok None /\ Frame_filt1_bw_chg fr = Ok None /\ Frame_acc1_chg fr = Ok None.
Proof.
  intros b0 b1 b2. cbv zeta. repeat split; try (vm_compute; reflexivity).
  cbv [Frame_time Frame_frame_type encode_frame Frame_slice idx nth_error N.to_nat Pos.to_nat Pos.iter_op Nat.add rbind].
  change (Header_frame_type (from_bits_truncate Header_ALL 160)) with FrameType_Time. cbv [negb rbind want_time].
  cbv [u32_from_le_bytes nth]. f_equal. f_equal. lia.
Qed.

(* ---- every accessor on every well-formed encoded frame ---- *)
Record decodes_to (fr : Frame) (f : frame_spec) : Prop := {
  d_type : Frame_frame_type fr = Ok (want_type f);
  d_x : Frame_x fr = Ok (want_axis f 0); d_y : Frame_y fr = Ok (want_axis f 1); d_z : Frame_z fr = Ok (want_axis f 2);
  d_time : Frame_time fr = Ok (want_time f);
  d_src : Frame_fifo_src_chg fr = Ok (want_flag f 0); d_bw : Frame_filt1_bw_chg fr = Ok (want_flag f 1); d_acc1 : Frame_acc1_chg fr = Ok (want_flag f 2)
}.
Theorem frame_decodes : forall f, wf_frame f -> decodes_to (mk_Frame (encode_frame f)) f.
Proof.
  intros [ax r x y z | s b a | b0 b1 b2] W.
  - pose proof W as [Hax _]. pose proof (data_others ax r x y z Hax) as O. unfold others_ok in O. cbv zeta in O.
    repeat (apply andb_prop in O; destruct O as [O ?]).
    constructor; try (apply beq_eq; assumption); [apply data_x | apply data_y | apply data_z]; exact W.
  - pose proof (ctrl_others s b a) as O. unfold others_ok in O. cbv zeta in O.
    repeat (apply andb_prop in O; destruct O as [O ?]). pose proof (ctrl_axes s b a) as [A1 [A2 A3]].
    constructor; try (apply beq_eq; assumption); assumption.
  - pose proof (time_all b0 b1 b2) as [T1 [T2 [T3 [T4 [T5 [T6 [T7 T8]]]]]]]. constructor; assumption.
Qed.

(* ---- header facts of an encoded frame ---- *)
Lemma frame_header : forall f, wf_frame f ->
  exists h ps, encode_frame f = h :: ps /\ h < 256 /\ spec_empty h = false /\ spec_payload h + 1 = len (encode_frame f).
Proof.
  intros [ax r x y z | s b a | b0 b1 b2] W.
  - destruct W as [Hax _].
    assert (Hc : ax = 1 \/ ax = 2 \/ ax = 3 \/ ax = 4 \/ ax = 5 \/ ax = 6 \/ ax = 7) by lia.
    destruct Hc as [E|[E|[E|[E|[E|[E|E]]]]]]; subst ax; destruct r; do 2 eexists; (split; [reflexivity|]); repeat split; vm_compute; reflexivity.
  - destruct s, b, a; do 2 eexists; (split; [reflexivity|]); repeat split; vm_compute; reflexivity.
  - do 2 eexists. split; [reflexivity|]. repeat split; vm_compute; reflexivity.
Qed.

Lemma frame_bytes_ok : forall f, wf_frame f -> bytes_ok (encode_frame f).
Proof.
  assert (S12 : forall v, s12 v < 4096).
  { intro v. unfold s12, of_signed. change (Z.of_N (pow2 12)) with 4096%Z. pose proof (Z.mod_pos_bound v 4096). lia. }
  assert (Lo : forall v, N.land (s12 v) 15 < 256).
  { intro v. pose proof (land_le_r (s12 v) 15). lia. }
  assert (Hi : forall v, N.shiftr (s12 v) 4 < 256).
  { intro v. rewrite N.shiftr_div_pow2. change (2 ^ 4) with 16. specialize (S12 v). apply N.div_lt_upper_bound; lia. }
  assert (Sa : forall p r v, bytes_ok (opt_sample p r v)).
  { intros [|] [|] v; unfold opt_sample, enc_sample, bytes_ok; repeat (apply Forall_cons; [auto|]); apply Forall_nil. }
  intros [ax r x y z | s b a | b0 b1 b2] W; unfold bytes_ok, encode_frame.
  - destruct W as [Hax _]. apply Forall_cons; [destruct r; lia|].
    apply Forall_app. split; [apply Sa|]. apply Forall_app. split; apply Sa.
  - apply Forall_cons; [reflexivity|]. apply Forall_cons; [destruct s, b, a; reflexivity | apply Forall_nil].
  - destruct W as [H0 [H1 H2]]. repeat (apply Forall_cons; [first [reflexivity | assumption]|]). apply Forall_nil.
Qed.

(* ---- list plumbing ---- *)
Lemma nth_app_len : forall (pre : list N) x r, nth (N.to_nat (len pre)) (pre ++ x :: r) 0 = x.
Proof. intros pre x r. unfold len. rewrite Nat2N.id, app_nth2 by lia. replace (length pre - length pre)%nat with 0%nat by lia. reflexivity. Qed.
Lemma skipn_app_len : forall (pre s : list N), skipn (N.to_nat (len pre)) (pre ++ s) = s.
Proof. intros pre s. unfold len. rewrite Nat2N.id, skipn_app, skipn_all. replace (length pre - length pre)%nat with 0%nat by lia. reflexivity. Qed.
Lemma firstn_app_len : forall (e r : list N), firstn (N.to_nat (len e)) (e ++ r) = e.
Proof. intros e r. unfold len. rewrite Nat2N.id, firstn_app. replace (length e - length e)%nat with 0%nat by lia. rewrite firstn_all. cbn. apply app_nil_r. Qed.
Lemma len_app : forall (a b : list N), len (a ++ b) = len a + len b.
Proof. intros a b. unfold len. rewrite app_length. lia. Qed.

(* one step of the specification parser on an encoded frame *)
Lemma next_on_frame : forall f pre rest, wf_frame f ->
  next_spec (mk_FifoFrames (len pre) (pre ++ encode_frame f ++ rest))
  = (mk_FifoFrames (len pre + len (encode_frame f)) (pre ++ encode_frame f ++ rest), Some (mk_Frame (encode_frame f))).
Proof.
  intros f pre rest W. destruct (frame_header f W) as [h [ps [E [Hh [He Hp]]]]].
  unfold next_spec. cbv [FifoFrames_index FifoFrames_bytes].
  assert (L : len (pre ++ encode_frame f ++ rest) = len pre + len (encode_frame f) + len rest) by (rewrite !len_app; lia).
  assert (Lf : 1 <= len (encode_frame f)) by (rewrite E; unfold len; cbn [length]; lia).
  destruct (N.leb (len (pre ++ encode_frame f ++ rest)) (len pre)) eqn:E0; [apply N.leb_le in E0; lia|].
  replace (nth (N.to_nat (len pre)) (pre ++ encode_frame f ++ rest) 0) with h by (rewrite E; cbn [app]; rewrite nth_app_len; reflexivity).
  rewrite He. rewrite Hp.
  destruct (N.ltb (len (pre ++ encode_frame f ++ rest)) (len pre + len (encode_frame f))) eqn:E1; [apply N.ltb_lt in E1; lia|].
  rewrite skipn_app_len, firstn_app_len. reflexivity.
Qed.

(* the tail after the last complete frame: nothing, the empty marker, or a frame cut off by the end of the buffer *)
Definition tail_ok (tail : list N) : Prop :=
  tail = [] \/ (exists h r, tail = h :: r /\ h < 256 /\ spec_empty h = true)
  \/ (exists f more, wf_frame f /\ more <> [] /\ encode_frame f = tail ++ more /\ tail <> []).

Lemma next_on_tail : forall pre tail, tail_ok tail -> exists it', next_spec (mk_FifoFrames (len pre) (pre ++ tail)) = (it', None).
Proof.
  intros pre tail [E | [[h [r [E [Hh He]]]] | [f [more [W [Hm [E Hne]]]]]]]; unfold next_spec; cbv [FifoFrames_index FifoFrames_bytes].
  - subst tail. rewrite app_nil_r, N.leb_refl. eexists. reflexivity.
  - subst tail. assert (L : len (pre ++ h :: r) = len pre + 1 + len r) by (rewrite len_app; unfold len; cbn [length]; lia).
    destruct (N.leb (len (pre ++ h :: r)) (len pre)) eqn:E0; [apply N.leb_le in E0; lia|].
    rewrite nth_app_len, He. eexists. reflexivity.
  - destruct (frame_header f W) as [h [ps [Ef [Hh [He Hp]]]]].
    destruct tail as [|t tr]; [congruence|].
    assert (t = h) by (rewrite Ef in E; cbn in E; congruence). subst t.
    assert (L : len (pre ++ h :: tr) = len pre + len (h :: tr)) by apply len_app.
    assert (L2 : len (encode_frame f) = len (h :: tr) + len more) by (rewrite E; apply len_app).
    assert (Lm : 1 <= len more) by (destruct more; [congruence | unfold len; cbn [length]; lia]).
    assert (L1 : 1 <= len (h :: tr)) by (unfold len; cbn [length]; lia).
    destruct (N.leb (len (pre ++ h :: tr)) (len pre)) eqn:E0; [apply N.leb_le in E0; lia|].
    rewrite nth_app_len, He.
    destruct (N.ltb (len (pre ++ h :: tr)) (len pre + (spec_payload h + 1))) eqn:E1; [eexists; reflexivity|].
    apply N.ltb_ge in E1. lia.
Qed.

(* ---- whole streams: induction on the list of frames ---- *)
Theorem stream_decodes : forall fs pre tail fuel, Forall wf_frame fs -> tail_ok tail -> (length fs < fuel)%nat ->
  iter_spec fuel (mk_FifoFrames (len pre) (pre ++ concat (map encode_frame fs) ++ tail))
  = Some (map (fun f => mk_Frame (encode_frame f)) fs).
Proof.
  induction fs as [|f fs IH]; intros pre tail fuel W T F.
  - cbn [map concat app]. destruct fuel as [|k]; [lia|]. cbn [iter_spec].
    destruct (next_on_tail pre tail T) as [it' E]. rewrite E. reflexivity.
  - destruct fuel as [|k]; [cbn in F; lia|]. cbn [iter_spec map concat].
    inversion W as [|? ? Wf Wfs]; subst.
    rewrite <- app_assoc. rewrite (next_on_frame f pre _ Wf).
    specialize (IH (pre ++ encode_frame f) tail k Wfs T ltac:(cbn in F; lia)).
    rewrite len_app in IH. rewrite <- app_assoc in IH. rewrite IH. reflexivity.
Qed.
