(* OdrInv.v — C06: "no interrupt is left enabled at an output data rate it cannot use" as a predicate on the
   shadow configuration that holds at EVERY point at which a call can end (after a normal return, a rejection, a
   panic, and before every bus transaction, i.e. wherever a transport failure can cut the call short), for every
   transport and every fault plan — the shadow only changes by `Put`.  The rule table comes from the datasheet
   (spec/Datasheet.v: ds_odr_rules).  With C16 (belief = device at every exit) the device satisfies it too. *)
Require Import BMA.lib.Base BMA.lib.Reflect BMA.gen.GenTypes BMA.gen.GenPure BMA.lib.Prog BMA.gen.GenProg BMA.gen.GenMeta
               BMA.gen.GenLens BMA.lib.Run BMA.proofs.Generic BMA.proofs.Symex BMA.proofs.BuilderSpec BMA.spec.Datasheet.
From Coq Require Import Lia.
Open Scope N_scope.

(* one rule: the interrupt is disabled, or it is on filter 2, or the ODR field holds the required code *)
Definition rule_ok (f : N -> N) (r : N * N * N * N * N * N) : bool :=
  match r with (en, em, sa, sm, code, _) =>
    negb (intersects (f en) em) || intersects (f sa) sm || N.eqb (N.land (f ds_odr_addr) ds_odr_mask) code end.
Definition ov_f (f : N -> N) : bool := forallb (rule_ok f) ds_odr_rules.
Definition ov (d : Config) : bool := ov_f (shv d).
Definition OdrValid (c : chip) : Prop := ov_f (regs c) = true.
(* the rules of one error kind (0: tap, 1: filter-1 interrupts) *)
Definition kind_ok (k : N) (f : N -> N) : bool :=
  forallb (fun r => match r with (_, _, _, _, _, k') => negb (N.eqb k k') || rule_ok f r end) ds_odr_rules.

(* ---- "ov at every exit", with a postcondition for the two driver-made exits ---- *)
Fixpoint wpx {A} (p : prog A) (d : Config) (Q : A -> Config -> Prop) (QF : BMA400Error -> Config -> Prop) : Prop :=
  match p with
  | Ret a => Q a d
  | Fail e => QF e d
  | PanicP => ov d = true
  | FuelP => ov d = true
  | Write a v k => ov d = true /\ wpx k d Q QF
  | Read a n k => ov d = true /\ forall l, wpx (k l) d Q QF
  | Delay ms k => wpx k d Q QF
  | Get k => wpx (k d) d Q QF
  | Put d' k => wpx k d' Q QF
  end.

Lemma wpx_bind : forall A B (p : prog A) (f : A -> prog B) d Q QF,
  wpx (bind p f) d Q QF <-> wpx p d (fun a d1 => wpx (f a) d1 Q QF) QF.
Proof.
  intros A B p f. induction p as [a|e| | |a v k IH|a n k IH|ms k IH|k IH|d' k IH]; intros d Q QF; cbn [bind wpx]; try tauto.
  - rewrite IH. tauto.
  - split; intros [H1 H2]; (split; [exact H1|]); intro l; apply (IH l); apply H2.
  - apply IH.
  - apply IH.
  - apply IH.
Qed.

Lemma wpx_mono : forall A (p : prog A) d (Q Q' : A -> Config -> Prop) (QF QF' : BMA400Error -> Config -> Prop),
  (forall a d1, Q a d1 -> Q' a d1) -> (forall e d1, QF e d1 -> QF' e d1) -> wpx p d Q QF -> wpx p d Q' QF'.
Proof.
  intros A p. induction p as [a|e| | |a v k IH|a n k IH|ms k IH|k IH|d' k IH]; intros d Q Q' QF QF' HQ HF H; cbn [wpx] in *; auto.
  - destruct H as [H1 H2]. split; [exact H1|]. apply (IH d Q Q' QF QF' HQ HF H2).
  - destruct H as [H1 H2]. split; [exact H1|]. intro l. apply (IH l d Q Q' QF QF' HQ HF (H2 l)).
  - apply (IH d Q Q' QF QF' HQ HF H).
  - apply (IH d d Q Q' QF QF' HQ HF H).
  - apply (IH d' Q Q' QF QF' HQ HF H).
Qed.

(* soundness for every transport and fault plan: whatever way the call ends, the shadow satisfies ov *)
Theorem wpx_run : forall A T (p : prog A) w Q QF,
  wpx p (shadow w) Q QF -> (forall a d, Q a d -> ov d = true) -> (forall e d, QF e d -> ov d = true) ->
  ov (shadow (world_of (run T p w))) = true.
Proof.
  intros A T p. induction p as [a|e| | |a v k IH|a n k IH|ms k IH|k IH|d' k IH]; intros w Q QF H HQ HF; cbn [wpx run world_of] in *.
  - apply (HQ a). exact H.
  - apply (HF e). exact H.
  - exact H.
  - exact H.
  - destruct H as [H1 H2]. destruct (t_write T a v (hst w)) as [r h]. destruct r as [e|]; cbn [world_of].
    + exact H1.
    + apply (IH (log_ev (EvWrite a v) h w) Q QF); assumption.
  - destruct H as [H1 H2]. destruct (t_read T a n (hst w)) as [r h]. destruct r as [e|l]; cbn [world_of].
    + exact H1.
    + apply (IH l (log_ev (EvRead a n) h w) Q QF); [apply H2 | assumption | assumption].
  - apply (IH _ Q QF); assumption.
  - apply (IH (shadow w) w Q QF); assumption.
  - apply (IH (mk_world d' (hst w) (journal w)) Q QF); assumption.
Qed.

(* over the register-level transport a failure that is not driver-made is a bus error *)
Definition bus_error (e : BMA400Error) : Prop := match e with BMA400Error_IOError _ | BMA400Error_ChipSelectPinError _ => True | _ => False end.
Theorem wpx_run_reg : forall A (p : prog A) w Q QF, wpx p (shadow w) Q QF ->
  match run T_reg p w with
  | Done a w' => Q a (shadow w')
  | Failed e w' => bus_error e \/ QF e (shadow w')
  | _ => True
  end.
Proof.
  intros A p. induction p as [a|e| | |a v k IH|a n k IH|ms k IH|k IH|d' k IH]; intros w Q QF H; cbn [wpx run] in *; auto.
  - destruct H as [_ H]. cbn [t_write T_reg]. unfold reg_write, attempt. destruct (faulty (hst w)).
    + left. exact I.
    + apply IH. exact H.
  - destruct H as [_ H]. cbn [t_read T_reg]. unfold reg_read, attempt. destruct (faulty (hst w)).
    + left. exact I.
    + destruct (chip_read a n (hchip (log_raw (HReg false a n) true (hst w)))) as [l c]. apply IH. apply H.
  - apply IH. exact H.
  - apply IH. exact H.
  - apply (IH (mk_world d' (hst w) (journal w))). exact H.
Qed.

(* soundness for the fault-free symbolic run: the two driver-made exits satisfy their postconditions *)
Theorem wpx_semx : forall A (p : prog A) d g j Q QF, wpx p d Q QF ->
  match semx p d g j with XDone a d' _ _ => Q a d' | XFailed e d' _ _ => QF e d' | XOther => True end.
Proof.
  intros A p. induction p as [a|e| | |a v k IH|a n k IH|ms k IH|k IH|d' k IH]; intros d g j Q QF H; cbn [wpx semx] in *; auto.
  - destruct H as [_ H]. apply IH. exact H.
  - apply IH. exact H.
  - apply IH. exact H.
Qed.

(* ---- a program that keeps ov at every exit, from every ov state ---- *)
Definition keeps {A} (p : prog A) : Prop := forall d, ov d = true -> wpx p d (fun _ d' => ov d' = true) (fun _ d' => ov d' = true).

Lemma keeps_ret : forall A (a : A), keeps (Ret a). Proof. intros A a d H. exact H. Qed.
Lemma keeps_fail : forall A e, @keeps A (Fail e). Proof. intros A e d H. exact H. Qed.
Lemma keeps_panic : forall A, @keeps A PanicP. Proof. intros A d H. exact H. Qed.
Lemma keeps_fuel : forall A, @keeps A FuelP. Proof. intros A d H. exact H. Qed.
Lemma keeps_bind : forall A B (p : prog A) (f : A -> prog B), keeps p -> (forall a, keeps (f a)) -> keeps (bind p f).
Proof.
  intros A B p f Hp Hf d H. apply wpx_bind. apply (wpx_mono _ p d (fun _ d' => ov d' = true) _ (fun _ d' => ov d' = true) _); [| | apply Hp; exact H].
  - intros a d1 H1. apply Hf. exact H1.
  - intros e d1 H1. exact H1.
Qed.
Lemma keeps_write : forall a v, keeps (write_register a v). Proof. intros a v d H. cbn. split; exact H. Qed.
Lemma keeps_read : forall a n, keeps (read_register a n). Proof. intros a n d H. cbn. split; [exact H | intro l; exact H]. Qed.
Lemma keeps_delay : forall ms, keeps (delay_ms ms). Proof. intros ms d H. exact H. Qed.
Lemma keeps_get : keeps get_shadow. Proof. intros d H. exact H. Qed.
Lemma keeps_lift : forall A (r : res A), keeps (lift_res r). Proof. intros A [a| |] d H; exact H. Qed.
Lemma keeps_let : forall X A (e : X) (f : X -> prog A), (forall x, keeps (f x)) -> keeps (let x := e in f x).
Proof. intros X A e f H. exact (H e). Qed.
(* a shadow update that leaves the registers of the rule table alone *)
Lemma keeps_modify : forall f, (forall d, ov (f d) = ov d) -> keeps (modify f).
Proof. intros f Hf d H. unfold modify. cbn [wpx]. rewrite Hf. exact H. Qed.
Lemma keeps_put : forall d0, ov d0 = true -> keeps (put_shadow d0). Proof. intros d0 H0 d H. exact H0. Qed.

(* the rules speak about the shadow: with C16 they hold of the device *)
Lemma intersects_0 : forall x, intersects x 0 = false. Proof. intro x. unfold intersects. rewrite N.land_0_r. reflexivity. Qed.
Lemma ov_f_ext : forall f g, (forall a, In a [26; 31; 32; 63; 74; 86] -> f a = g a) -> ov_f f = ov_f g.
Proof.
  intros f g H. unfold ov_f, ds_odr_rules, rule_ok, ds_odr_addr. cbn [forallb].
  rewrite !(H 26), !(H 31), !(H 32), !(H 63), !(H 74), !(H 86), !intersects_0; cbn; auto 10.
Qed.
