(* Generic.v — theorems about EVERY program of the free monad (DESIGN.md section 6.2):
   the two transports carry a register transaction exactly like the register-level pseudo
   transport (framing, chip effect, chip-select discipline); a program therefore behaves
   identically over I2C, over SPI and at register level (C12, C13, C14); a failing HAL call
   stops the program at once with that very error (C15) and a failed SPI transfer still
   releases chip-select (C20). *)
Require Import BMA.lib.Base BMA.lib.Reflect BMA.gen.GenTypes BMA.lib.Prog BMA.lib.Run.
From Coq Require Import Lia.
Open Scope N_scope.

(* ------------------------------------------------------------------ basics *)
Lemma run_bind : forall A B T (p : prog A) (f : A -> prog B) w,
  run T (bind p f) w = match run T p w with
                       | Done a w' => run T (f a) w'
                       | Failed e w' => Failed e w'
                       | Panicked w' => Panicked w'
                       | OutOfFuel w' => OutOfFuel w'
                       end.
Proof.
  intros A B T p f. induction p as [a|e| | |a v k IH|a n k IH|ms k IH|k IH|c k IH]; intro w; cbn [bind run]; try reflexivity.
  - destruct (t_write T a v (hst w)) as [r h]. destruct r; [reflexivity | apply IH].
  - destruct (t_read T a n (hst w)) as [r h]. destruct r; [reflexivity | apply IH].
  - apply IH.
  - apply IH.
  - apply IH.
Qed.

Lemma low7 : forall a, a < 128 -> N.land a 127 = a /\ N.land a 128 = 0 /\ N.land (N.lor a 128) 127 = a /\ N.eqb (N.land (N.lor a 128) 128) 0 = false.
Proof.
  intros a H. assert (Ha : a < 256) by lia.
  assert (E : (N.leb 128 a || (N.eqb (N.land a 127) a && N.eqb (N.land a 128) 0 && N.eqb (N.land (N.lor a 128) 127) a
               && negb (N.eqb (N.land (N.lor a 128) 128) 0)))%bool = true).
  { clear H. revert a Ha. refine (u8_true _ _). vm_compute. reflexivity. }
  destruct (N.leb_spec 128 a); [lia|]. cbn [orb] in E.
  repeat (apply andb_prop in E; destruct E as [E ?]).
  repeat split; try (apply N.eqb_eq; assumption). apply negb_true_iff. assumption.
Qed.

Lemma chip_eta : forall c, mk_chip (regs c) (fifo c) (st_pos c) (st_neg c) = c.
Proof. destruct c; reflexivity. Qed.

(* ------------------------------------------------------------------ what one transaction does, per transport *)
(* the HAL calls of one register transaction (datasheet framing), as a function of the event *)
Definition frame_i2c (dev : N) (e : event) : list hcall :=
  match e with
  | EvWrite a v => [HI2cWrite dev [a; v]]
  | EvRead a n => [HI2cWriteRead dev [a] n]
  | EvDelay ms => [HDelay ms]
  end.
Definition frame_spi (e : event) : list hcall :=
  match e with
  | EvWrite a v => [HSetLow; HSpiWrite [a; v]; HSetHigh]
  | EvRead a n => [HSetLow; HSpiTransfer [N.lor a 128; 0]; HSpiTransfer (repeatN 0 n); HSetHigh]
  | EvDelay ms => [HDelay ms]
  end.
Definition frame_reg (e : event) : list hcall :=
  match e with
  | EvWrite a v => [HReg true a v]
  | EvRead a n => [HReg false a n]
  | EvDelay ms => [HDelay ms]
  end.

(* a bus in its quiet state: no planned fault, chip-select high, decoder idle *)
Definition quiet (h : hstate) : Prop := faults h = [] /\ cs_low h = false /\ win h = WIdle.
(* the state after a successful transaction: chip as given, journal extended, n more calls, still quiet *)
Definition after (h : hstate) (c : chip) (calls : list hcall) : hstate :=
  mk_hstate c (raw h ++ calls) (ncalls h + len calls) (faults h) false WIdle (strap h) (stray h).

Lemma faulty_quiet : forall h, faults h = [] -> faulty h = false.
Proof. intros h H. unfold faulty. rewrite H. reflexivity. Qed.

Lemma reg_write_quiet : forall a v h, quiet h -> reg_write a v h = (None, after h (chip_write a v (hchip h)) (frame_reg (EvWrite a v))).
Proof.
  intros a v h [F [C W]]. unfold reg_write, attempt. rewrite (faulty_quiet h F).
  unfold after, log_raw, set_chip. cbn. rewrite C, W. reflexivity.
Qed.
Lemma reg_read_quiet : forall a n h, quiet h ->
  reg_read a n h = (inr (fst (chip_read a n (hchip h))), after h (snd (chip_read a n (hchip h))) (frame_reg (EvRead a n))).
Proof.
  intros a n h [F [C W]]. unfold reg_read, attempt. rewrite (faulty_quiet h F).
  unfold log_raw. cbn [hchip]. destruct (chip_read a n (hchip h)) as [l c]. unfold after, set_chip. cbn. rewrite C, W. reflexivity.
Qed.

Lemma i2c_write_quiet : forall a v h, quiet h -> a < 256 ->
  i2c_write (strap h) a v h = (None, after h (chip_write a v (hchip h)) (frame_i2c (strap h) (EvWrite a v))).
Proof.
  intros a v h [F [C W]] Ha. unfold i2c_write, hal_i2c_write, attempt. rewrite (faulty_quiet h F).
  unfold log_raw. cbn [strap]. rewrite N.eqb_refl. cbn [negb write_seq hchip].
  unfold after, set_chip. cbn. rewrite C, W. reflexivity.
Qed.
Lemma i2c_read_quiet : forall a n h, quiet h -> a < 256 ->
  i2c_read (strap h) a n h = (inr (fst (chip_read a n (hchip h))), after h (snd (chip_read a n (hchip h))) (frame_i2c (strap h) (EvRead a n))).
Proof.
  intros a n h [F [C W]] Ha. unfold i2c_read, hal_i2c_write_read, attempt. rewrite (faulty_quiet h F).
  unfold log_raw. cbn [strap]. rewrite N.eqb_refl. cbn [negb write_seq hchip len length].
  assert (E : N.land (a + @len N []) 255 = a).
  { change (@len N []) with 0. rewrite N.add_0_r. change 255 with (N.ones 8). rewrite N.land_ones. apply N.mod_small. exact Ha. }
  rewrite E.
  destruct (chip_read a n (hchip h)) as [l c]. unfold after, set_chip. cbn. rewrite C, W. reflexivity.
Qed.

Lemma len_repeatN : forall v n, len (repeatN v n) = n.
Proof. intros v n. unfold len, repeatN. rewrite repeat_length. lia. Qed.

Lemma hstate_ext : forall h1 h2, hchip h1 = hchip h2 -> raw h1 = raw h2 -> ncalls h1 = ncalls h2 -> faults h1 = faults h2 ->
  cs_low h1 = cs_low h2 -> win h1 = win h2 -> strap h1 = strap h2 -> stray h1 = stray h2 -> h1 = h2.
Proof. intros [] []; cbn; intros; subst; reflexivity. Qed.

Lemma p_hchip_set_chip : forall c h, hchip (set_chip c h) = c. Proof. reflexivity. Qed.
Lemma p_raw_set_chip : forall c h, raw (set_chip c h) = raw h. Proof. reflexivity. Qed.
Lemma p_ncalls_set_chip : forall c h, ncalls (set_chip c h) = ncalls h. Proof. reflexivity. Qed.
Lemma p_faults_set_chip : forall c h, faults (set_chip c h) = faults h. Proof. reflexivity. Qed.
Lemma p_cs_low_set_chip : forall c h, cs_low (set_chip c h) = cs_low h. Proof. reflexivity. Qed.
Lemma p_win_set_chip : forall c h, win (set_chip c h) = win h. Proof. reflexivity. Qed.
Lemma p_strap_set_chip : forall c h, strap (set_chip c h) = strap h. Proof. reflexivity. Qed.
Lemma p_stray_set_chip : forall c h, stray (set_chip c h) = stray h. Proof. reflexivity. Qed.
Lemma p_hchip_set_cs : forall b w h, hchip (set_cs b w h) = hchip h. Proof. reflexivity. Qed.
Lemma p_raw_set_cs : forall b w h, raw (set_cs b w h) = raw h. Proof. reflexivity. Qed.
Lemma p_ncalls_set_cs : forall b w h, ncalls (set_cs b w h) = ncalls h. Proof. reflexivity. Qed.
Lemma p_faults_set_cs : forall b w h, faults (set_cs b w h) = faults h. Proof. reflexivity. Qed.
Lemma p_cs_low_set_cs : forall b w h, cs_low (set_cs b w h) = b. Proof. reflexivity. Qed.
Lemma p_win_set_cs : forall b w h, win (set_cs b w h) = w. Proof. reflexivity. Qed.
Lemma p_strap_set_cs : forall b w h, strap (set_cs b w h) = strap h. Proof. reflexivity. Qed.
Lemma p_stray_set_cs : forall b w h, stray (set_cs b w h) = stray h. Proof. reflexivity. Qed.
Lemma p_hchip_set_win : forall w h, hchip (set_win w h) = hchip h. Proof. reflexivity. Qed.
Lemma p_raw_set_win : forall w h, raw (set_win w h) = raw h. Proof. reflexivity. Qed.
Lemma p_ncalls_set_win : forall w h, ncalls (set_win w h) = ncalls h. Proof. reflexivity. Qed.
Lemma p_faults_set_win : forall w h, faults (set_win w h) = faults h. Proof. reflexivity. Qed.
Lemma p_cs_low_set_win : forall w h, cs_low (set_win w h) = cs_low h. Proof. reflexivity. Qed.
Lemma p_win_set_win : forall w h, win (set_win w h) = w. Proof. reflexivity. Qed.
Lemma p_strap_set_win : forall w h, strap (set_win w h) = strap h. Proof. reflexivity. Qed.
Lemma p_stray_set_win : forall w h, stray (set_win w h) = stray h. Proof. reflexivity. Qed.
Lemma p_hchip_log_raw : forall c b h, hchip (log_raw c b h) = hchip h. Proof. reflexivity. Qed.
Lemma p_raw_log_raw : forall c b h, raw (log_raw c b h) = raw h ++ [c]. Proof. reflexivity. Qed.
Lemma p_ncalls_log_raw : forall c b h, ncalls (log_raw c b h) = if b then ncalls h + 1 else ncalls h. Proof. reflexivity. Qed.
Lemma p_faults_log_raw : forall c b h, faults (log_raw c b h) = faults h. Proof. reflexivity. Qed.
Lemma p_cs_low_log_raw : forall c b h, cs_low (log_raw c b h) = cs_low h. Proof. reflexivity. Qed.
Lemma p_win_log_raw : forall c b h, win (log_raw c b h) = win h. Proof. reflexivity. Qed.
Lemma p_strap_log_raw : forall c b h, strap (log_raw c b h) = strap h. Proof. reflexivity. Qed.
Lemma p_stray_log_raw : forall c b h, stray (log_raw c b h) = stray h. Proof. reflexivity. Qed.
Lemma p_hchip_after : forall h c calls, hchip (after h c calls) = c. Proof. reflexivity. Qed.
Lemma p_raw_after : forall h c calls, raw (after h c calls) = raw h ++ calls. Proof. reflexivity. Qed.
Lemma p_ncalls_after : forall h c calls, ncalls (after h c calls) = ncalls h + len calls. Proof. reflexivity. Qed.
Lemma p_faults_after : forall h c calls, faults (after h c calls) = faults h. Proof. reflexivity. Qed.
Lemma p_cs_low_after : forall h c calls, cs_low (after h c calls) = false. Proof. reflexivity. Qed.
Lemma p_win_after : forall h c calls, win (after h c calls) = WIdle. Proof. reflexivity. Qed.
Lemma p_strap_after : forall h c calls, strap (after h c calls) = strap h. Proof. reflexivity. Qed.
Lemma p_stray_after : forall h c calls, stray (after h c calls) = stray h. Proof. reflexivity. Qed.
#[export] Hint Rewrite p_hchip_set_chip p_raw_set_chip p_ncalls_set_chip p_faults_set_chip p_cs_low_set_chip p_win_set_chip p_strap_set_chip p_stray_set_chip p_hchip_set_cs p_raw_set_cs p_ncalls_set_cs p_faults_set_cs p_cs_low_set_cs p_win_set_cs p_strap_set_cs p_stray_set_cs p_hchip_set_win p_raw_set_win p_ncalls_set_win p_faults_set_win p_cs_low_set_win p_win_set_win p_strap_set_win p_stray_set_win p_hchip_log_raw p_raw_log_raw p_ncalls_log_raw p_faults_log_raw p_cs_low_log_raw p_win_log_raw p_strap_log_raw p_stray_log_raw p_hchip_after p_raw_after p_ncalls_after p_faults_after p_cs_low_after p_win_after p_strap_after p_stray_after : hproj.
Ltac hstate_eq := apply hstate_ext; autorewrite with hproj; rewrite <- ?app_assoc; cbn [app frame_spi frame_i2c frame_reg]; try reflexivity; try (unfold len; cbn [length]; lia).

(* HAL primitives without a planned fault *)
Lemma attempt_ok : forall c h, faults h = [] -> attempt c h = (None, log_raw c true h).
Proof. intros c h F. unfold attempt. rewrite (faulty_quiet h F). reflexivity. Qed.
Lemma set_low_ok : forall h, faults h = [] -> cs_low h = false -> hal_set_low h = (None, set_cs true WIdle (log_raw HSetLow true h)).
Proof. intros h F C. unfold hal_set_low. rewrite (attempt_ok _ h F). cbn [log_raw cs_low]. rewrite C. reflexivity. Qed.
Lemma set_high_ok : forall h, faults h = [] -> hal_set_high h = (None, set_cs false WIdle (log_raw HSetHigh true h)).
Proof. intros h F. unfold hal_set_high. rewrite (attempt_ok _ h F). reflexivity. Qed.
Lemma spi_write_ok : forall bs h, faults h = [] -> cs_low h = true ->
  hal_spi_write bs h = (None, snd (spi_clock bs (log_raw (HSpiWrite bs) true h))).
Proof. intros bs h F C. unfold hal_spi_write. rewrite (attempt_ok _ h F). unfold spi_bytes. cbn [log_raw cs_low]. rewrite C. reflexivity. Qed.
Lemma spi_transfer_ok : forall bs h, faults h = [] -> cs_low h = true ->
  hal_spi_transfer bs h = (inr (fst (spi_clock bs (log_raw (HSpiTransfer bs) true h))), snd (spi_clock bs (log_raw (HSpiTransfer bs) true h))).
Proof.
  intros bs h F C. unfold hal_spi_transfer. rewrite (attempt_ok _ h F). unfold spi_bytes. cbn [log_raw cs_low]. rewrite C.
  destruct (spi_clock bs _); reflexivity.
Qed.

(* what the chip's SPI decoder does with the bytes of a write / of the two phases of a read *)
Lemma clock_write : forall a v h, a < 128 -> win h = WIdle ->
  exists w', snd (spi_clock [a; v] h) = set_win w' (set_chip (chip_write a v (hchip h)) h).
Proof.
  intros a v h Ha W. destruct (low7 a Ha) as [L1 [L2 _]].
  cbn [spi_clock]. rewrite W. cbn [spi_clock win set_win]. rewrite L2. change (0 =? 0) with true. cbv iota.
  cbn [spi_clock fst snd]. autorewrite with hproj. rewrite L1. eexists. hstate_eq.
Qed.
Lemma clock_read_addr : forall a h, a < 128 -> win h = WIdle ->
  snd (spi_clock [N.lor a 128; 0] h) = set_win (WOpen (N.lor a 128) true a) h.
Proof.
  intros a h Ha W. destruct (low7 a Ha) as [_ [_ [L3 L4]]].
  cbn [spi_clock]. rewrite W. cbn [spi_clock win set_win]. rewrite L4. cbn [negb]. cbn [spi_clock fst snd]. rewrite L3.
  hstate_eq.
Qed.
Lemma clock_read_data : forall a n h, a < 128 -> win h = WOpen (N.lor a 128) true a ->
  exists w', spi_clock (repeatN 0 n) h = (fst (chip_read a n (hchip h)), set_win w' (set_chip (snd (chip_read a n (hchip h))) h)).
Proof.
  intros a n h Ha W. destruct (low7 a Ha) as [_ [_ [_ L4]]].
  destruct (repeatN 0 n) as [|b bs] eqn:Er.
  - assert (n = 0) by (rewrite <- (len_repeatN 0 n), Er; reflexivity). subst n.
    assert (E0 : chip_read a 0 (hchip h) = ([], hchip h)).
    { unfold chip_read. destruct (N.eqb a 20); cbn [N.to_nat fifo_take read_seq skipn]; [rewrite chip_eta|]; reflexivity. }
    rewrite E0. cbn [spi_clock fst snd]. exists (win h). destruct h; reflexivity.
  - cbn [spi_clock]. rewrite W. rewrite L4. cbn [negb].
    assert (El : len (b :: bs) = n) by (rewrite <- Er; apply len_repeatN). rewrite El.
    destruct (chip_read a n (hchip h)) as [l c]. cbn [fst snd]. eexists. f_equal.
Qed.

Lemma spi_write_quiet : forall a v h, quiet h -> a < 128 ->
  spi_write a v h = (None, after h (chip_write a v (hchip h)) (frame_spi (EvWrite a v))).
Proof.
  intros a v h [F [C W]] Ha. unfold spi_write.
  rewrite (set_low_ok h F C).
  set (h0 := set_cs true WIdle (log_raw HSetLow true h)).
  rewrite (spi_write_ok [a; v] h0 F eq_refl).
  destruct (clock_write a v (log_raw (HSpiWrite [a; v]) true h0) Ha eq_refl) as [w' E]. rewrite E.
  set (h1 := set_win w' _).
  rewrite (set_high_ok h1 F).
  f_equal. subst h1 h0. hstate_eq.
Qed.

Lemma spi_read_quiet : forall a n h, quiet h -> a < 128 ->
  spi_read a n h = (inr (fst (chip_read a n (hchip h))), after h (snd (chip_read a n (hchip h))) (frame_spi (EvRead a n))).
Proof.
  intros a n h [F [C W]] Ha. unfold spi_read.
  rewrite (set_low_ok h F C).
  set (h0 := set_cs true WIdle (log_raw HSetLow true h)).
  rewrite (spi_transfer_ok [N.lor a 128; 0] h0 F eq_refl).
  rewrite (clock_read_addr a (log_raw (HSpiTransfer [N.lor a 128; 0]) true h0) Ha eq_refl).
  set (h1 := set_win _ _).
  rewrite (spi_transfer_ok (repeatN 0 n) h1 F eq_refl).
  destruct (clock_read_data a n (log_raw (HSpiTransfer (repeatN 0 n)) true h1) Ha eq_refl) as [w' E]. rewrite E.
  cbn [fst snd]. set (h2 := set_win w' _).
  rewrite (set_high_ok h2 F).
  f_equal. subst h2 h1 h0. hstate_eq.
Qed.

(* ------------------------------------------------------------------ register-level semantics without faults *)
Inductive aout (A : Type) : Type :=
| ADone (a : A) (d : Config) (c : chip) (evs : list event)
| AFailed (e : BMA400Error) (d : Config) (c : chip) (evs : list event)
| APanic (d : Config) (c : chip) (evs : list event)
| AFuel (d : Config) (c : chip) (evs : list event).
Arguments ADone {A} a d c evs. Arguments AFailed {A} e d c evs. Arguments APanic {A} d c evs. Arguments AFuel {A} d c evs.

Fixpoint sem {A} (p : prog A) (d : Config) (c : chip) (evs : list event) : aout A :=
  match p with
  | Ret a => ADone a d c evs
  | Fail e => AFailed e d c evs
  | PanicP => APanic d c evs
  | FuelP => AFuel d c evs
  | Write a v k => sem k d (chip_write a v c) (evs ++ [EvWrite a v])
  | Read a n k => sem (k (fst (chip_read a n c))) d (snd (chip_read a n c)) (evs ++ [EvRead a n])
  | Delay ms k => sem k d c (evs ++ [EvDelay ms])
  | Get k => sem (k d) d c evs
  | Put d' k => sem k d' c evs
  end.
Definition a_events {A} (o : aout A) : list event :=
  match o with ADone _ _ _ e => e | AFailed _ _ _ e => e | APanic _ _ e => e | AFuel _ _ e => e end.
Definition a_shadow {A} (o : aout A) : Config :=
  match o with ADone _ d _ _ => d | AFailed _ d _ _ => d | APanic d _ _ => d | AFuel d _ _ => d end.
Definition a_chip {A} (o : aout A) : chip :=
  match o with ADone _ _ c _ => c | AFailed _ _ c _ => c | APanic _ c _ => c | AFuel _ c _ => c end.

Lemma sem_events_extend : forall A (p : prog A) d c evs, exists tail, a_events (sem p d c evs) = evs ++ tail.
Proof.
  intros A p. induction p as [a|e| | |a v k IH|a n k IH|ms k IH|k IH|d' k IH]; intros d c evs; cbn [sem a_events];
    try (exists []; rewrite app_nil_r; reflexivity).
  - destruct (IH d (chip_write a v c) (evs ++ [EvWrite a v])) as [t E]. rewrite E, <- app_assoc. eexists. reflexivity.
  - destruct (IH (fst (chip_read a n c)) d (snd (chip_read a n c)) (evs ++ [EvRead a n])) as [t E]. rewrite E, <- app_assoc. eexists. reflexivity.
  - destruct (IH d c (evs ++ [EvDelay ms])) as [t E]. rewrite E, <- app_assoc. eexists. reflexivity.
  - apply IH.
  - apply IH.
Qed.

Definition ev_addr (e : event) : N := match e with EvWrite a _ => a | EvRead a _ => a | EvDelay _ => 0 end.
Definition addr_ok (e : event) : Prop := ev_addr e < 128.

Definition is_delay (c : hcall) : bool := match c with HDelay _ => true | _ => false end.
Definition nfall (l : list hcall) : N := len (filter (fun c => negb (is_delay c)) l).

(* a transport that carries every transaction like the register-level one, framed by `frame`, on buses satisfying `okT` *)
Record faithful (T : transport) (frame : event -> list hcall) (okT : hstate -> Prop) : Prop := {
  f_write : forall a v h, quiet h -> okT h -> a < 128 ->
            t_write T a v h = (None, after h (chip_write a v (hchip h)) (frame (EvWrite a v)));
  f_read : forall a n h, quiet h -> okT h -> a < 128 ->
           t_read T a n h = (inr (fst (chip_read a n (hchip h))), after h (snd (chip_read a n (hchip h))) (frame (EvRead a n)));
  f_ok : forall h c calls, okT h -> okT (after h c calls);
  f_ok_raw : forall h c b, okT h -> okT (log_raw c b h);
  f_delay : forall ms, frame (EvDelay ms) = [HDelay ms];
  f_nodelay_w : forall a v, nfall (frame (EvWrite a v)) = len (frame (EvWrite a v));
  f_nodelay_r : forall a n, nfall (frame (EvRead a n)) = len (frame (EvRead a n))
}.

Lemma faithful_reg : faithful T_reg frame_reg (fun _ => True).
Proof. constructor; intros; try exact I; try reflexivity; [apply reg_write_quiet | apply reg_read_quiet]; assumption. Qed.
Lemma faithful_i2c : forall dev, faithful (T_i2c dev) (frame_i2c dev) (fun h => strap h = dev).
Proof.
  intro dev. constructor; intros; try reflexivity; try assumption.
  - cbn [t_write T_i2c]. rewrite <- H0. apply i2c_write_quiet; [assumption | lia].
  - cbn [t_read T_i2c]. rewrite <- H0. apply i2c_read_quiet; [assumption | lia].
Qed.
Lemma faithful_spi : faithful T_spi frame_spi (fun _ => True).
Proof. constructor; intros; try exact I; try reflexivity; [apply spi_write_quiet | apply spi_read_quiet]; assumption. Qed.

(* the world reached by a transport run, described by the register-level semantics *)
Definition tracks (frame : event -> list hcall) (w0 w : world) (d : Config) (c : chip) (evs : list event) : Prop :=
  shadow w = d /\ hchip (hst w) = c /\ journal w = journal w0 ++ evs
  /\ raw (hst w) = raw (hst w0) ++ flat_map frame evs
  /\ ncalls (hst w) = ncalls (hst w0) + nfall (flat_map frame evs)
  /\ quiet (hst w) /\ strap (hst w) = strap (hst w0) /\ stray (hst w) = stray (hst w0).

Lemma len_app_gen : forall X (a b : list X), len (a ++ b) = len a + len b.
Proof. intros X a b. unfold len. rewrite app_length. lia. Qed.
Lemma nfall_app : forall a b, nfall (a ++ b) = nfall a + nfall b.
Proof. intros a b. unfold nfall. rewrite filter_app, len_app_gen. reflexivity. Qed.

Lemma tracks_after : forall frame w0 w evs e c',
  tracks frame w0 w (shadow w) (hchip (hst w)) evs -> nfall (frame e) = len (frame e) ->
  tracks frame w0 (log_ev e (after (hst w) c' (frame e)) w) (shadow w) c' (evs ++ [e]).
Proof.
  intros frame w0 w evs e c' [T1 [T2 [T3 [T4 [T5 [[Q1 [Q2 Q3]] [T7 T8]]]]]]] Hn.
  unfold tracks, log_ev, quiet. cbn [shadow hst journal]. autorewrite with hproj.
  rewrite flat_map_app. cbn [flat_map]. rewrite app_nil_r, nfall_app, Hn.
  repeat split; try assumption; try reflexivity.
  - rewrite T3, app_assoc. reflexivity.
  - rewrite T4, app_assoc. reflexivity.
  - rewrite T5. lia.
Qed.

Lemma tracks_delay : forall frame w0 w evs ms,
  tracks frame w0 w (shadow w) (hchip (hst w)) evs -> frame (EvDelay ms) = [HDelay ms] ->
  tracks frame w0 (log_ev (EvDelay ms) (log_raw (HDelay ms) false (hst w)) w) (shadow w) (hchip (hst w)) (evs ++ [EvDelay ms]).
Proof.
  intros frame w0 w evs ms [T1 [T2 [T3 [T4 [T5 [[Q1 [Q2 Q3]] [T7 T8]]]]]]] Hd.
  unfold tracks, log_ev, quiet. cbn [shadow hst journal]. autorewrite with hproj.
  rewrite flat_map_app. cbn [flat_map]. rewrite app_nil_r, nfall_app, Hd.
  repeat split; try assumption; try reflexivity.
  - rewrite T3, app_assoc. reflexivity.
  - rewrite T4, app_assoc. reflexivity.
  - rewrite T5. cbn. lia.
Qed.

Lemma forall_head : forall evs e tail, Forall addr_ok ((evs ++ [e]) ++ tail) -> addr_ok e.
Proof.
  intros evs e tail H. rewrite Forall_forall in H. apply H. apply in_or_app. left. apply in_or_app. right. left. reflexivity.
Qed.

Theorem run_tracks : forall A T frame okT, faithful T frame okT -> forall (p : prog A) w0 w evs,
  tracks frame w0 w (shadow w) (hchip (hst w)) evs -> okT (hst w) ->
  Forall addr_ok (a_events (sem p (shadow w) (hchip (hst w)) evs)) ->
  match sem p (shadow w) (hchip (hst w)) evs, run T p w with
  | ADone a d c evs', Done a' w' => a = a' /\ tracks frame w0 w' d c evs' /\ okT (hst w')
  | AFailed e d c evs', Failed e' w' => e = e' /\ tracks frame w0 w' d c evs' /\ okT (hst w')
  | APanic d c evs', Panicked w' => tracks frame w0 w' d c evs' /\ okT (hst w')
  | AFuel d c evs', OutOfFuel w' => tracks frame w0 w' d c evs' /\ okT (hst w')
  | _, _ => False
  end.
Proof.
  intros A T frame okT FT p. induction p as [a|e| | |a v k IH|a n k IH|ms k IH|k IH|d' k IH]; intros w0 w evs Tr Ok Ad; cbn [sem run].
  - split; [reflexivity | split; assumption].
  - split; [reflexivity | split; assumption].
  - split; assumption.
  - split; assumption.
  - cbn [sem] in Ad. destruct (sem_events_extend _ k (shadow w) (chip_write a v (hchip (hst w))) (evs ++ [EvWrite a v])) as [tail E].
    rewrite E in Ad. pose proof (forall_head _ _ _ Ad) as Ha. unfold addr_ok in Ha. cbn [ev_addr] in Ha. rewrite <- E in Ad.
    pose proof Tr as [_ [_ [_ [_ [_ [Q _]]]]]].
    rewrite (f_write _ _ _ FT a v (hst w) Q Ok Ha).
    set (w' := log_ev (EvWrite a v) (after (hst w) (chip_write a v (hchip (hst w))) (frame (EvWrite a v))) w).
    assert (Tr' : tracks frame w0 w' (shadow w') (hchip (hst w')) (evs ++ [EvWrite a v])).
    { apply (tracks_after frame w0 w evs (EvWrite a v) _ Tr). apply (f_nodelay_w _ _ _ FT). }
    apply (IH w0 w' (evs ++ [EvWrite a v]) Tr').
    + unfold w', log_ev. cbn [hst]. apply (f_ok _ _ _ FT). exact Ok.
    + exact Ad.
  - cbn [sem] in Ad.
    destruct (sem_events_extend _ (k (fst (chip_read a n (hchip (hst w))))) (shadow w) (snd (chip_read a n (hchip (hst w)))) (evs ++ [EvRead a n])) as [tail E].
    rewrite E in Ad. pose proof (forall_head _ _ _ Ad) as Ha. unfold addr_ok in Ha. cbn [ev_addr] in Ha. rewrite <- E in Ad.
    pose proof Tr as [_ [_ [_ [_ [_ [Q _]]]]]].
    rewrite (f_read _ _ _ FT a n (hst w) Q Ok Ha).
    set (w' := log_ev (EvRead a n) (after (hst w) (snd (chip_read a n (hchip (hst w)))) (frame (EvRead a n))) w).
    assert (Tr' : tracks frame w0 w' (shadow w') (hchip (hst w')) (evs ++ [EvRead a n])).
    { apply (tracks_after frame w0 w evs (EvRead a n) _ Tr). apply (f_nodelay_r _ _ _ FT). }
    apply (IH _ w0 w' (evs ++ [EvRead a n]) Tr').
    + unfold w', log_ev. cbn [hst]. apply (f_ok _ _ _ FT). exact Ok.
    + exact Ad.
  - set (w' := log_ev (EvDelay ms) (log_raw (HDelay ms) false (hst w)) w).
    assert (Tr' : tracks frame w0 w' (shadow w') (hchip (hst w')) (evs ++ [EvDelay ms])).
    { apply (tracks_delay frame w0 w evs ms Tr). apply (f_delay _ _ _ FT). }
    apply (IH w0 w' (evs ++ [EvDelay ms]) Tr').
    + unfold w', log_ev. cbn [hst]. apply (f_ok_raw _ _ _ FT). exact Ok.
    + exact Ad.
  - apply (IH (shadow w) w0 w evs Tr Ok Ad).
  - set (w' := mk_world d' (hst w) (journal w)).
    assert (Tr' : tracks frame w0 w' (shadow w') (hchip (hst w')) evs).
    { destruct Tr as [T1 [T2 [T3 [T4 [T5 [[Q1 [Q2 Q3]] [T7 T8]]]]]]]. unfold tracks, quiet, w'. cbn [shadow hst journal]. repeat split; try assumption; reflexivity. }
    apply (IH w0 w' evs Tr' Ok Ad).
Qed.

(* ------------------------------------------------------------------ a single failing HAL call (C15, C20) *)
Definition is_pin (c : hcall) : bool := match c with HSetLow | HSetHigh => true | _ => false end.
Definition err_of (c : hcall) (k : N) : BMA400Error :=
  if is_pin c then BMA400Error_ChipSelectPinError k else BMA400Error_IOError k.

(* what a transport operation may do when call number k is planned to fail: it extends the journal; if it reports an
   error, the failing call is in the extension at absolute index k, the error is that call's (bus error as IOError,
   pin error as ChipSelectPinError, token k) and nothing follows it except at most the chip-select release *)
Definition op_post (k : N) (h h' : hstate) (failed : option BMA400Error) : Prop :=
  faults h' = [k] /\ exists ext, raw h' = raw h ++ ext /\ ncalls h' = ncalls h + nfall ext /\
    match failed with
    | None => ncalls h <= k -> ncalls h' <= k
    | Some e => exists pre c post, ext = pre ++ c :: post /\ ncalls h + nfall pre = k /\ is_delay c = false
                                   /\ (post = [] \/ post = [HSetHigh]) /\ e = err_of c k
    end.

Definition fs_transport (T : transport) (okT : hstate -> Prop) : Prop :=
  (forall a v h k, faults h = [k] -> okT h -> op_post k h (snd (t_write T a v h)) (fst (t_write T a v h)) /\ okT (snd (t_write T a v h)))
  /\ (forall a n h k, faults h = [k] -> okT h ->
        op_post k h (snd (t_read T a n h)) (match fst (t_read T a n h) with inl e => Some e | inr _ => None end) /\ okT (snd (t_read T a n h)))
  /\ (forall c b h, okT h -> okT (log_raw c b h)).

Lemma attempt_k : forall c h k, faults h = [k] ->
  attempt c h = (if N.eqb (ncalls h) k then Some (ncalls h) else None, log_raw c true h).
Proof. intros c h k F. unfold attempt, faulty. rewrite F. cbn [existsb]. rewrite orb_false_r. reflexivity. Qed.

Lemma nfall_1 : forall c, is_delay c = false -> nfall [c] = 1.
Proof. intros c H. unfold nfall. cbn [filter]. rewrite H. reflexivity. Qed.

Ltac fs_none ext := split; [autorewrite with hproj; assumption | exists ext; autorewrite with hproj; rewrite <- ?app_assoc; cbn [app];
  split; [reflexivity | split; [unfold nfall; cbn; lia | intro; lia ]]].
Ltac fs_some ext pre c post := split; [autorewrite with hproj; assumption | exists ext; autorewrite with hproj; rewrite <- ?app_assoc; cbn [app];
  split; [reflexivity | split; [unfold nfall; cbn; lia | exists pre, c, post; repeat split; [unfold nfall; cbn; lia | first [left; reflexivity | right; reflexivity] | unfold err_of; cbn; f_equal; lia ] ]]].

Lemma fs_reg : fs_transport T_reg (fun _ => True).
Proof.
  split; [|split; [|intros; exact I]]; intros a x h k F _; (split; [|exact I]); cbn [t_write t_read T_reg]; unfold reg_write, reg_read; rewrite (attempt_k _ h k F);
    destruct (N.eqb_spec (ncalls h) k) as [E|E].
  - cbn [fst snd]. fs_some [HReg true a x] (@nil hcall) (HReg true a x) (@nil hcall).
  - cbn [fst snd]. fs_none [HReg true a x].
  - cbn [fst snd]. fs_some [HReg false a x] (@nil hcall) (HReg false a x) (@nil hcall).
  - cbn [log_raw hchip]. destruct (chip_read a x (hchip h)) as [l c]. cbn [fst snd]. fs_none [HReg false a x].
Qed.

Lemma fs_i2c : forall dev, fs_transport (T_i2c dev) (fun h => strap h = dev).
Proof.
  intro dev. split; [|split; [|intros c b h S; autorewrite with hproj; exact S]]; intros a x h k F S; cbn [t_write t_read T_i2c]; unfold i2c_write, i2c_read, hal_i2c_write, hal_i2c_write_read;
    rewrite (attempt_k _ h k F); destruct (N.eqb_spec (ncalls h) k) as [E|E].
  - cbn [fst snd]. split; [|autorewrite with hproj; exact S]. fs_some [HI2cWrite dev [a; x]] (@nil hcall) (HI2cWrite dev [a; x]) (@nil hcall).
  - autorewrite with hproj. rewrite S, N.eqb_refl. cbn [negb fst snd]. split; [|autorewrite with hproj; exact S]. fs_none [HI2cWrite dev [a; x]].
  - cbn [fst snd]. split; [|autorewrite with hproj; exact S]. fs_some [HI2cWriteRead dev [a] x] (@nil hcall) (HI2cWriteRead dev [a] x) (@nil hcall).
  - autorewrite with hproj. rewrite S, N.eqb_refl. cbn [negb]. destruct (chip_read _ x _) as [l c]. cbn [fst snd].
    split; [|autorewrite with hproj; exact S]. fs_none [HI2cWriteRead dev [a] x].
Qed.

(* SPI: case analysis on which of the three / four calls is the failing one *)
Lemma set_low_k : forall h k, faults h = [k] ->
  hal_set_low h = (if N.eqb (ncalls h) k then (Some (ncalls h), log_raw HSetLow true h)
                   else (None, if cs_low h then log_raw HSetLow true h else set_cs true WIdle (log_raw HSetLow true h))).
Proof. intros h k F. unfold hal_set_low. rewrite (attempt_k _ h k F). destruct (N.eqb (ncalls h) k); reflexivity. Qed.
Lemma set_high_k : forall h k, faults h = [k] ->
  hal_set_high h = (if N.eqb (ncalls h) k then (Some (ncalls h), log_raw HSetHigh true h)
                    else (None, set_cs false WIdle (log_raw HSetHigh true h))).
Proof. intros h k F. unfold hal_set_high. rewrite (attempt_k _ h k F). destruct (N.eqb (ncalls h) k); reflexivity. Qed.
Lemma spi_write_k : forall bs h k, faults h = [k] ->
  hal_spi_write bs h = (if N.eqb (ncalls h) k then (Some (ncalls h), log_raw (HSpiWrite bs) true h)
                        else (None, snd (spi_bytes bs (log_raw (HSpiWrite bs) true h)))).
Proof. intros bs h k F. unfold hal_spi_write. rewrite (attempt_k _ h k F). destruct (N.eqb (ncalls h) k); reflexivity. Qed.
Lemma spi_transfer_k : forall bs h k, faults h = [k] ->
  hal_spi_transfer bs h = (if N.eqb (ncalls h) k then (inl (ncalls h), log_raw (HSpiTransfer bs) true h)
                           else (inr (fst (spi_bytes bs (log_raw (HSpiTransfer bs) true h))), snd (spi_bytes bs (log_raw (HSpiTransfer bs) true h)))).
Proof.
  intros bs h k F. unfold hal_spi_transfer. rewrite (attempt_k _ h k F). destruct (N.eqb (ncalls h) k); [reflexivity|].
  destruct (spi_bytes bs _); reflexivity.
Qed.

(* bytes clocked on SPI never touch the journal, the call counter or the fault plan *)
Lemma spi_clock_frame : forall bs h, let h' := snd (spi_clock bs h) in
  raw h' = raw h /\ ncalls h' = ncalls h /\ faults h' = faults h /\ cs_low h' = cs_low h /\ strap h' = strap h.
Proof.
  induction bs as [|b rest IH]; intro h; cbn [spi_clock snd]; [repeat split|].
  destruct (win h) as [|f dd p].
  - specialize (IH (set_win (WOpen b false (N.land b 127)) h)). destruct (spi_clock rest _) as [r h1]. cbn [snd] in *.
    autorewrite with hproj in IH. exact IH.
  - destruct (N.eqb (N.land f 128) 0).
    + specialize (IH (set_win (WOpen f dd (N.land (p + 1) 255)) (set_chip (chip_write p b (hchip h)) h))).
      destruct (spi_clock rest _) as [r h1]. cbn [snd] in *. autorewrite with hproj in IH. exact IH.
    + destruct (negb dd).
      * specialize (IH (set_win (WOpen f true p) h)). destruct (spi_clock rest _) as [r h1]. cbn [snd] in *. autorewrite with hproj in IH. exact IH.
      * destruct (chip_read p (len (b :: rest)) (hchip h)) as [l c]. cbn [snd]. autorewrite with hproj. repeat split.
Qed.
Lemma spi_bytes_frame : forall bs h, let h' := snd (spi_bytes bs h) in
  raw h' = raw h /\ ncalls h' = ncalls h /\ faults h' = faults h /\ cs_low h' = cs_low h /\ strap h' = strap h.
Proof.
  intros bs h. unfold spi_bytes. destruct (cs_low h) eqn:C.
  - pose proof (spi_clock_frame bs h) as H. cbv zeta in H. rewrite C in H. exact H.
  - cbn [snd]. unfold add_stray. cbn. rewrite C. repeat split.
Qed.

(* summary of a bus state for the fail-stop argument *)
Definition st3 (h : hstate) (r : list hcall) (n : N) (k : N) : Prop := raw h = r /\ ncalls h = n /\ faults h = [k].
Lemma st3_low : forall h k r n, st3 h r n k -> N.eqb n k = false ->
  fst (hal_set_low h) = None /\ st3 (snd (hal_set_low h)) (r ++ [HSetLow]) (n + 1) k.
Proof.
  intros h k r n [R [N F]] E. rewrite (set_low_k h k F). rewrite N, E. cbn [fst snd]. split; [reflexivity|].
  destruct (cs_low h); unfold st3; autorewrite with hproj; rewrite R, N; repeat split; assumption.
Qed.
Lemma st3_low_fail : forall h k r, st3 h r k k ->
  fst (hal_set_low h) = Some k /\ st3 (snd (hal_set_low h)) (r ++ [HSetLow]) (k + 1) k.
Proof.
  intros h k r [R [N F]]. rewrite (set_low_k h k F). rewrite N, N.eqb_refl. cbn [fst snd]. split; [reflexivity|].
  unfold st3; autorewrite with hproj; rewrite R, N; repeat split; assumption.
Qed.
Lemma st3_high : forall h k r n, st3 h r n k ->
  fst (hal_set_high h) = (if N.eqb n k then Some n else None) /\ st3 (snd (hal_set_high h)) (r ++ [HSetHigh]) (n + 1) k.
Proof.
  intros h k r n [R [N F]]. rewrite (set_high_k h k F). rewrite N. destruct (N.eqb n k); cbn [fst snd]; (split; [reflexivity|]);
    unfold st3; autorewrite with hproj; rewrite R, N; repeat split; assumption.
Qed.
Lemma st3_write : forall bs h k r n, st3 h r n k ->
  fst (hal_spi_write bs h) = (if N.eqb n k then Some n else None) /\ st3 (snd (hal_spi_write bs h)) (r ++ [HSpiWrite bs]) (n + 1) k.
Proof.
  intros bs h k r n [R [N F]]. rewrite (spi_write_k bs h k F). rewrite N. destruct (N.eqb n k); cbn [fst snd]; (split; [reflexivity|]).
  - unfold st3; autorewrite with hproj; rewrite R, N; repeat split; assumption.
  - pose proof (spi_bytes_frame bs (log_raw (HSpiWrite bs) true h)) as [B1 [B2 [B3 _]]]. unfold st3. rewrite B1, B2, B3.
    autorewrite with hproj. rewrite R, N. repeat split; assumption.
Qed.
Lemma st3_transfer : forall bs h k r n, st3 h r n k ->
  (match fst (hal_spi_transfer bs h) with inl t => Some t | inr _ => None end) = (if N.eqb n k then Some n else None)
  /\ st3 (snd (hal_spi_transfer bs h)) (r ++ [HSpiTransfer bs]) (n + 1) k.
Proof.
  intros bs h k r n [R [N F]]. rewrite (spi_transfer_k bs h k F). rewrite N. destruct (N.eqb n k); cbn [fst snd]; (split; [reflexivity|]).
  - unfold st3; autorewrite with hproj; rewrite R, N; repeat split; assumption.
  - pose proof (spi_bytes_frame bs (log_raw (HSpiTransfer bs) true h)) as [B1 [B2 [B3 _]]]. unfold st3. rewrite B1, B2, B3.
    autorewrite with hproj. rewrite R, N. repeat split; assumption.
Qed.

Ltac post_some pre c post :=
  eexists; split; [rewrite <- ?app_assoc; cbn [app]; reflexivity |
  split; [unfold nfall; cbn; lia |
  exists pre, c, post; repeat split; try reflexivity; try (unfold nfall; cbn; lia); try (left; reflexivity); try (right; reflexivity);
    try (unfold err_of; cbn; f_equal; lia)]].

Lemma fs_spi : fs_transport T_spi (fun _ => True).
Proof.
  split; [|split; [|intros; exact I]]; intros a x h k F _; (split; [|exact I]); cbn [t_write t_read T_spi].
  - (* write *)
    unfold spi_write. assert (S0 : st3 h (raw h) (ncalls h) k) by (unfold st3; auto).
    destruct (N.eqb_spec (ncalls h) k) as [E0|E0].
    + subst k. destruct (st3_low_fail h (ncalls h) (raw h)) as [L1 [L2 [L3 L4]]]; [unfold st3; auto|].
      destruct (hal_set_low h) as [r0 h0]. cbn [fst snd] in *. subst r0. cbn [fst snd]. unfold op_post. split; [exact L4|].
      rewrite L2, L3. post_some (@nil hcall) HSetLow (@nil hcall).
    + destruct (st3_low h k (raw h) (ncalls h) S0) as [L1 S1]; [apply N.eqb_neq; exact E0|].
      destruct (hal_set_low h) as [r0 h0]. cbn [fst snd] in *. subst r0.
      destruct (st3_write [a; x] h0 k _ _ S1) as [W1 S2]. destruct (hal_spi_write [a; x] h0) as [r1 h1]. cbn [fst snd] in *.
      destruct (st3_high h1 k _ _ S2) as [H1 [S3r [S3n S3f]]]. destruct (hal_set_high h1) as [r2 h2]. cbn [fst snd] in *.
      unfold op_post. split; [exact S3f|]. rewrite S3r, S3n. subst r1 r2.
      destruct (N.eqb_spec (ncalls h + 1) k) as [E1|E1].
      * post_some [HSetLow] (HSpiWrite [a; x]) [HSetHigh].
      * destruct (N.eqb_spec (ncalls h + 1 + 1) k) as [E2|E2].
        -- post_some [HSetLow; HSpiWrite [a; x]] HSetHigh (@nil hcall).
        -- eexists. split; [rewrite <- ?app_assoc; cbn [app]; reflexivity | split; [unfold nfall; cbn; lia | intro; lia]].
  - (* read *)
    unfold spi_read. assert (S0 : st3 h (raw h) (ncalls h) k) by (unfold st3; auto).
    destruct (N.eqb_spec (ncalls h) k) as [E0|E0].
    + subst k. destruct (st3_low_fail h (ncalls h) (raw h)) as [L1 [L2 [L3 L4]]]; [unfold st3; auto|].
      destruct (hal_set_low h) as [r0 h0]. cbn [fst snd] in *. subst r0. cbn [fst snd]. unfold op_post. split; [exact L4|].
      rewrite L2, L3. post_some (@nil hcall) HSetLow (@nil hcall).
    + destruct (st3_low h k (raw h) (ncalls h) S0) as [L1 S1]; [apply N.eqb_neq; exact E0|].
      destruct (hal_set_low h) as [r0 h0]. cbn [fst snd] in *. subst r0.
      destruct (st3_transfer [N.lor a 128; 0] h0 k _ _ S1) as [W1 S2]. destruct (hal_spi_transfer [N.lor a 128; 0] h0) as [r1 h1]. cbn [fst snd] in *.
      destruct (N.eqb_spec (ncalls h + 1) k) as [E1|E1].
      * destruct r1 as [t|l]; [|discriminate]. injection W1 as W1. subst t.
        destruct (st3_high h1 k _ _ S2) as [H1 [S3r [S3n S3f]]]. destruct (hal_set_high h1) as [r2 h2]. cbn [fst snd] in *.
        unfold op_post. split; [exact S3f|]. rewrite S3r, S3n. post_some [HSetLow] (HSpiTransfer [N.lor a 128; 0]) [HSetHigh].
      * destruct r1 as [t|l]; [discriminate|].
        destruct (st3_transfer (repeatN 0 x) h1 k _ _ S2) as [W2 S3]. destruct (hal_spi_transfer (repeatN 0 x) h1) as [r2 h2]. cbn [fst snd] in *.
        destruct (st3_high h2 k _ _ S3) as [H1 [S4r [S4n S4f]]]. destruct (hal_set_high h2) as [r3 h3]. cbn [fst snd] in *.
        unfold op_post. split; [exact S4f|]. rewrite S4r, S4n. subst r3.
        destruct (N.eqb_spec (ncalls h + 1 + 1) k) as [E2|E2].
        -- destruct r2 as [t|l2]; [|discriminate]. injection W2 as W2. subst t.
           post_some [HSetLow; HSpiTransfer [N.lor a 128; 0]] (HSpiTransfer (repeatN 0 x)) [HSetHigh].
        -- destruct r2 as [t|l2]; [discriminate|].
           destruct (N.eqb_spec (ncalls h + 1 + 1 + 1) k) as [E3|E3].
           ++ post_some [HSetLow; HSpiTransfer [N.lor a 128; 0]; HSpiTransfer (repeatN 0 x)] HSetHigh (@nil hcall).
           ++ eexists. split; [rewrite <- ?app_assoc; cbn [app]; reflexivity | split; [unfold nfall; cbn; lia | intro; lia]].
Qed.

Theorem fail_stop : forall T okT, fs_transport T okT -> forall A (p : prog A) w k,
  faults (hst w) = [k] -> ncalls (hst w) <= k -> okT (hst w) ->
  k < ncalls (hst (world_of (run T p w))) ->
  exists e pre c post, run T p w = Failed e (world_of (run T p w))
    /\ raw (hst (world_of (run T p w))) = raw (hst w) ++ pre ++ c :: post
    /\ ncalls (hst w) + nfall pre = k /\ is_delay c = false /\ (post = [] \/ post = [HSetHigh]) /\ e = err_of c k.
Proof.
  intros T okT [FW [FR FL]] A p. induction p as [a|e| | |a v k0 IH|a n k0 IH|ms k0 IH|k0 IH|d' k0 IH]; intros w k F N Ok; cbn [run world_of]; try (intro H; lia).
  - (* Write *)
    destruct (FW a v (hst w) k F Ok) as [[F' [ext [R [Nc P]]]] Ok']. destruct (t_write T a v (hst w)) as [r h']. cbn [fst snd] in *.
    destruct r as [e|].
    + cbn [world_of]. intros _. destruct P as [pre [c [post [E [Nk [D [Po Ee]]]]]]].
      exists e, pre, c, post. unfold log_ev. cbn [hst]. rewrite R, E. repeat split; assumption.
    + specialize (P N). set (w' := log_ev (EvWrite a v) h' w).
      intro H. destruct (IH w' k F' P Ok' H) as [e [pre [c [post [E1 [E2 [E3 [E4 [E5 E6]]]]]]]]].
      exists e, (ext ++ pre), c, post. repeat split; try assumption.
      * rewrite E2. unfold w', log_ev. cbn [hst]. rewrite R, <- !app_assoc. reflexivity.
      * rewrite nfall_app. unfold w', log_ev in E3. cbn [hst] in E3. lia.
  - (* Read *)
    destruct (FR a n (hst w) k F Ok) as [[F' [ext [R [Nc P]]]] Ok']. destruct (t_read T a n (hst w)) as [r h']. cbn [fst snd] in *.
    destruct r as [e|l].
    + cbn [world_of]. intros _. destruct P as [pre [c [post [E [Nk [D [Po Ee]]]]]]].
      exists e, pre, c, post. unfold log_ev. cbn [hst]. rewrite R, E. repeat split; assumption.
    + specialize (P N). set (w' := log_ev (EvRead a n) h' w).
      intro H. destruct (IH l w' k F' P Ok' H) as [e [pre [c [post [E1 [E2 [E3 [E4 [E5 E6]]]]]]]]].
      exists e, (ext ++ pre), c, post. repeat split; try assumption.
      * rewrite E2. unfold w', log_ev. cbn [hst]. rewrite R, <- !app_assoc. reflexivity.
      * rewrite nfall_app. unfold w', log_ev in E3. cbn [hst] in E3. lia.
  - (* Delay *)
    intro H.
    assert (F2 : faults (hst (log_ev (EvDelay ms) (log_raw (HDelay ms) false (hst w)) w)) = [k]) by (unfold log_ev; cbn [hst]; autorewrite with hproj; exact F).
    assert (N2 : ncalls (hst (log_ev (EvDelay ms) (log_raw (HDelay ms) false (hst w)) w)) <= k) by (unfold log_ev; cbn [hst]; autorewrite with hproj; exact N).
    assert (Ok2 : okT (hst (log_ev (EvDelay ms) (log_raw (HDelay ms) false (hst w)) w))) by (unfold log_ev; cbn [hst]; apply FL; exact Ok).
    destruct (IH _ k F2 N2 Ok2 H) as [e [pre [c [post [E1 [E2 [E3 [E4 [E5 E6]]]]]]]]].
    exists e, (HDelay ms :: pre), c, post. repeat split; try assumption.
    rewrite E2. unfold log_ev. cbn [hst]. autorewrite with hproj. rewrite <- app_assoc. reflexivity.
  - apply IH; assumption.
  - intro H. apply (IH (mk_world d' (hst w) (journal w)) k F N Ok H).
Qed.

(* ------------------------------------------------------------------ C20: a failed SPI transfer still releases chip-select *)
Lemma lor128_bit : forall a, N.eqb (N.land (N.lor a 128) 128) 0 = false.
Proof.
  intro a. assert (E : N.land (N.lor a 128) 128 = 128).
  { apply N.bits_inj. intro i. rewrite N.land_spec, N.lor_spec. destruct (N.testbit a i), (N.testbit 128 i); reflexivity. }
  rewrite E. reflexivity.
Qed.
Theorem spi_write_transfer_fault : forall a v h, faults h = [ncalls h + 1] -> cs_low h = false ->
  fst (spi_write a v h) = Some (BMA400Error_IOError (ncalls h + 1))
  /\ cs_low (snd (spi_write a v h)) = false /\ win (snd (spi_write a v h)) = WIdle
  /\ hchip (snd (spi_write a v h)) = hchip h
  /\ raw (snd (spi_write a v h)) = raw h ++ [HSetLow; HSpiWrite [a; v]; HSetHigh].
Proof.
  intros a v h F C. unfold spi_write.
  rewrite (set_low_k h _ F). replace (N.eqb (ncalls h) (ncalls h + 1)) with false by (symmetry; apply N.eqb_neq; lia). rewrite C.
  set (h0 := set_cs true WIdle (log_raw HSetLow true h)).
  assert (F0 : faults h0 = [ncalls h + 1]) by (unfold h0; autorewrite with hproj; exact F).
  rewrite (spi_write_k [a; v] h0 _ F0). replace (ncalls h0) with (ncalls h + 1) by (unfold h0; autorewrite with hproj; reflexivity).
  rewrite N.eqb_refl.
  set (h1 := log_raw (HSpiWrite [a; v]) true h0).
  assert (F1 : faults h1 = [ncalls h + 1]) by (unfold h1; autorewrite with hproj; exact F0).
  rewrite (set_high_k h1 _ F1). replace (ncalls h1) with (ncalls h + 1 + 1) by (unfold h1, h0; autorewrite with hproj; reflexivity).
  replace (N.eqb (ncalls h + 1 + 1) (ncalls h + 1)) with false by (symmetry; apply N.eqb_neq; lia).
  cbn [fst snd]. unfold h1, h0. autorewrite with hproj. rewrite <- !app_assoc. cbn [app]. repeat split.
Qed.

Theorem spi_read_transfer_fault : forall a n h k, faults h = [k] -> cs_low h = false -> (k = ncalls h + 1 \/ k = ncalls h + 2) ->
  fst (spi_read a n h) = inl (BMA400Error_IOError k)
  /\ cs_low (snd (spi_read a n h)) = false /\ win (snd (spi_read a n h)) = WIdle
  /\ hchip (snd (spi_read a n h)) = hchip h
  /\ exists calls, raw (snd (spi_read a n h)) = raw h ++ calls ++ [HSetHigh].
Proof.
  intros a n h k F C K. unfold spi_read.
  rewrite (set_low_k h _ F). replace (N.eqb (ncalls h) k) with false by (symmetry; apply N.eqb_neq; lia). rewrite C.
  set (h0 := set_cs true WIdle (log_raw HSetLow true h)).
  assert (F0 : faults h0 = [k]) by (unfold h0; autorewrite with hproj; exact F).
  assert (N0 : ncalls h0 = ncalls h + 1) by (unfold h0; autorewrite with hproj; reflexivity).
  rewrite (spi_transfer_k [N.lor a 128; 0] h0 _ F0). rewrite N0.
  destruct K as [K|K].
  - subst k. rewrite N.eqb_refl.
    set (h1 := log_raw (HSpiTransfer [N.lor a 128; 0]) true h0).
    assert (F1 : faults h1 = [ncalls h + 1]) by (unfold h1; autorewrite with hproj; exact F0).
    rewrite (set_high_k h1 _ F1). replace (ncalls h1) with (ncalls h + 1 + 1) by (unfold h1; autorewrite with hproj; rewrite N0; reflexivity).
    replace (N.eqb (ncalls h + 1 + 1) (ncalls h + 1)) with false by (symmetry; apply N.eqb_neq; lia).
    cbn [fst snd]. unfold h1, h0. autorewrite with hproj. repeat split.
    exists [HSetLow; HSpiTransfer [N.lor a 128; 0]]. rewrite <- !app_assoc. reflexivity.
  - subst k. replace (N.eqb (ncalls h + 1) (ncalls h + 2)) with false by (symmetry; apply N.eqb_neq; lia).
    set (h1 := snd (spi_bytes [N.lor a 128; 0] (log_raw (HSpiTransfer [N.lor a 128; 0]) true h0))).
    pose proof (spi_bytes_frame [N.lor a 128; 0] (log_raw (HSpiTransfer [N.lor a 128; 0]) true h0)) as [B1 [B2 [B3 [B4 B5]]]]. fold h1 in B1, B2, B3, B4, B5.
    assert (F1 : faults h1 = [ncalls h + 2]) by (rewrite B3; autorewrite with hproj; exact F0).
    assert (N1 : ncalls h1 = ncalls h + 2) by (rewrite B2; autorewrite with hproj; rewrite N0; lia).
    rewrite (spi_transfer_k (repeatN 0 n) h1 _ F1). rewrite N1, N.eqb_refl.
    set (h2 := log_raw (HSpiTransfer (repeatN 0 n)) true h1).
    assert (F2 : faults h2 = [ncalls h + 2]) by (unfold h2; autorewrite with hproj; exact F1).
    rewrite (set_high_k h2 _ F2). replace (ncalls h2) with (ncalls h + 2 + 1) by (unfold h2; autorewrite with hproj; rewrite N1; reflexivity).
    replace (N.eqb (ncalls h + 2 + 1) (ncalls h + 2)) with false by (symmetry; apply N.eqb_neq; lia).
    cbn [fst snd]. unfold h2. autorewrite with hproj. rewrite B1. autorewrite with hproj.
    assert (Hc : hchip h1 = hchip h).
    { unfold h1, spi_bytes. autorewrite with hproj. unfold h0 at 1. autorewrite with hproj. cbv iota.
      (* the address phase of a read never writes the chip *)
      cbn [spi_clock]. unfold h0 at 1. autorewrite with hproj. cbn [spi_clock win set_win].
      rewrite lor128_bit. cbn [negb spi_clock fst snd]. autorewrite with hproj. unfold h0. autorewrite with hproj. reflexivity. }
    repeat split; try assumption.
    exists [HSetLow; HSpiTransfer [N.lor a 128; 0]; HSpiTransfer (repeatN 0 n)]. unfold h0. autorewrite with hproj. rewrite <- !app_assoc. reflexivity.
Qed.
