(* Builders.v — C01 / C07 / C08 for every builder write(): symbolic execution of the generated body, then
   verification conditions closed by congruence on the shadow record and kernel evaluation over the enable byte. *)
Require Import BMA.lib.Base BMA.lib.Reflect BMA.gen.GenTypes BMA.gen.GenPure BMA.lib.Prog BMA.gen.GenProg BMA.gen.GenMeta
               BMA.gen.GenLens BMA.lib.Run BMA.proofs.Generic BMA.proofs.Symex BMA.proofs.BuilderSpec BMA.spec.Datasheet.
From Coq Require Import Lia.
Open Scope N_scope.

Definition req_of (l : list (N * N)) (a : N) : N := match find (fun p => N.eqb (fst p) a) l with Some p => snd p | None => 0 end.

(* an enable register that belongs to the builder's own block (INT_CONFIG0/1 for the interrupt builder, WKUP_INT_CONFIG0 for the
   wake-up builder): left alone iff the request equals the held value; written once with the requested value; or first written
   with bits cleared and last written with the requested value *)
Definition own_ok (orig req : N) (ws : list N) : bool :=
  match ws with
  | [] => negb (neqb orig req)
  | [x] => N.eqb x req && neqb orig req
  | first :: _ => submask first orig && neqb first orig && N.eqb (last ws 0) req
  end.
Definition enable_ok (own : list N) (d0 : Config) (req : N -> N) (e : N) (nj : list jw) : bool :=
  if existsb (N.eqb e) own then own_ok (shv d0 e) (req e) (vals_at e nj) else toggle_ok (shv d0 e) (vals_at e nj).

Definition builder_post (blk : list N) (d0 : Config) (expected : Config) (req : N -> N) (j0 : list jw) : QT unit :=
  fun _ d' g' j' =>
    d' = expected /\ g' = ghost_of expected
    /\ exists nj, j' = j0 ++ nj /\ forallb (entry_ok blk d0 req) nj = true
       /\ enable_ok blk d0 req 31 nj = true /\ enable_ok blk d0 req 32 nj = true /\ enable_ok blk d0 req 47 nj = true.
Definition reject_post (d0 : Config) (j0 : list jw) : QFT := fun e d' g' j' => d' = d0 /\ g' = ghost_of d0 /\ j' = j0.

Ltac is_pos p := lazymatch p with xH => idtac | xO ?q => is_pos q | xI ?q => is_pos q end.
Ltac is_numN n := lazymatch n with N0 => idtac | Npos ?p => is_pos p end.
Ltac closed_eqb := repeat match goal with |- context [N.eqb ?a ?b] => is_numN a; is_numN b; let r := eval vm_compute in (N.eqb a b) in change (N.eqb a b) with r end.
Ltac sym_neqb := repeat match goal with |- context [neqb ?a ?b] => match goal with |- context [neqb b a] => rewrite (neqb_sym b a) end end.
Ltac gen_neqb := sym_neqb; repeat match goal with |- context [neqb ?a ?b] => is_var a; is_var b; let b' := fresh "b" in generalize (neqb a b); intro b' end.
Ltac spec_unfold := cbv beta iota zeta delta [entry_ok c07_entry c08_entry forallb existsb ds_param_owner ENABLES greg jw_addr jw_val jw_g g_en0 g_en1 g_wk0
   toggle_ok vals_at filter map app req_of find fst snd last].
Ltac subst_eqs := repeat match goal with H : ?v = _ |- _ => is_var v; subst v end.
Ltac split_ifs := repeat match goal with |- context [if ?c then _ else _] => let E := fresh "I" in destruct c eqn:E end.
Ltac neqb_facts := repeat match goal with H : neqb _ _ = false |- _ => apply neqb_false_eq in H end; subst.
Ltac eval_shv := repeat match goal with
  | |- context [ghost_of ?r] => let x := eval vm_compute in (ghost_of r) in change (ghost_of r) with x
  | |- context [shv ?r ?a] => let x := eval vm_compute in (shv r a) in change (shv r a) with x
  end.
Definition wfb (d : Config) : bool := forallb (fun p => N.ltb (snd p) 256) (Config_dump d).
Ltac wf_facts H :=
  unfold wfb, Config_dump in H; cbv_records_in H; cbn [forallb snd] in H;
  repeat (let H1 := fresh "W" in apply andb_prop in H; destruct H as [H1 H]; apply N.ltb_lt in H1); clear H.
Lemma bool_hyp : forall (c b P : bool), implb (Bool.eqb c b) P = true -> (c = b -> P = true).
Proof. intros [] [] []; cbn; congruence. Qed.
(* after substitutions a range fact may speak about a term, or appear twice for one variable *)
Ltac tidy_ranges :=
  repeat match goal with H : ?x < 256 |- _ => tryif is_var x then fail else clear H end;
  repeat match goal with H1 : ?x < 256, H2 : ?x < 256 |- _ => clear H2 end.
Ltac drop_conds := repeat match goal with H : _ = true |- _ => clear H | H : _ = false |- _ => clear H end.
(* case split on the guards of the journal pieces; a guard `neqb X r = false` with r a request byte identifies r with X (one
   byte variable less), every other outcome is kept as a boolean premise of the goal *)
Ltac split_list_ifs := repeat (match goal with |- context [if ?c then [?e] else []] =>
     let E := fresh "TG" in destruct c eqn:E;
     first [ lazymatch type of E with neqb ?a ?b = false => is_var b; apply neqb_false_eq in E; subst b end
           | revert E; lazymatch goal with |- ?c' = ?b -> ?P = true => refine (bool_hyp c' b P _) end ] end;
   cbv iota; rewrite ?neqb_refl; cbv iota).
(* comparisons with a request byte that occurs nowhere else are opaque booleans *)
Ltac gen_neqb_req := repeat match goal with |- context [neqb ?a ?b] => is_var b; let b' := fresh "b" in generalize (neqb a b); intro b';
   lazymatch goal with |- context [b] => fail | _ => idtac end end.
(* bit tests on a byte that occurs in no other way (e.g. the requested pin-map bytes) are opaque booleans *)
Ltac gen_intersects_var r :=
  repeat match goal with |- context [intersects r ?m] => let b := fresh "m" in generalize (intersects r m); intro b end;
  repeat match goal with |- context [?f r] => is_const f; lazymatch type of (f r) with bool => idtac end; let b := fresh "m" in generalize (f r); intro b end.
Ltac gen_intersects := repeat match goal with H : ?r < 256 |- _ => is_var r; match goal with |- context [r] => idtac end;
   gen_intersects_var r; clear H; clear r end.
Ltac toggle_vc := unfold enable_ok; cbv beta iota delta [existsb]; closed_eqb; cbn [orb]; cbv iota; cbv beta iota delta [req_of find fst snd]; closed_eqb; cbv iota;
  eval_shv; unfold vals_at; rewrite ?filter_app, ?filter_if; cbv beta iota delta [jw_addr]; closed_eqb;
  rewrite ?andb_false_r, ?andb_true_r; cbv iota; cbn [app]; rewrite ?neqb_refl; cbv iota; split_list_ifs; cbn [app map jw_val]; cbv beta iota delta [own_ok toggle_ok]; cbn [last forallb]; rewrite ?neqb_refl, ?N.eqb_refl; drop_conds; tidy_ranges; gen_neqb; gen_neqb_req; gen_intersects; clear_unused;
  try (lazymatch goal with x : N |- _ => fail | _ => idtac end; repeat match goal with b : bool |- _ => destruct b end; reflexivity); finite_reflect.
Ltac vc_close := drop_conds; tidy_ranges; rewrite ?neqb_refl, ?N.eqb_refl, ?orb_true_r, ?andb_true_r; try reflexivity; gen_neqb; gen_neqb_req; gen_intersects; clear_unused; try (lazymatch goal with x : N |- _ => fail | _ => idtac end; repeat match goal with b : bool |- _ => destruct b end; reflexivity); finite_reflect.

(* the verification conditions of one path *)
(* path conditions collected by the case splits of the stepper *)
Ltac use_conds := repeat match goal with
  | H : negb _ = true |- _ => apply negb_true_iff in H
  | H : negb _ = false |- _ => apply negb_false_iff in H
  | H : (_ || _)%bool = false |- _ => apply orb_false_elim in H; destruct H
  | H : (_ && _)%bool = true |- _ => apply andb_prop in H; destruct H
  | H : neqb ?a ?b = false |- _ => apply neqb_false_eq in H; first [subst a | subst b]
  end.
Lemma if_neqb_restore : forall x o, (if neqb x o then o else x) = o.
Proof. intros x o. destruct (neqb x o) eqn:E; [reflexivity | apply neqb_false_eq; exact E]. Qed.
Ltac entries_vc :=
  repeat (apply andb_true_intro; split); spec_unfold; closed_eqb; cbn [negb orb andb]; eval_shv; rewrite ?N.eqb_refl; cbn [negb orb andb]; vc_close.
Ltac builder_done :=
  subst_eqs; use_conds; unfold builder_post; unfold_cfg_fns; cbv_records; cbn;
  split; [ rewrite ?if_neqb_restore; repeat f_equal; subst_eqs; rewrite ?if_neqb_restore; split_ifs; neqb_facts; try reflexivity; try congruence
  | split; [ eval_shv; rewrite ?if_neqb_restore; repeat f_equal; subst_eqs; rewrite ?if_neqb_restore; split_ifs; neqb_facts; try reflexivity; try congruence
  | rewrite <- ?app_assoc; eexists; split; [ first [reflexivity | rewrite app_nil_r; reflexivity] |];
    rewrite ?forallb_app, ?forallb_if; cbn [forallb]; rewrite ?andb_true_r;
    eval_shv; subst_eqs;
    split; [ entries_vc | split; [ toggle_vc | split; [ toggle_vc | toggle_vc ] ] ] ] ].
Ltac builder_rejected := unfold reject_post; eval_shv; repeat split; reflexivity.
Ltac builder_vc := lazymatch goal with |- builder_post _ _ _ _ _ _ _ _ _ => builder_done | |- reject_post _ _ _ _ _ _ => builder_rejected end.

Theorem fifo_ok : forall d req j, wfb d = true ->
  postx (FifoConfigBuilder_write req) d (ghost_of d) j
    (builder_post [38; 39; 40; 41] d (set_Config_fifo_config req d)
       (req_of [(38, FifoConfig_fifo_config0 req); (39, FifoConfig_fifo_config1 req); (40, FifoConfig_fifo_config2 req); (41, FifoConfig_fifo_pwr_config req)]) j)
    (reject_post d j).
Proof.
  intros d req j Hwf. destruct_cfg d. destruct req as [r0 r1 r2 r3]. wf_facts Hwf.
  cbv delta [FifoConfigBuilder_write]; cbv beta.
  change (ghost_of _) with (mk_ghost s_int_config_int_config0 s_int_config_int_config1 s_wkup_int_config_wkup_int_config0) at 1.
  sx. all: builder_vc.
Qed.
