(* SymexLink.v — the instrumented semantics `semx` (shadow + device-enable ghost + journal) agrees with the
   register-level semantics `sem` on the chip: same result, same shadow, same events, the chip is the initial chip
   with the journalled writes applied in order, and the enables recorded in every journal entry are the DEVICE's
   registers 0x1F / 0x20 / 0x2F at the instant of that write. *)
Require Import BMA.lib.Base BMA.lib.Reflect BMA.gen.GenTypes BMA.gen.GenPure BMA.lib.Prog BMA.gen.GenProg BMA.gen.GenMeta
               BMA.gen.GenLens BMA.lib.Run BMA.proofs.Generic BMA.proofs.Symex.
From Coq Require Import Lia.
Open Scope N_scope.

Definition chip_ghost (c : chip) : ghost := mk_ghost (regs c 31) (regs c 32) (regs c 47).
Definition jw_ev (e : jw) : event := EvWrite (jw_addr e) (jw_val e).
Definition apply_writes (c : chip) (l : list jw) : chip := fold_left (fun c e => chip_write (jw_addr e) (jw_val e) c) l c.
(* every entry carries the device's enables just before its write *)
Fixpoint entries_match (c : chip) (l : list jw) : Prop :=
  match l with
  | [] => True
  | e :: r => jw_g e = chip_ghost c /\ entries_match (chip_write (jw_addr e) (jw_val e) c) r
  end.
Definition cfg_addr (a : N) : Prop := 25 <= a < 126.

Lemma ghost_chip_write : forall a v c, cfg_addr a -> chip_ghost (chip_write a v c) = ghost_write a v (chip_ghost c).
Proof.
  intros a v c [H1 H2]. unfold chip_write, ghost_write, chip_ghost.
  replace (N.eqb a 126) with false by (symmetry; apply N.eqb_neq; lia).
  replace (N.leb FIRST_CFG a && N.ltb a 128)%bool with true by (symmetry; apply andb_true_intro; split; [apply N.leb_le; unfold FIRST_CFG; lia | apply N.ltb_lt; lia]).
  cbn [regs g_en0 g_en1 g_wk0]. unfold upd.
  destruct (N.eqb_spec a 31); [subst; reflexivity|]. destruct (N.eqb_spec a 32); [subst; reflexivity|]. destruct (N.eqb_spec a 47); [subst; reflexivity|].
  rewrite !(proj2 (N.eqb_neq _ _)) by (intro; subst; lia). reflexivity.
Qed.

Lemma entries_match_app : forall l1 l2 c, entries_match c l1 -> entries_match (apply_writes c l1) l2 -> entries_match c (l1 ++ l2).
Proof. induction l1 as [|e r IH]; intros l2 c H1 H2; cbn in *; [exact H2|]. destruct H1 as [E H1]. split; [exact E | apply IH; assumption]. Qed.
Lemma apply_writes_app : forall l1 l2 c, apply_writes c (l1 ++ l2) = apply_writes (apply_writes c l1) l2.
Proof. intros. unfold apply_writes. apply fold_left_app. Qed.

(* the new journal entries of a run are well-addressed configuration writes *)
Definition addrs_ok (l : list jw) : Prop := Forall (fun e => cfg_addr (jw_addr e)) l.

Lemma semx_extends : forall A (p : prog A) d g j,
  match semx p d g j with
  | XDone _ _ _ j' => exists nj, j' = j ++ nj
  | XFailed _ _ _ j' => exists nj, j' = j ++ nj
  | XOther => True
  end.
Proof.
  intros A p. induction p as [a|e| | |a v k IH|a n k IH|ms k IH|k IH|d' k IH]; intros d g j; cbn [semx]; try exact I;
    try (exists []; rewrite app_nil_r; reflexivity); try apply IH.
  specialize (IH d (ghost_write a v g) (j ++ [mk_jw a v g])).
  destruct (semx k d (ghost_write a v g) (j ++ [mk_jw a v g])); try exact I; destruct IH as [nj E]; exists (mk_jw a v g :: nj); rewrite E, <- app_assoc; reflexivity.
Qed.

Theorem semx_sem_done : forall A (p : prog A) d g j c evs r d' g' nj,
  semx p d g j = XDone r d' g' (j ++ nj) -> addrs_ok nj -> g = chip_ghost c ->
  sem p d c evs = ADone r d' (apply_writes c nj) (evs ++ map jw_ev nj) /\ g' = chip_ghost (apply_writes c nj) /\ entries_match c nj.
Proof.
  intros A p. induction p as [a|e| | |a v k IH|a n k IH|ms k IH|k IH|d0 k IH]; intros d g j c evs r d' g' nj H Ha Hg; cbn [semx sem] in *; try discriminate H.
  - injection H as H1 H2 H3 H4. rewrite <- (app_nil_r j) in H4 at 1. apply app_inv_head in H4. subst. cbn. rewrite app_nil_r. auto.
  - pose proof (semx_extends _ k d (ghost_write a v g) (j ++ [mk_jw a v g])) as X. rewrite H in X. destruct X as [nj1 E].
    rewrite <- app_assoc in E. apply app_inv_head in E. cbn [app] in E. subst nj.
    apply Forall_cons_iff in Ha. destruct Ha as [Ha1 Ha2]. cbn [jw_addr] in Ha1.
    assert (H0 : ghost_write a v g = chip_ghost (chip_write a v c)) by (rewrite Hg; symmetry; apply ghost_chip_write; exact Ha1).
    replace (j ++ mk_jw a v g :: nj1) with ((j ++ [mk_jw a v g]) ++ nj1) in H by (rewrite <- app_assoc; reflexivity).
    destruct (IH d (ghost_write a v g) (j ++ [mk_jw a v g]) (chip_write a v c) (evs ++ [EvWrite a v]) r d' g' nj1 H Ha2 H0) as [S1 [S2 S3]].
    cbn [apply_writes fold_left map jw_ev jw_addr jw_val entries_match jw_g]. repeat split; try assumption.
    rewrite S1, <- app_assoc. reflexivity.
  - apply (IH d d g j c evs r d' g' nj H Ha Hg).
  - apply (IH d0 g j c evs r d' g' nj H Ha Hg).
Qed.

Theorem semx_sem_failed : forall A (p : prog A) d g j c evs e d' g' nj,
  semx p d g j = XFailed e d' g' (j ++ nj) -> addrs_ok nj -> g = chip_ghost c ->
  sem p d c evs = AFailed e d' (apply_writes c nj) (evs ++ map jw_ev nj) /\ g' = chip_ghost (apply_writes c nj) /\ entries_match c nj.
Proof.
  intros A p. induction p as [a|e0| | |a v k IH|a n k IH|ms k IH|k IH|d0 k IH]; intros d g j c evs e d' g' nj H Ha Hg; cbn [semx sem] in *; try discriminate H.
  - injection H as H1 H2 H3 H4. rewrite <- (app_nil_r j) in H4 at 1. apply app_inv_head in H4. subst. cbn. rewrite app_nil_r. auto.
  - pose proof (semx_extends _ k d (ghost_write a v g) (j ++ [mk_jw a v g])) as X. rewrite H in X. destruct X as [nj1 E].
    rewrite <- app_assoc in E. apply app_inv_head in E. cbn [app] in E. subst nj.
    apply Forall_cons_iff in Ha. destruct Ha as [Ha1 Ha2]. cbn [jw_addr] in Ha1.
    assert (H0 : ghost_write a v g = chip_ghost (chip_write a v c)) by (rewrite Hg; symmetry; apply ghost_chip_write; exact Ha1).
    replace (j ++ mk_jw a v g :: nj1) with ((j ++ [mk_jw a v g]) ++ nj1) in H by (rewrite <- app_assoc; reflexivity).
    destruct (IH d (ghost_write a v g) (j ++ [mk_jw a v g]) (chip_write a v c) (evs ++ [EvWrite a v]) e d' g' nj1 H Ha2 H0) as [S1 [S2 S3]].
    cbn [apply_writes fold_left map jw_ev jw_addr jw_val entries_match jw_g]. repeat split; try assumption.
    rewrite S1, <- app_assoc. reflexivity.
  - apply (IH d d g j c evs e d' g' nj H Ha Hg).
  - apply (IH d0 g j c evs e d' g' nj H Ha Hg).
Qed.
