(* Rules.v — compositional predicates over programs of the free monad and the syntax-directed
   tactics that discharge them on the generated bodies, following whatever statement order
   the generated code has (DESIGN.md section 6.4). *)
Require Import BMA.lib.Base BMA.lib.Reflect BMA.gen.GenTypes BMA.gen.GenPure BMA.lib.Prog BMA.gen.GenProg BMA.gen.GenMeta
               BMA.lib.Encode BMA.gen.GenApi BMA.lib.Run BMA.proofs.Generic.
From Coq Require Import Lia.
Open Scope N_scope.

Lemma sem_bind : forall A B (p : prog A) (f : A -> prog B) d c evs,
  sem (bind p f) d c evs = match sem p d c evs with
                           | ADone a d' c' evs' => sem (f a) d' c' evs'
                           | AFailed e d' c' evs' => AFailed e d' c' evs'
                           | APanic d' c' evs' => APanic d' c' evs'
                           | AFuel d' c' evs' => AFuel d' c' evs'
                           end.
Proof. intros A B p f. induction p; intros; cbn [bind sem]; auto. Qed.

(* ---- every register address a program ever touches is a 7-bit address ---- *)
Definition evsafe {A} (p : prog A) : Prop :=
  forall d c evs, Forall addr_ok evs -> Forall addr_ok (a_events (sem p d c evs)).

Lemma evsafe_ret : forall A (a : A), evsafe (Ret a). Proof. intros A a d c evs H. exact H. Qed.
Lemma evsafe_fail : forall A e, @evsafe A (Fail e). Proof. intros A e d c evs H. exact H. Qed.
Lemma evsafe_panic : forall A, @evsafe A PanicP. Proof. intros A d c evs H. exact H. Qed.
Lemma evsafe_fuel : forall A, @evsafe A FuelP. Proof. intros A d c evs H. exact H. Qed.
Lemma evsafe_bind : forall A B (p : prog A) (f : A -> prog B), evsafe p -> (forall a, evsafe (f a)) -> evsafe (bind p f).
Proof.
  intros A B p f Hp Hf d c evs H. rewrite sem_bind. specialize (Hp d c evs H).
  destruct (sem p d c evs); cbn [a_events] in *; try assumption. apply Hf. exact Hp.
Qed.
Lemma evsafe_write : forall a v, a < 128 -> evsafe (write_register a v).
Proof. intros a v Ha d c evs H. cbn. apply Forall_app. split; [exact H | constructor; [exact Ha | constructor]]. Qed.
Lemma evsafe_read : forall a n, a < 128 -> evsafe (read_register a n).
Proof. intros a n Ha d c evs H. cbn. apply Forall_app. split; [exact H | constructor; [exact Ha | constructor]]. Qed.
Lemma evsafe_delay : forall ms, evsafe (delay_ms ms).
Proof. intros ms d c evs H. cbn. apply Forall_app. split; [exact H | constructor; [unfold addr_ok; cbn; lia | constructor]]. Qed.
Lemma evsafe_get : evsafe get_shadow. Proof. intros d c evs H. exact H. Qed.
Lemma evsafe_put : forall d', evsafe (put_shadow d'). Proof. intros d' d c evs H. exact H. Qed.
Lemma evsafe_modify : forall f, evsafe (modify f). Proof. intros f d c evs H. exact H. Qed.
Lemma evsafe_lift : forall A (r : res A), evsafe (lift_res r). Proof. intros A [a| |] d c evs H; exact H. Qed.
Lemma evsafe_let : forall X A (e : X) (f : X -> prog A), (forall x, evsafe (f x)) -> evsafe (let x := e in f x).
Proof. intros X A e f H. exact (H e). Qed.

Ltac evsafe_step :=
  lazymatch goal with
  | |- evsafe (Ret _) => apply evsafe_ret
  | |- evsafe (Fail _) => apply evsafe_fail
  | |- evsafe PanicP => apply evsafe_panic
  | |- evsafe FuelP => apply evsafe_fuel
  | |- evsafe (bind _ _) => apply evsafe_bind; [ | intro ]
  | |- evsafe (write_register _ _) => apply evsafe_write; vm_compute; reflexivity
  | |- evsafe (read_register _ _) => apply evsafe_read; vm_compute; reflexivity
  | |- evsafe (delay_ms _) => apply evsafe_delay
  | |- evsafe get_shadow => apply evsafe_get
  | |- evsafe (put_shadow _) => apply evsafe_put
  | |- evsafe (modify _) => apply evsafe_modify
  | |- evsafe (lift_res _) => apply evsafe_lift
  | |- evsafe (let x := ?e in @?f x) => refine (evsafe_let _ _ e f _); intro
  | |- evsafe (if ?b then _ else _) => destruct b
  | |- evsafe (match ?x with _ => _ end) => destruct x
  | |- evsafe (?h _ _ _) => unfold h
  | |- evsafe (?h _ _) => unfold h
  | |- evsafe (?h _) => unfold h
  | |- evsafe ?h => unfold h
  end.
Ltac evsafe_all := repeat evsafe_step.

(* the verification hooks (load / raw access) are not part of the API *)
Definition api_only (op : api_op) : bool :=
  match op with Op_load _ _ | Op_raw_write _ _ | Op_raw_read _ _ => false | _ => true end.

Theorem step_evsafe : forall op, api_only op = true -> evsafe (step op).
Proof. intros op H. destruct op; try discriminate H; clear H; unfold step; evsafe_all. Qed.
