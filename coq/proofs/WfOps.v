(* WfOps.v — stepper for `wpw` (WfInv.v) over a generated body, on an explicit record of symbolic bytes whose ranges are known:
   the only obligation at a mirrored write is that the written value is a byte. *)
Require Import BMA.lib.Base BMA.lib.Reflect BMA.gen.GenTypes BMA.gen.GenPure BMA.lib.Prog BMA.gen.GenProg BMA.gen.GenMeta
               BMA.gen.GenLens BMA.lib.Run BMA.proofs.Generic BMA.proofs.Symex BMA.proofs.BuilderSpec BMA.proofs.Builders BMA.proofs.Coherent
               BMA.proofs.OdrInv BMA.proofs.OdrOps BMA.proofs.WfInv.
From Coq Require Import Lia.
Open Scope N_scope.

Section Step.
Context {B : Type} (Q : B -> Config -> Prop).
Lemma wpw_assoc : forall A C (p : prog A) (f : A -> prog C) (h : C -> prog B) d,
  wpw (bind p (fun x => bind (f x) h)) d Q -> wpw (bind (bind p f) h) d Q.
Proof.
  intros A C p f h d H. apply wpw_bind. apply wpw_bind. apply wpw_bind in H.
  eapply wpw_mono; [ | exact H]; cbv beta; intros a d1 H1; apply wpw_bind; exact H1.
Qed.
Lemma wpw_bind_ret : forall A (a : A) (k : A -> prog B) d, wpw (k a) d Q -> wpw (bind (Ret a) k) d Q. Proof. intros. exact H. Qed.
Lemma wpw_bind_fail : forall A e (k : A -> prog B) d, wfb d = true -> wpw (bind (Fail e) k) d Q. Proof. intros. exact H. Qed.
Lemma wpw_get : forall (k : Config -> prog B) d, wpw (k d) d Q -> wpw (bind get_shadow k) d Q. Proof. intros. exact H. Qed.
Lemma wpw_wm : forall (put : N -> Config -> Config) A V (F : Config -> Config) (K : prog B) d,
  (forall x, F x = put V x) -> wfb d = true -> wpw K (put V d) Q ->
  wpw (bind (write_register A V) (fun _ => bind (modify F) (fun _ => K))) d Q.
Proof. intros put A V F K d HF Ho H. cbn [bind write_register modify wpw]. rewrite HF. split; assumption. Qed.
Lemma wpw_wm2 : forall (put : N -> Config -> Config) A V (F : Config -> Config) (K : prog B) d,
  (forall x, F x = put V x) -> wfb d = true -> wpw K (put V d) Q ->
  wpw (bind (write_register A V) (fun _ => bind (bind (modify F) (fun _ => Ret tt)) (fun _ => K))) d Q.
Proof. intros put A V F K d HF Ho H. cbn [bind write_register modify wpw]. rewrite HF. split; assumption. Qed.
Lemma wpw_gw : forall (get : Config -> N) (put : N -> Config -> Config) (eta : forall d, put (get d) d = d)
  (c : bool) A V (F : Config -> Config) (K : prog B) d,
  (forall x, F x = put V x) -> wfb d = true -> wpw K (put (if c then V else get d) d) Q ->
  wpw (bind (if c then bind (write_register A V) (fun _ => bind (modify F) (fun _ => Ret tt)) else Ret tt) (fun _ => K)) d Q.
Proof.
  intros get put eta c A V F K d HF Ho H. destruct c; cbn [bind write_register modify wpw].
  - rewrite HF. split; assumption.
  - rewrite eta in H. exact H.
Qed.
Lemma wpw_if_get : forall C (c : bool) (P : Config -> prog C) (Q0 : prog C) (k : C -> prog B) d,
  wpw (bind (if c then P d else Q0) k) d Q -> wpw (bind (if c then bind get_shadow P else Q0) k) d Q.
Proof. intros C c P Q0 k d H. destruct c; exact H. Qed.
Lemma wpw_w : forall A V (k : unit -> prog B) d, wfb d = true -> wpw (k tt) d Q -> wpw (bind (write_register A V) k) d Q.
Proof. intros A V k d Ho H. cbn [bind write_register wpw]. split; assumption. Qed.
Lemma wpw_r : forall a n (k : list N -> prog B) d, wfb d = true -> (forall l, wpw (k l) d Q) -> wpw (bind (read_register a n) k) d Q.
Proof. intros a n k d Ho H. cbn [bind read_register wpw]. split; assumption. Qed.
Lemma wpw_dl : forall ms (k : unit -> prog B) d, wpw (k tt) d Q -> wpw (bind (delay_ms ms) k) d Q.
Proof. intros ms k d H. exact H. Qed.
Lemma wpw_lift : forall A (r : res A) (k : A -> prog B) d, wfb d = true -> (forall a, wpw (k a) d Q) -> wpw (bind (lift_res r) k) d Q.
Proof. intros A [a| |] k d Ho H; cbn [bind lift_res wpw]; [apply H | exact Ho | exact Ho]. Qed.
Lemma wpw_modify : forall (F : Config -> Config) (k : unit -> prog B) d, wpw (k tt) (F d) Q -> wpw (bind (modify F) k) d Q.
Proof. intros F k d H. exact H. Qed.
Lemma wpw_put : forall d0 (k : unit -> prog B) d, wpw (k tt) d0 Q -> wpw (bind (put_shadow d0) k) d Q.
Proof. intros d0 k d H. exact H. Qed.
End Step.

(* ---- "this expression is a byte" ---- *)
Lemma difference_lt : forall x m, x < 256 -> difference x m < 256.
Proof.
  intros x m H. unfold difference.
  assert (E : N.ldiff x m = N.land (N.ldiff x m) x) by bits2.
  pose proof (land_le_r (N.ldiff x m) x) as L. rewrite <- E in L. lia.
Qed.
Lemma log2_byte : forall x, x < 256 -> x = 0 \/ N.log2 x < 8.
Proof. intros x H. destruct (N.eq_dec x 0) as [E|E]; [left; exact E | right]. destruct (N.log2_lt_pow2 x 8) as [F _]; [lia|]. apply F. exact H. Qed.
Lemma union_lt : forall x m, x < 256 -> m < 256 -> union x m < 256.
Proof.
  intros x m Hx Hm. unfold union. destruct (N.eq_dec (N.lor x m) 0) as [E|E]; [rewrite E; reflexivity|].
  destruct (N.log2_lt_pow2 (N.lor x m) 8) as [_ G]; [lia|]. change 256 with (2 ^ 8). apply G. rewrite N.log2_lor.
  destruct (log2_byte x Hx) as [Ex|Lx], (log2_byte m Hm) as [Em|Lm]; subst; cbn [N.log2] in *; lia.
Qed.
Ltac byte_step :=
  lazymatch goal with
  | |- (if ?c then _ else _) < 256 => destruct c
  | |- difference _ _ < 256 => apply difference_lt
  | |- union _ _ < 256 => apply union_lt
  | |- N.lxor ?v ?v < 256 => rewrite N.lxor_nilpotent; reflexivity
  | |- N.land _ ?m < 256 => apply land_lt_mask; reflexivity
  | |- le_byte _ _ < 256 => unfold le_byte; apply land_lt_mask; reflexivity
  | |- ?x < 256 => first [ assumption | is_numN x; reflexivity ]
  end.
Ltac byte_fallback := apply N.ltb_lt; repeat match goal with H : _ = _ |- _ => clear H end; timeout 60 finite_reflect.
Ltac subst_nonbytes := repeat match goal with H : ?v = _ |- _ => is_var v; lazymatch type of v with N => fail | _ => subst v end end.
Ltac byte_lt := subst_nonbytes;
  repeat (unfold_cfg_fns; cbv_records; unfold_pure_fns; cbv beta iota delta [intersection contains bits from_bits_truncate arr_get u16_to_le_bytes ile_byte];
          change (N.to_nat 0) with 0%nat; change (N.to_nat 1) with 1%nat; cbv beta iota delta [nth]; byte_step);
  try byte_fallback.

(* the invariant of an explicit record from scratch: every field is a byte *)
Ltac wfb_full := unfold wfb, Config_dump; cbv_records; cbn [forallb snd]; repeat (apply andb_true_intro; split); try reflexivity; apply N.ltb_lt; byte_lt.
(* the current state's invariant is kept as a hypothesis and re-established after every mirrored write *)
Ltac renorm_wf WFraw :=
  lazymatch goal with |- wpw _ ?d2 _ => let WF2 := fresh "WF" in assert (WF2 : wfb d2 = true) by exact WFraw; clear WFraw end.
Ltac norm_state_ww :=
  lazymatch goal with
  | |- wpw ?K _ _ => let KK := fresh "KK" in set (KK := K); cbv beta; unfold_cfg_fns; cbv_records; rewrite ?if_same; subst KK
  end.
(* a let-bound byte gets its range fact at once (later values are built from it: no substitution, no blow-up) *)
Ltac let_range x Hx := try (lazymatch type of x with N => idtac end; let R := fresh "Rv" in assert (R : x < 256) by (rewrite Hx; byte_lt)).
Ltac ww_let :=
  lazymatch goal with
  | |- wpw (let x := ?e in @?P x) ?d ?Q =>
      let x' := fresh "v" in let Hx := fresh "E" x' in
      pose (x' := e); assert (Hx : x' = e) by reflexivity;
      change (wpw (P x') d Q); clearbody x'; cbv beta; let_range x' Hx
  | |- wpw (bind (let x := ?e in @?P x) ?k) ?d ?Q =>
      let x' := fresh "v" in let Hx := fresh "E" x' in
      pose (x' := e); assert (Hx : x' = e) by reflexivity;
      change (wpw (bind (P x') k) d Q); clearbody x'; cbv beta; let_range x' Hx
  end.
Ltac ww_step :=
  lazymatch goal with
  | |- wpw (bind (bind _ _) _) _ _ => refine (wpw_assoc _ _ _ _ _ _ _ _)
  | |- wpw (bind (Ret _) _) _ _ => refine (wpw_bind_ret _ _ _ _ _ _); cbv beta
  | |- wpw (bind (Fail _) _) _ _ => refine (wpw_bind_fail _ _ _ _ _ _); assumption
  | |- wpw (bind get_shadow _) _ _ => refine (wpw_get _ _ _ _); cbv beta
  | |- wpw (bind (write_register ?A ?V) (fun _ => bind (modify ?F) (fun _ => ?K))) ?d ?Q =>
      let a := eval vm_compute in A in
      lens_of a ltac:(fun get put eta =>
        let WFr := fresh "WFr" in
        assert (WFr : wfb (put V d) = true) by (apply (wfb_upd a V d); [assumption | byte_lt | reflexivity]);
        refine (wpw_wm Q put a V F K d (fun x => eq_refl) ltac:(assumption) _); norm_state_ww; renorm_wf WFr)
  | |- wpw (bind (if ?c then bind (write_register ?A ?V) (fun _ => bind (modify ?F) (fun _ => Ret tt)) else Ret tt) (fun _ => ?K)) ?d ?Q =>
      let a := eval vm_compute in A in
      lens_of a ltac:(fun get put eta =>
        let WFr := fresh "WFr" in
        assert (WFr : wfb (put (if c then V else get d) d) = true) by (apply (wfb_upd a (if c then V else get d) d); [assumption | byte_lt | reflexivity]);
        refine (wpw_gw Q get put eta c a V F K d (fun x => eq_refl) ltac:(assumption) _); norm_state_ww; renorm_wf WFr)
  | |- wpw (bind (write_register ?A ?V) (fun _ => bind (bind (modify ?F) (fun _ => Ret tt)) (fun _ => ?K))) ?d ?Q =>
      let a := eval vm_compute in A in
      lens_of a ltac:(fun get put eta =>
        let WFr := fresh "WFr" in
        assert (WFr : wfb (put V d) = true) by (apply (wfb_upd a V d); [assumption | byte_lt | reflexivity]);
        refine (wpw_wm2 Q put a V F K d (fun x => eq_refl) ltac:(assumption) _); norm_state_ww; renorm_wf WFr)
  | |- wpw (bind (if ?c then bind get_shadow ?P else ?Q0) ?k) ?d ?Q =>
      refine (wpw_if_get Q _ c P Q0 k d _); cbv beta
  | |- wpw (bind (if ?c then (let x := ?e in @?P x) else ?Q0) ?k) ?d ?Q =>
      let x' := fresh "v" in let Hx := fresh "E" x' in
      pose (x' := e); assert (Hx : x' = e) by reflexivity;
      change (wpw (bind (if c then P x' else Q0) k) d Q); clearbody x'; cbv beta; let_range x' Hx
  | |- wpw (bind (write_register ?A ?V) ?k) ?d ?Q => refine (wpw_w Q A V k d ltac:(assumption) _); cbv beta
  | |- wpw (bind (read_register ?a ?n) ?k) ?d ?Q => refine (wpw_r Q a n k d ltac:(assumption) _); let l := fresh "l" in intro l; cbv beta
  | |- wpw (bind (modify ?F) ?k) ?d ?Q => refine (wpw_modify Q F k d _); cbv beta; norm_state_ww;
      lazymatch goal with |- wpw _ ?d2 _ => let WF2 := fresh "WF" in assert (WF2 : wfb d2 = true) by wfb_full end
  | |- wpw (bind (put_shadow ?d0) ?k) ?d ?Q => refine (wpw_put Q d0 k d _); cbv beta;
      lazymatch goal with |- wpw _ ?d2 _ => let WF2 := fresh "WF" in assert (WF2 : wfb d2 = true) by (vm_compute; reflexivity) end
  | |- wpw (bind (delay_ms ?ms) ?k) ?d ?Q => refine (wpw_dl Q ms k d _); cbv beta
  | |- wpw (bind (lift_res ?r) ?k) ?d ?Q => refine (wpw_lift Q _ r k d ltac:(assumption) _); let a := fresh "a" in intro a; cbv beta
  | |- wpw (let x := _ in _) _ _ => ww_let
  | |- wpw (bind (let x := _ in _) _) _ _ => ww_let
  | |- wpw (bind (if ?c then _ else _) _) _ _ => destruct c
  | |- wpw (bind (match ?x with _ => _ end) _) _ _ => destruct x
  | |- wpw (if ?c then _ else _) _ _ => destruct c
  | |- wpw (match ?x with _ => _ end) _ _ => destruct x
  | |- wpw (Ret _) _ _ => cbn [wpw]; assumption
  | |- wpw (Fail _) _ _ => cbn [wpw]; assumption
  | |- wpw (bind (?h _ _ _) _) _ _ => unfold h
  | |- wpw (bind (?h _ _) _) _ _ => unfold h
  | |- wpw (bind (?h _) _) _ _ => unfold h
  | |- wpw (bind ?h _) _ _ => unfold h
  end.
Ltac ww := repeat ww_step.
Ltac ww_start d H0 := destruct_cfg d; pose proof H0 as WF0; wf_facts H0.


(* ---- setters: a configuration record made of bytes stays one, for well-typed arguments ---- *)
Ltac bytes_facts H := cbv_records_in H; cbn [forallb] in H;
  repeat (let R := fresh "Rc" in apply andb_prop in H; destruct H as [R H]; apply N.ltb_lt in R); clear H.
Ltac arg_facts H :=
  repeat match type of H with
  | (_ && _)%bool = true => let H1 := fresh "Ra" in apply andb_prop in H; destruct H as [H1 H]; arg_facts H1
  end;
  try match type of H with
  | N.ltb _ _ = true => apply N.ltb_lt in H
  | Z.leb _ _ = true => apply Z.leb_le in H
  | Z.ltb _ _ = true => apply Z.ltb_lt in H
  end.
Ltac bytes_goal := cbv_records; cbn [forallb]; repeat (apply andb_true_intro; split); try reflexivity; apply N.ltb_lt; byte_lt.
(* after `destruct s`: unfold the dispatcher, case on enumerated arguments and on the variant of the record *)
Ltac red_all := unfold_cfg_fns; cbv_records; unfold_pure_fns; cbv beta iota zeta delta [rbind].
Ltac head_of t := lazymatch t with ?f _ => head_of f | _ => t end.
(* after `destruct s`: the enumerated arguments are cased on (everything but numbers, booleans and the record itself, which is the
   LAST variable introduced before the hypotheses and is passed explicitly) *)
Ltac setter_wf c ap wf sw Hs Hc :=
  unfold ap; unfold sw in Hs; try arg_facts Hs;
  repeat match goal with x : ?T |- _ => lazymatch T with N => fail | Z => fail | bool => fail | _ => idtac end;
     lazymatch type of T with Prop => fail | _ => idtac end;
     lazymatch x with c => fail | _ => idtac end;
     destruct x end;
  try (let g := fresh "g" in destruct c as [g|g]);
  unfold wf in Hc; try bytes_facts Hc;
  repeat (progress red_all);
  repeat (lazymatch goal with
          | |- match (if ?b then _ else _) with _ => _ end => destruct b
          | |- match (match ?r with _ => _ end) with _ => _ end => destruct r
          | |- match ?r with _ => _ end => destruct r
          end; repeat (progress red_all));
  lazymatch goal with |- True => exact I | _ => unfold wf; bytes_goal end.
Ltac maker_wf := unfold_cfg_fns; unfold_pure_fns; cbv beta iota delta [snd]; bytes_goal.
