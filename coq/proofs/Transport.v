(* Transport.v — corollaries of Generic.v for whole API calls on a quiet bus. *)
Require Import BMA.lib.Base BMA.lib.Reflect BMA.gen.GenTypes BMA.gen.GenPure BMA.lib.Prog BMA.gen.GenProg BMA.gen.GenMeta
               BMA.lib.Encode BMA.gen.GenApi BMA.lib.Run BMA.lib.Driver BMA.proofs.Generic BMA.proofs.Rules.
From Coq Require Import Lia.
Open Scope N_scope.

Definition same_result {A} (o : aout A) (r : outcome A) : Prop :=
  match o, r with
  | ADone a _ _ _, Done a' _ => a = a'
  | AFailed e _ _ _, Failed e' _ => e = e'
  | APanic _ _ _, Panicked _ => True
  | AFuel _ _ _, OutOfFuel _ => True
  | _, _ => False
  end.

Lemma tracks_refl : forall frame w, quiet (hst w) -> tracks frame w w (shadow w) (hchip (hst w)) [].
Proof.
  intros frame w Q. unfold tracks. cbn [flat_map]. rewrite !app_nil_r. unfold nfall. cbn. rewrite N.add_0_r. repeat split; try reflexivity; apply Q.
Qed.

Theorem run_quiet : forall A T frame okT, faithful T frame okT -> forall (p : prog A) w, quiet (hst w) -> okT (hst w) -> evsafe p ->
  let o := sem p (shadow w) (hchip (hst w)) [] in
  tracks frame w (world_of (run T p w)) (a_shadow o) (a_chip o) (a_events o) /\ same_result o (run T p w).
Proof.
  intros A T frame okT FT p w Q Ok Ev o.
  pose proof (run_tracks A T frame okT FT p w w [] (tracks_refl frame w Q) Ok (Ev _ _ [] (Forall_nil _))) as H.
  unfold o. destruct (sem p (shadow w) (hchip (hst w)) []); destruct (run T p w); try contradiction; cbn [world_of a_shadow a_chip a_events same_result];
    intuition.
Qed.

(* the hand model of the three constructors touches 7-bit addresses only *)
Lemma ctor_evsafe : forall c, evsafe (ctor_prog c).
Proof. intros [| |]; unfold ctor_prog, check_id; evsafe_all. Qed.
