(* OdrOps.v — C06: the stepper that pushes `wpx` (OdrInv.v) through a generated body, path-sensitively, over an explicit
   record of symbolic bytes; the obligation "ov holds here" at every bus transaction is closed by evaluation over the
   bit tests that occur in it (no range hypothesis is needed: every atom is a bit test or the 4-bit ODR field). *)
Require Import BMA.lib.Base BMA.lib.Reflect BMA.gen.GenTypes BMA.gen.GenPure BMA.lib.Prog BMA.gen.GenProg BMA.gen.GenMeta
               BMA.gen.GenLens BMA.lib.Run BMA.proofs.Generic BMA.proofs.Symex BMA.proofs.BuilderSpec BMA.proofs.Builders
               BMA.proofs.OdrInv BMA.spec.Datasheet.
From Coq Require Import Lia.
Open Scope N_scope.

(* ---- the rule table over the six registers it reads ---- *)
Definition regs6 (odr i0 i1 s1 s2 s3 : N) (a : N) : N :=
  if N.eqb a 26 then odr else if N.eqb a 31 then i0 else if N.eqb a 32 then i1
  else if N.eqb a 63 then s1 else if N.eqb a 74 then s2 else if N.eqb a 86 then s3 else 0.
Definition ov6 (odr i0 i1 s1 s2 s3 : N) : bool := ov_f (regs6 odr i0 i1 s1 s2 s3).
Definition kind6 (k odr i0 i1 s1 s2 s3 : N) : bool := kind_ok k (regs6 odr i0 i1 s1 s2 s3).
Lemma ov_eq6 : forall d, ov d = ov6 (shv d 26) (shv d 31) (shv d 32) (shv d 63) (shv d 74) (shv d 86).
Proof. intro d. apply ov_f_ext. intros a H. cbn [In] in H. repeat (destruct H as [H|H]; [subst a; reflexivity|]). destruct H. Qed.
Lemma ov6_ov : forall d, ov6 (shv d 26) (shv d 31) (shv d 32) (shv d 63) (shv d 74) (shv d 86) = true -> ov d = true.
Proof. intros d H. rewrite ov_eq6. exact H. Qed.
Lemma kind_eq6 : forall k d, kind_ok k (shv d) = kind6 k (shv d 26) (shv d 31) (shv d 32) (shv d 63) (shv d 74) (shv d 86).
Proof.
  intros k d. unfold kind6, kind_ok, ds_odr_rules, rule_ok, ds_odr_addr. cbn [forallb].
  change (regs6 (shv d 26) (shv d 31) (shv d 32) (shv d 63) (shv d 74) (shv d 86) 26) with (shv d 26).
  change (regs6 (shv d 26) (shv d 31) (shv d 32) (shv d 63) (shv d 74) (shv d 86) 31) with (shv d 31).
  change (regs6 (shv d 26) (shv d 31) (shv d 32) (shv d 63) (shv d 74) (shv d 86) 32) with (shv d 32).
  change (regs6 (shv d 26) (shv d 31) (shv d 32) (shv d 63) (shv d 74) (shv d 86) 63) with (shv d 63).
  change (regs6 (shv d 26) (shv d 31) (shv d 32) (shv d 63) (shv d 74) (shv d 86) 74) with (shv d 74).
  change (regs6 (shv d 26) (shv d 31) (shv d 32) (shv d 63) (shv d 74) (shv d 86) 86) with (shv d 86).
  rewrite !intersects_0. reflexivity.
Qed.

(* the verdict a rejection must carry: the rules of its kind are violated by the state the request asks for *)
Definition rej_spec (e : BMA400Error) (dn : Config) : Prop :=
  match e with
  | BMA400Error_ConfigBuildError ConfigError_TapIntEnabledInvalidODR => kind_ok 0 (shv dn) = false
  | BMA400Error_ConfigBuildError ConfigError_Filt1InterruptInvalidODR => kind_ok 1 (shv dn) = false
  | _ => False
  end.
Lemma kind_false_ov : forall k d, kind_ok k (shv d) = false -> ov d = false.
Proof.
  intros k d H. unfold ov, ov_f. unfold kind_ok in H. apply Bool.not_true_is_false. intro T. rewrite forallb_forall in T.
  assert (F : forallb (fun r => match r with (_, _, _, _, _, k') => negb (N.eqb k k') || rule_ok (shv d) r end) ds_odr_rules = true).
  { apply forallb_forall. intros r Hr. destruct r as [[[[[en em] sa] sm] code] k']. rewrite (T _ Hr). apply orb_true_r. }
  congruence.
Qed.

(* ---- stepper lemmas ---- *)
Section Step.
Context {B : Type} (Q : B -> Config -> Prop) (QF : BMA400Error -> Config -> Prop).
Lemma wpx_assoc : forall A C (p : prog A) (f : A -> prog C) (h : C -> prog B) d,
  wpx (bind p (fun x => bind (f x) h)) d Q QF -> wpx (bind (bind p f) h) d Q QF.
Proof.
  intros A C p f h d H. apply wpx_bind. apply wpx_bind. apply wpx_bind in H.
  eapply wpx_mono; [ | | exact H]; cbv beta; [intros a d1 H1; apply wpx_bind; exact H1 | intros e d1 H1; exact H1].
Qed.
Lemma wpx_bind_ret : forall A (a : A) (k : A -> prog B) d, wpx (k a) d Q QF -> wpx (bind (Ret a) k) d Q QF. Proof. intros. exact H. Qed.
Lemma wpx_bind_fail : forall A e (k : A -> prog B) d, QF e d -> wpx (bind (Fail e) k) d Q QF. Proof. intros. exact H. Qed.
Lemma wpx_get : forall (k : Config -> prog B) d, wpx (k d) d Q QF -> wpx (bind get_shadow k) d Q QF. Proof. intros. exact H. Qed.
Lemma wpx_wm : forall (put : N -> Config -> Config) A V (F : Config -> Config) (K : prog B) d,
  (forall x, F x = put V x) -> ov d = true -> wpx K (put V d) Q QF ->
  wpx (bind (write_register A V) (fun _ => bind (modify F) (fun _ => K))) d Q QF.
Proof. intros put A V F K d HF Ho H. cbn [bind write_register modify wpx]. rewrite HF. split; assumption. Qed.
Lemma wpx_wm2 : forall (put : N -> Config -> Config) A V (F : Config -> Config) (K : prog B) d,
  (forall x, F x = put V x) -> ov d = true -> wpx K (put V d) Q QF ->
  wpx (bind (write_register A V) (fun _ => bind (bind (modify F) (fun _ => Ret tt)) (fun _ => K))) d Q QF.
Proof. intros put A V F K d HF Ho H. cbn [bind write_register modify wpx]. rewrite HF. split; assumption. Qed.
Lemma wpx_gw : forall (get : Config -> N) (put : N -> Config -> Config) (eta : forall d, put (get d) d = d)
  (c : bool) A V (F : Config -> Config) (K : prog B) d,
  (forall x, F x = put V x) -> ov d = true -> wpx K (put (if c then V else get d) d) Q QF ->
  wpx (bind (if c then bind (write_register A V) (fun _ => bind (modify F) (fun _ => Ret tt)) else Ret tt) (fun _ => K)) d Q QF.
Proof.
  intros get put eta c A V F K d HF Ho H. destruct c; cbn [bind write_register modify wpx].
  - rewrite HF. split; assumption.
  - rewrite eta in H. exact H.
Qed.
Lemma wpx_if_get : forall C (c : bool) (P : Config -> prog C) (Q0 : prog C) (k : C -> prog B) d,
  wpx (bind (if c then P d else Q0) k) d Q QF -> wpx (bind (if c then bind get_shadow P else Q0) k) d Q QF.
Proof. intros C c P Q0 k d H. destruct c; exact H. Qed.
(* transactions that are not mirrored into the shadow *)
Lemma wpx_w : forall A V (k : unit -> prog B) d, ov d = true -> wpx (k tt) d Q QF -> wpx (bind (write_register A V) k) d Q QF.
Proof. intros A V k d Ho H. cbn [bind write_register wpx]. split; assumption. Qed.
Lemma wpx_r : forall a n (k : list N -> prog B) d, ov d = true -> (forall l, wpx (k l) d Q QF) -> wpx (bind (read_register a n) k) d Q QF.
Proof. intros a n k d Ho H. cbn [bind read_register wpx]. split; assumption. Qed.
Lemma wpx_dl : forall ms (k : unit -> prog B) d, wpx (k tt) d Q QF -> wpx (bind (delay_ms ms) k) d Q QF.
Proof. intros ms k d H. exact H. Qed.
Lemma wpx_lift : forall A (r : res A) (k : A -> prog B) d, ov d = true -> (forall a, wpx (k a) d Q QF) -> wpx (bind (lift_res r) k) d Q QF.
Proof. intros A [a| |] k d Ho H; cbn [bind lift_res wpx]; [apply H | exact Ho | exact Ho]. Qed.
Lemma wpx_modify : forall (F : Config -> Config) (k : unit -> prog B) d, wpx (k tt) (F d) Q QF -> wpx (bind (modify F) k) d Q QF.
Proof. intros F k d H. exact H. Qed.
Lemma wpx_put : forall d0 (k : unit -> prog B) d, wpx (k tt) d0 Q QF -> wpx (bind (put_shadow d0) k) d Q QF.
Proof. intros d0 k d H. exact H. Qed.
End Step.

Ltac bits2 := apply N.bits_inj; let i := fresh "i" in intro i;
  repeat (rewrite N.land_spec || rewrite N.ldiff_spec || rewrite N.lor_spec || rewrite N.bits_0);
  repeat match goal with |- context [N.testbit ?x ?k] => destruct (N.testbit x k) end; reflexivity.
(* ---- bit-test algebra used to bring every atom to `intersects x m` with x a variable ---- *)
Lemma intersects_difference : forall x m k, intersects (difference x m) k = intersects x (N.ldiff k m).
Proof.
  intros x m k. unfold intersects, difference. f_equal.
  replace (N.land (N.ldiff x m) k) with (N.land x (N.ldiff k m)) by bits2. reflexivity.
Qed.
Lemma land_lor_distr : forall x m k, N.land (N.lor x m) k = N.lor (N.land x k) (N.land m k). Proof. intros. bits2. Qed.
Lemma intersects_union : forall x m k, intersects (union x m) k = (intersects x k || intersects m k)%bool.
Proof.
  intros x m k. unfold intersects, union. rewrite land_lor_distr.
  destruct (N.eqb_spec (N.land x k) 0) as [E1|E1], (N.eqb_spec (N.land m k) 0) as [E2|E2]; cbn [negb orb]; rewrite ?E1, ?E2.
  - reflexivity.
  - rewrite N.lor_0_l. apply negb_true_iff, N.eqb_neq. exact E2.
  - rewrite N.lor_0_r. apply negb_true_iff, N.eqb_neq. exact E1.
  - apply negb_true_iff, N.eqb_neq. intro E. apply N.lor_eq_0_iff in E. tauto.
Qed.
Lemma intersects_land : forall x m k, intersects (N.land x m) k = intersects x (N.land m k).
Proof. intros x m k. unfold intersects. rewrite N.land_assoc. reflexivity. Qed.
Lemma land_difference : forall x m k, N.land (difference x m) k = N.land x (N.ldiff k m).
Proof. intros. unfold difference. bits2. Qed.
Lemma land15_lt : forall x m, m < 256 -> N.land x m < 256.
Proof. intros x m H. pose proof (land_le_r x m). lia. Qed.
Lemma land_lt_mask : forall x m b, N.ltb m b = true -> N.land x m < b.
Proof. intros x m b H. apply N.ltb_lt in H. pose proof (land_le_r x m). lia. Qed.
Lemma land_if : forall (c : bool) x y m, N.land (if c then x else y) m = if c then N.land x m else N.land y m. Proof. intros [] *; reflexivity. Qed.
Lemma intersects_if : forall (c : bool) x y m, intersects (if c then x else y) m = if c then intersects x m else intersects y m.
Proof. intros [] *; reflexivity. Qed.

Lemma intersects_lor : forall x a b, intersects x (N.lor a b) = (intersects x a || intersects x b)%bool.
Proof.
  intros x a b. unfold intersects. replace (N.land x (N.lor a b)) with (N.lor (N.land x a) (N.land x b)) by bits2.
  destruct (N.eqb_spec (N.land x a) 0) as [E1|E1], (N.eqb_spec (N.land x b) 0) as [E2|E2]; cbn [negb orb]; rewrite ?E1, ?E2.
  - reflexivity.
  - rewrite N.lor_0_l. apply negb_true_iff, N.eqb_neq. exact E2.
  - rewrite N.lor_0_r. apply negb_true_iff, N.eqb_neq. exact E1.
  - apply negb_true_iff, N.eqb_neq. intro E. apply N.lor_eq_0_iff in E. tauto.
Qed.
Lemma neqb_difference : forall x m, neqb (difference x m) x = intersects x m.
Proof.
  intros x m. destruct (intersects x m) eqn:E.
  - apply intersects_true_neq. exact E.
  - apply intersects_false in E. unfold neqb, difference. apply negb_false_iff, N.eqb_eq. apply N.bits_inj. intro i. rewrite N.ldiff_spec.
    assert (H : N.testbit (N.land x m) i = false) by (rewrite E; apply N.bits_0). rewrite N.land_spec in H.
    destruct (N.testbit x i), (N.testbit m i); cbn in *; congruence.
Qed.
Lemma neqb_difference_r : forall x m, neqb x (difference x m) = intersects x m.
Proof. intros. rewrite neqb_sym. apply neqb_difference. Qed.
Lemma neqb_if_l : forall (c : bool) x y z, neqb (if c then x else y) z = if c then neqb x z else neqb y z. Proof. intros [] *; reflexivity. Qed.
Lemma neqb_if_r : forall (c : bool) x y z, neqb z (if c then x else y) = if c then neqb z x else neqb z y. Proof. intros [] *; reflexivity. Qed.
(* a test against a mask of several bits is the disjunction of the single-bit tests *)
Ltac split_masks := repeat match goal with |- context [intersects ?x ?m] => is_numN m;
  let hb := eval vm_compute in (N.pow 2 (N.log2 m)) in let rest := eval vm_compute in (N.ldiff m hb) in
  lazymatch rest with N0 => fail | _ => idtac end;
  change (intersects x m) with (intersects x (N.lor hb rest)); rewrite (intersects_lor x hb rest) end.
(* ---- clearing enable bits never breaks a rule ---- *)
Lemma intersects_mono : forall a b m, submask a b = true -> intersects a m = true -> intersects b m = true.
Proof.
  unfold submask, intersects. intros a b m S H. apply N.eqb_eq in S. apply negb_true_iff in H. apply negb_true_iff.
  apply N.eqb_neq in H. apply N.eqb_neq. intro E. apply H. rewrite <- S, <- N.land_assoc, E. apply N.land_0_r.
Qed.
Lemma rule_mono : forall (i j : N) (m : N) (x y : bool), submask j i = true ->
  (negb (intersects i m) || x || y)%bool = true -> (negb (intersects j m) || x || y)%bool = true.
Proof.
  intros i j m x y S H. destruct (intersects j m) eqn:E; [|reflexivity].
  rewrite (intersects_mono j i m S E) in H. exact H.
Qed.
Lemma ov6_mono : forall o i0 i1 j0 j1 s1 s2 s3, submask j0 i0 = true -> submask j1 i1 = true ->
  ov6 o i0 i1 s1 s2 s3 = true -> ov6 o j0 j1 s1 s2 s3 = true.
Proof.
  intros o i0 i1 j0 j1 s1 s2 s3 S0 S1 H. unfold ov6, ov_f, ds_odr_rules, rule_ok, ds_odr_addr in *. cbn [forallb] in *.
  cbv beta iota delta [regs6] in *.
  repeat match goal with H : context [N.eqb ?a ?b] |- _ => is_numN a; is_numN b; let r := eval vm_compute in (N.eqb a b) in change (N.eqb a b) with r in H end.
  closed_eqb. cbv iota in *.
  repeat (apply andb_prop in H; let H1 := fresh "R" in destruct H as [H1 H]).
  repeat (apply andb_true_intro; split); try reflexivity;
    first [ eapply (rule_mono i0 j0); [exact S0 | eassumption] | eapply (rule_mono i1 j1); [exact S1 | eassumption] ].
Qed.
Lemma submask_difference : forall x m y, submask x y = true -> submask (difference x m) y = true.
Proof. intros x m y H. apply (submask_trans _ x); [apply submask_ldiff | exact H]. Qed.
Lemma submask_if : forall (c : bool) a b y, submask a y = true -> submask b y = true -> submask (if c then a else b) y = true.
Proof. intros [] *; auto. Qed.
Ltac submask_tac := repeat first [ apply submask_refl | apply submask_if | apply submask_difference | apply submask_zero ].
(* 4-bit domains (the ODR field) *)
Definition all_u4 (f : N -> bool) : bool := forall_bits 4 f 0.
Lemma u4_true (f : N -> bool) : all_u4 f = true -> forall x, x < 16 -> f x = true.
Proof. unfold all_u4. intros H x Hx. refine (forall_bits_all 4 f H x _). change (2 ^ N.of_nat 4) with 16. exact Hx. Qed.
Ltac reflect_u4 := repeat match goal with H : ?x < 16 |- _ => revert x H;
  match goal with |- forall y, y < 16 -> @?f y = true => refine (u4_true f _) end end.

(* ---- the stepper ---- *)
(* state the obligation over the six registers of the current (explicit) shadow record *)
Ltac six_of d k :=
  field_at 26 d ltac:(fun t26 => field_at 31 d ltac:(fun t31 => field_at 32 d ltac:(fun t32 =>
  field_at 63 d ltac:(fun t63 => field_at 74 d ltac:(fun t74 => field_at 86 d ltac:(fun t86 => k t26 t31 t32 t63 t74 t86)))))).

Ltac closed_bits := repeat match goal with
  | |- context [N.ldiff ?a ?b] => is_numN a; is_numN b; let r := eval vm_compute in (N.ldiff a b) in change (N.ldiff a b) with r
  | |- context [N.land ?a ?b] => is_numN a; is_numN b; let r := eval vm_compute in (N.land a b) in change (N.land a b) with r
  | |- context [N.lor ?a ?b] => is_numN a; is_numN b; let r := eval vm_compute in (N.lor a b) in change (N.lor a b) with r
  | |- context [intersects ?a ?b] => is_numN a; is_numN b; let r := eval vm_compute in (intersects a b) in change (intersects a b) with r
  end.
Lemma goal_false : forall b : bool, negb b = true -> b = false. Proof. intros [] H; [discriminate | reflexivity]. Qed.
Ltac revert_conds := repeat match goal with H : ?c = ?b |- _ => lazymatch type of c with bool => idtac end; revert H;
   lazymatch goal with |- ?c' = ?b' -> ?P = true => refine (bool_hyp c' b' P _) end end.
(* every way a byte enters the rules is a bit test or a masked field: those become the variables of the evaluation *)
Ltac gen_atoms :=
  repeat match goal with |- context [intersects ?x ?m] => is_var x; let b := fresh "a" in generalize (intersects x m); intro b end;
  repeat match goal with |- context [N.land ?x ?m] => is_var x; is_numN m;
     let n := fresh "n" in let Hn := fresh "Rn" in
     first [ assert (Hn : N.land x m < 16) by (apply land_lt_mask; reflexivity) | assert (Hn : N.land x m < 256) by (apply land_lt_mask; reflexivity) ];
     revert Hn; generalize (N.land x m); intros n Hn end.
Ltac ov_close :=
  subst_eqs;
  repeat match goal with H : ?c = ?b |- _ => lazymatch type of c with bool => revert H end end;
  unfold_cfg_fns; cbv_records; unfold_pure_fns; intros;
  use_conds; repeat match goal with H : context [neqb _ _] |- _ => clear H end;
  lazymatch goal with |- _ = false => apply goal_false | _ => idtac end;
  revert_conds;
  cbv beta iota delta [ov6 kind6 ov_f kind_ok rule_ok regs6 ds_odr_rules ds_odr_addr ds_odr_mask forallb]; closed_eqb; cbv iota;
  unfold_cfg_fns; cbv_records; unfold_pure_fns; cbv beta iota delta [intersection contains bits from_bits_truncate];
  rewrite ?neqb_if_l, ?neqb_if_r; rewrite ?neqb_refl, ?neqb_difference, ?neqb_difference_r;
  gen_neqb;
  rewrite ?land_if, ?intersects_if;
  rewrite ?intersects_difference, ?intersects_union, ?land_difference, ?intersects_land, ?intersects_0; closed_bits; rewrite ?intersects_0; split_masks;
  gen_atoms; clear_unused; reflect_u4; timeout 300 finite_reflect.

(* enables with bits cleared relative to a state already known to satisfy the rules *)
Ltac ov_mono := subst_eqs; match goal with H : ov6 ?o ?i0 ?i1 ?s1 ?s2 ?s3 = true |- ov6 ?o ?j0 ?j1 ?s1 ?s2 ?s3 = true =>
  refine (ov6_mono o i0 i1 j0 j1 s1 s2 s3 _ _ H); unfold_cfg_fns; cbv_records; unfold_pure_fns; cbv beta iota; rewrite ?N.lxor_nilpotent; solve [submask_tac] end.
Ltac ov_solve := first [assumption | ov_mono | ov_close].
Ltac have_ov d H tac :=
  six_of d ltac:(fun t26 t31 t32 t63 t74 t86 =>
    assert (H : ov6 t26 t31 t32 t63 t74 t86 = true); [ ov_solve | tac ]).

Ltac norm_state_w :=
  lazymatch goal with
  | |- wpx ?K _ _ _ => let KK := fresh "KK" in set (KK := K); cbv beta; unfold_cfg_fns; cbv_records; rewrite ?if_same; subst KK
  end.

Ltac wx_let :=
  lazymatch goal with
  | |- wpx (let x := ?e in @?P x) ?d ?Q ?QF =>
      let x' := fresh "v" in let Hx := fresh "E" x' in
      pose (x' := e); assert (Hx : x' = e) by reflexivity;
      change (wpx (P x') d Q QF); clearbody x'; cbv beta
  | |- wpx (bind (let x := ?e in @?P x) ?k) ?d ?Q ?QF =>
      let x' := fresh "v" in let Hx := fresh "E" x' in
      pose (x' := e); assert (Hx : x' = e) by reflexivity;
      change (wpx (bind (P x') k) d Q QF); clearbody x'; cbv beta
  end.

Ltac wx_step :=
  lazymatch goal with
  | |- wpx (bind (bind _ _) _) _ _ _ => refine (wpx_assoc _ _ _ _ _ _ _ _ _)
  | |- wpx (bind (Ret _) _) _ _ _ => refine (wpx_bind_ret _ _ _ _ _ _ _); cbv beta
  | |- wpx (bind (Fail _) _) _ _ _ => refine (wpx_bind_fail _ _ _ _ _ _ _)
  | |- wpx (bind get_shadow _) _ _ _ => refine (wpx_get _ _ _ _ _); cbv beta
  | |- wpx (bind (write_register ?A ?V) (fun _ => bind (modify ?F) (fun _ => ?K))) ?d ?Q ?QF =>
      let a := eval vm_compute in A in let H := fresh "OV" in
      have_ov d H ltac:(lens_of a ltac:(fun get put eta => refine (wpx_wm Q QF put a V F K d (fun x => eq_refl) (ov6_ov d H) _)); norm_state_w)
  | |- wpx (bind (if ?c then bind (write_register ?A ?V) (fun _ => bind (modify ?F) (fun _ => Ret tt)) else Ret tt) (fun _ => ?K)) ?d ?Q ?QF =>
      let a := eval vm_compute in A in let H := fresh "OV" in
      have_ov d H ltac:(lens_of a ltac:(fun get put eta => refine (wpx_gw Q QF get put eta c a V F K d (fun x => eq_refl) (ov6_ov d H) _)); norm_state_w)
  | |- wpx (bind (write_register ?A ?V) (fun _ => bind (bind (modify ?F) (fun _ => Ret tt)) (fun _ => ?K))) ?d ?Q ?QF =>
      let a := eval vm_compute in A in let H := fresh "OV" in
      have_ov d H ltac:(lens_of a ltac:(fun get put eta => refine (wpx_wm2 Q QF put a V F K d (fun x => eq_refl) (ov6_ov d H) _)); norm_state_w)
  | |- wpx (bind (if ?c then bind get_shadow ?P else ?Q0) ?k) ?d ?Q ?QF =>
      refine (wpx_if_get Q QF _ c P Q0 k d _); cbv beta
  | |- wpx (bind (if ?c then (let x := ?e in @?P x) else ?Q0) ?k) ?d ?Q ?QF =>
      let x' := fresh "v" in let Hx := fresh "E" x' in
      pose (x' := e); assert (Hx : x' = e) by reflexivity;
      change (wpx (bind (if c then P x' else Q0) k) d Q QF); clearbody x'; cbv beta
  | |- wpx (bind (write_register ?A ?V) ?k) ?d ?Q ?QF =>
      let H := fresh "OV" in have_ov d H ltac:(refine (wpx_w Q QF A V k d (ov6_ov d H) _); cbv beta)
  | |- wpx (bind (read_register ?a ?n) ?k) ?d ?Q ?QF =>
      let H := fresh "OV" in have_ov d H ltac:(refine (wpx_r Q QF a n k d (ov6_ov d H) _); let l := fresh "l" in intro l; cbv beta)
  | |- wpx (bind (modify ?F) ?k) ?d ?Q ?QF => refine (wpx_modify Q QF F k d _); cbv beta; norm_state_w
  | |- wpx (bind (put_shadow ?d0) ?k) ?d ?Q ?QF => refine (wpx_put Q QF d0 k d _); cbv beta
  | |- wpx (bind (delay_ms ?ms) ?k) ?d ?Q ?QF => refine (wpx_dl Q QF ms k d _); cbv beta
  | |- wpx (bind (lift_res ?r) ?k) ?d ?Q ?QF =>
      let H := fresh "OV" in have_ov d H ltac:(refine (wpx_lift Q QF _ r k d (ov6_ov d H) _); let a := fresh "a" in intro a; cbv beta)
  | |- wpx (let x := _ in _) _ _ _ => wx_let
  | |- wpx (bind (let x := _ in _) _) _ _ _ => wx_let
  | |- wpx (bind (if ?c then _ else _) _) _ _ _ => let E := fresh "C" in destruct c eqn:E
  | |- wpx (bind (match ?x with _ => _ end) _) _ _ _ => let E := fresh "C" in destruct x eqn:E
  | |- wpx (if ?c then _ else _) _ _ _ => let E := fresh "C" in destruct c eqn:E
  | |- wpx (match ?x with _ => _ end) _ _ _ => let E := fresh "C" in destruct x eqn:E
  | |- wpx (Ret _) _ _ _ => cbn [wpx]
  | |- wpx (Fail _) _ _ _ => cbn [wpx]
  | |- wpx (bind (?h _ _ _) _) _ _ _ => unfold h
  | |- wpx (bind (?h _ _) _) _ _ _ => unfold h
  | |- wpx (bind (?h _) _) _ _ _ => unfold h
  | |- wpx (bind ?h _) _ _ _ => unfold h
  end.
Ltac wx := repeat wx_step.

(* the exits: a normal return (ov of the final shadow) and a rejection (ov of the unchanged shadow, and the verdict) *)
Ltac ov_goal := lazymatch goal with |- ov ?d = true =>
  six_of d ltac:(fun t26 t31 t32 t63 t74 t86 => refine (ov6_ov d (_ : ov6 t26 t31 t32 t63 t74 t86 = true)); ov_solve) end.
Ltac rej_goal := lazymatch goal with |- rej_spec _ ?dn =>
  cbn [rej_spec]; rewrite kind_eq6; eval_shv; ov_close end.
Ltac wx_exit := lazymatch goal with
  | |- ov _ = true => ov_goal
  | |- ov _ = true /\ rej_spec _ _ => split; [ ov_goal | rej_goal ]
  end.
(* entry: an explicit record and the hypothesis in the six-register form *)
Ltac wx_start d H0 :=
  destruct_cfg d; rewrite ov_eq6 in H0;
  lazymatch type of H0 with ov6 (shv ?r 26) _ _ _ _ _ = true =>
    six_of r ltac:(fun t26 t31 t32 t63 t74 t86 => change (ov6 t26 t31 t32 t63 t74 t86 = true) in H0) end.
