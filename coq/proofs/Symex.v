(* Symex.v — symbolic execution of the generated builder bodies over the shadow configuration
   (an explicit record of symbolic bytes), the device's three enable registers (ghost) and a
   journal that records, for every write, the device's enable registers at that instant.
   A guarded, mirrored write is merged into an unconditional update with if-valued fields, so
   the state stays flat and the number of paths stays small (DESIGN.md section 6.3). *)
Require Import BMA.lib.Base BMA.lib.Reflect BMA.gen.GenTypes BMA.gen.GenPure BMA.lib.Prog BMA.gen.GenProg BMA.gen.GenMeta
               BMA.gen.GenLens BMA.lib.Run BMA.proofs.Generic.
From Coq Require Import Lia.
Open Scope N_scope.

Record ghost : Type := mk_ghost { g_en0 : N; g_en1 : N; g_wk0 : N }.     (* device registers 0x1F, 0x20, 0x2F *)
Definition ghost_write (a v : N) (g : ghost) : ghost :=
  if N.eqb a 31 then mk_ghost v (g_en1 g) (g_wk0 g)
  else if N.eqb a 32 then mk_ghost (g_en0 g) v (g_wk0 g)
  else if N.eqb a 47 then mk_ghost (g_en0 g) (g_en1 g) v
  else g.
Record jw : Type := mk_jw { jw_addr : N; jw_val : N; jw_g : ghost }.   (* a write and the device enables just before it *)

Inductive xout (A : Type) : Type :=
| XDone (a : A) (d : Config) (g : ghost) (j : list jw)
| XFailed (e : BMA400Error) (d : Config) (g : ghost) (j : list jw)
| XOther.
Arguments XDone {A} a d g j. Arguments XFailed {A} e d g j. Arguments XOther {A}.

Fixpoint semx {A} (p : prog A) (d : Config) (g : ghost) (j : list jw) : xout A :=
  match p with
  | Ret a => XDone a d g j
  | Fail e => XFailed e d g j
  | PanicP => XOther
  | FuelP => XOther
  | Write a v k => semx k d (ghost_write a v g) (j ++ [mk_jw a v g])
  | Read _ _ _ => XOther
  | Delay _ _ => XOther
  | Get k => semx (k d) d g j
  | Put d' k => semx k d' g j
  end.

Definition QT (A : Type) : Type := A -> Config -> ghost -> list jw -> Prop.
Definition QFT : Type := BMA400Error -> Config -> ghost -> list jw -> Prop.

Definition postx {A} (p : prog A) (d : Config) (g : ghost) (j : list jw)
  (Q : A -> Config -> ghost -> list jw -> Prop) (QF : BMA400Error -> Config -> ghost -> list jw -> Prop) : Prop :=
  match semx p d g j with XDone a d' g' j' => Q a d' g' j' | XFailed e d' g' j' => QF e d' g' j' | XOther => False end.

Lemma semx_bind : forall A B (p : prog A) (f : A -> prog B) d g j,
  semx (bind p f) d g j = match semx p d g j with XDone a d' g' j' => semx (f a) d' g' j' | XFailed e d' g' j' => XFailed e d' g' j' | XOther => XOther end.
Proof. intros A B p f. induction p; intros; cbn [bind semx]; auto. Qed.

Lemma postx_ret : forall A (a : A) d g j (Q : QT A) (QF : QFT), Q a d g j -> postx (Ret a) d g j Q QF. Proof. intros. exact H. Qed.
Lemma postx_fail : forall A e d g j (Q : QT A) (QF : QFT), QF e d g j -> postx (Fail e) d g j Q QF. Proof. intros. exact H. Qed.
Lemma postx_bind_ret : forall A B (a : A) (k : A -> prog B) d g j (Q : QT B) (QF : QFT), postx (k a) d g j Q QF -> postx (bind (Ret a) k) d g j Q QF.
Proof. intros. exact H. Qed.
Lemma postx_bind_fail : forall A B e (k : A -> prog B) d g j (Q : QT B) (QF : QFT), QF e d g j -> postx (bind (Fail e) k) d g j Q QF.
Proof. intros. exact H. Qed.
Lemma postx_get : forall B (k : Config -> prog B) d g j (Q : QT B) (QF : QFT), postx (k d) d g j Q QF -> postx (bind get_shadow k) d g j Q QF.
Proof. intros. exact H. Qed.
Lemma postx_assoc : forall A B C (p : prog A) (f : A -> prog B) (h : B -> prog C) d g j (Q : QT C) (QF : QFT),
  postx (bind p (fun x => bind (f x) h)) d g j Q QF -> postx (bind (bind p f) h) d g j Q QF.
Proof.
  intros A B C p f h d g j Q QF H. unfold postx in *. rewrite semx_bind in H. rewrite !semx_bind.
  destruct (semx p d g j); try assumption. rewrite semx_bind in H. exact H.
Qed.

(* an unguarded mirrored write *)
Lemma postx_wm : forall B (put : N -> Config -> Config) A V (F : Config -> Config) (K : prog B) d g j (Q : QT B) (QF : QFT),
  (forall x, F x = put V x) ->
  postx K (put V d) (ghost_write A V g) (j ++ [mk_jw A V g]) Q QF ->
  postx (bind (write_register A V) (fun _ => bind (modify F) (fun _ => K))) d g j Q QF.
Proof. intros B put A V F K d g j Q QF HF H. unfold postx in *. cbn [bind write_register modify semx]. rewrite HF. exact H. Qed.

Lemma postx_wm2 : forall B (put : N -> Config -> Config) A V (F : Config -> Config) (K : prog B) d g j (Q : QT B) (QF : QFT),
  (forall x, F x = put V x) ->
  postx K (put V d) (ghost_write A V g) (j ++ [mk_jw A V g]) Q QF ->
  postx (bind (write_register A V) (fun _ => bind (bind (modify F) (fun _ => Ret tt)) (fun _ => K))) d g j Q QF.
Proof. intros B put A V F K d g j Q QF HF H. unfold postx in *. cbn [bind write_register modify semx]. rewrite HF. exact H. Qed.

(* the merge: a guarded mirrored write is an unconditional update with if-valued fields *)
Lemma postx_gw : forall B (get : Config -> N) (put : N -> Config -> Config) (eta : forall d, put (get d) d = d)
  (c : bool) A V (F : Config -> Config) (K : prog B) d g j (Q : QT B) (QF : QFT),
  (forall x, F x = put V x) ->
  postx K (put (if c then V else get d) d) (if c then ghost_write A V g else g) (j ++ (if c then [mk_jw A V g] else [])) Q QF ->
  postx (bind (if c then bind (write_register A V) (fun _ => bind (modify F) (fun _ => Ret tt)) else Ret tt) (fun _ => K)) d g j Q QF.
Proof.
  intros B get put eta c A V F K d g j Q QF HF H. unfold postx in *. destruct c; cbn [bind write_register modify semx].
  - rewrite HF. exact H.
  - rewrite eta, app_nil_r in H. exact H.
Qed.

(* a shadow read inside a guarded block has no effect of its own: hoist it so that the block can be merged *)
Lemma postx_if_get : forall B C (c : bool) (P : Config -> prog B) (Q0 : prog B) (k : B -> prog C) d g j (Q : QT C) (QF : QFT),
  postx (bind (if c then P d else Q0) k) d g j Q QF ->
  postx (bind (if c then bind get_shadow P else Q0) k) d g j Q QF.
Proof. intros B C c P Q0 k d g j Q QF H. destruct c; exact H. Qed.

Lemma if_ghost : forall (c : bool) a1 b1 c1 a2 b2 c2,
  (if c then mk_ghost a1 b1 c1 else mk_ghost a2 b2 c2) = mk_ghost (if c then a1 else a2) (if c then b1 else b2) (if c then c1 else c2).
Proof. intros [] *; reflexivity. Qed.
Lemma if_same : forall A (c : bool) (x : A), (if c then x else x) = x. Proof. intros A [] x; reflexivity. Qed.

(* ---- the stepper ---- *)
(* normalise the state arguments only: the remaining program is hidden behind a local definition meanwhile *)
Ltac norm_state :=
  lazymatch goal with
  | |- postx ?K _ _ _ _ _ =>
      let KK := fresh "KK" in set (KK := K);
      cbv_records; cbv beta iota delta [ghost_write g_en0 g_en1 g_wk0 N.eqb Pos.eqb]; rewrite ?if_ghost, ?if_same;
      subst KK
  end.

Ltac sx_let :=
  lazymatch goal with
  | |- postx (let x := ?e in @?P x) ?d ?g ?j ?Q ?QF =>
      let x' := fresh "v" in let Hx := fresh "E" x' in
      pose (x' := e); assert (Hx : x' = e) by reflexivity;
      change (postx (P x') d g j Q QF); clearbody x'; cbv beta;
      cbn in Hx
  | |- postx (bind (let x := ?e in @?P x) ?k) ?d ?g ?j ?Q ?QF =>
      let x' := fresh "v" in let Hx := fresh "E" x' in
      pose (x' := e); assert (Hx : x' = e) by reflexivity;
      change (postx (bind (P x') k) d g j Q QF); clearbody x'; cbv beta;
      cbn in Hx
  end.

Ltac sx_step :=
  lazymatch goal with
  | |- postx (bind (bind _ _) _) _ _ _ _ _ => refine (postx_assoc _ _ _ _ _ _ _ _ _ _ _ _)
  | |- postx (bind (Ret _) _) _ _ _ _ _ => refine (postx_bind_ret _ _ _ _ _ _ _ _ _ _); cbv beta
  | |- postx (bind (Fail _) _) _ _ _ _ _ => refine (postx_bind_fail _ _ _ _ _ _ _ _ _ _)
  | |- postx (bind get_shadow _) _ _ _ _ _ => refine (postx_get _ _ _ _ _ _ _ _); cbv beta
  | |- postx (bind (write_register ?A ?V) (fun _ => bind (modify ?F) (fun _ => ?K))) ?d ?g ?j ?Q ?QF =>
      let a := eval vm_compute in A in
      lens_of a ltac:(fun get put eta => refine (postx_wm _ put a V F K d g j Q QF (fun x => eq_refl) _)); norm_state
  | |- postx (bind (if ?c then bind (write_register ?A ?V) (fun _ => bind (modify ?F) (fun _ => Ret tt)) else Ret tt) (fun _ => ?K)) ?d ?g ?j ?Q ?QF =>
      let a := eval vm_compute in A in
      lens_of a ltac:(fun get put eta => refine (postx_gw _ get put eta c a V F K d g j Q QF (fun x => eq_refl) _)); norm_state
  | |- postx (bind (write_register ?A ?V) (fun _ => bind (bind (modify ?F) (fun _ => Ret tt)) (fun _ => ?K))) ?d ?g ?j ?Q ?QF =>
      let a := eval vm_compute in A in
      lens_of a ltac:(fun get put eta => refine (postx_wm2 _ put a V F K d g j Q QF (fun x => eq_refl) _)); norm_state
  | |- postx (bind (if ?c then bind get_shadow ?P else ?Q0) ?k) ?d ?g ?j ?Q ?QF =>
      refine (postx_if_get _ _ c P Q0 k d g j Q QF _); cbv beta
  | |- postx (bind (if ?c then (let x := ?e in @?P x) else ?Q0) ?k) ?d ?g ?j ?Q ?QF =>
      let x' := fresh "v" in let Hx := fresh "E" x' in
      pose (x' := e); assert (Hx : x' = e) by reflexivity;
      change (postx (bind (if c then P x' else Q0) k) d g j Q QF); clearbody x'; cbv beta;
      cbn in Hx
  | |- postx (let x := _ in _) _ _ _ _ _ => sx_let
  | |- postx (bind (let x := _ in _) _) _ _ _ _ _ => sx_let
  | |- postx (bind (if ?c then _ else _) _) _ _ _ _ _ => let E := fresh "C" in destruct c eqn:E
  | |- postx (bind (match ?x with _ => _ end) _) _ _ _ _ _ => let E := fresh "C" in destruct x eqn:E
  | |- postx (if ?c then _ else _) _ _ _ _ _ => let E := fresh "C" in destruct c eqn:E
  | |- postx (match ?x with _ => _ end) _ _ _ _ _ => let E := fresh "C" in destruct x eqn:E
  | |- postx (Ret _) _ _ _ _ _ => refine (postx_ret _ _ _ _ _ _ _ _)
  | |- postx (Fail _) _ _ _ _ _ => refine (postx_fail _ _ _ _ _ _ _ _)
  end.
Ltac sx := repeat sx_step.
