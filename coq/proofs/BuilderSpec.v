(* BuilderSpec.v — what C01 / C07 / C08 demand of one builder call, as checkable predicates over the
   result of the symbolic execution (proofs/Symex.v), plus the bit-level facts the verification
   conditions need.  The parameter-owner table comes from the datasheet (spec/Datasheet.v). *)
Require Import BMA.lib.Base BMA.lib.Reflect BMA.gen.GenTypes BMA.gen.GenPure BMA.lib.Prog BMA.gen.GenProg BMA.gen.GenMeta
               BMA.gen.GenLens BMA.lib.Run BMA.proofs.Generic BMA.proofs.Symex BMA.spec.Datasheet.
From Coq Require Import Lia.
Open Scope N_scope.

Definition shv (d : Config) (a : N) : N :=
  match find (fun p => N.eqb (fst p) a) (Config_dump d) with Some p => snd p | None => 0 end.
Definition greg (g : ghost) (a : N) : N :=
  if N.eqb a 31 then g_en0 g else if N.eqb a 32 then g_en1 g else if N.eqb a 47 then g_wk0 g else 0.
Definition ghost_of (d : Config) : ghost := mk_ghost (shv d 31) (shv d 32) (shv d 47).
Definition ENABLES : list N := [31; 32; 47].

(* C07: a write to a parameter register happens while the owning enable bits are clear on the device *)
Definition c07_entry (e : jw) : bool :=
  forallb (fun row => match row with (p, en, m) => negb (N.eqb p (jw_addr e)) || N.eqb (N.land (greg (jw_g e) en) m) 0 end) ds_param_owner.
(* C08: only the block and the enable registers are written; a block register is written only with the requested
   value and only if the device held a different one when the call started *)
Definition c08_entry (blk : list N) (d0 : Config) (req : N -> N) (e : jw) : bool :=
  let a := jw_addr e in
  (existsb (N.eqb a) blk || existsb (N.eqb a) ENABLES)
  && (negb (existsb (N.eqb a) blk) || existsb (N.eqb a) ENABLES || (N.eqb (jw_val e) (req a) && neqb (shv d0 a) (req a))).
Definition entry_ok (blk : list N) (d0 : Config) (req : N -> N) (e : jw) : bool := c07_entry e && c08_entry blk d0 req e.

Definition vals_at (a : N) (j : list jw) : list N := map jw_val (filter (fun e => N.eqb (jw_addr e) a) j).
Definition submask (a b : N) : bool := N.eqb (N.land a b) a.
(* an enable register is either left alone or first written with some bits cleared and last written with its original value *)
Definition toggle_ok (orig : N) (ws : list N) : bool :=
  match ws with
  | [] => true
  | first :: _ => submask first orig && neqb first orig && forallb (fun v => submask v orig) ws && N.eqb (last ws 0) orig
  end.

(* ---- journal pieces ---- *)
Lemma forallb_if : forall (P : jw -> bool) (c : bool) e, forallb P (if c then [e] else []) = (negb c || P e).
Proof. intros P [] e; cbn; [rewrite andb_true_r|]; reflexivity. Qed.
Lemma filter_if : forall (f : jw -> bool) (c : bool) e, filter f (if c then [e] else []) = if (c && f e)%bool then [e] else [].
Proof. intros f [] e; cbn; [destruct (f e)|]; reflexivity. Qed.

(* ---- bit facts (for every N, no range hypothesis) ---- *)
Ltac bits := apply N.bits_inj; let i := fresh "i" in intro i; rewrite ?N.land_spec, ?N.ldiff_spec, ?N.lor_spec, ?N.lxor_spec, ?N.bits_0;
  repeat match goal with |- context [N.testbit ?x ?k] => destruct (N.testbit x k) end; reflexivity.
Lemma land_ldiff_same : forall x m, N.land (N.ldiff x m) m = 0. Proof. intros. bits. Qed.
Lemma submask_ldiff : forall x m, submask (N.ldiff x m) x = true.
Proof. intros x m. unfold submask. apply N.eqb_eq. bits. Qed.
Lemma submask_refl : forall x, submask x x = true. Proof. intro x. unfold submask. rewrite N.land_diag. apply N.eqb_refl. Qed.
Lemma submask_trans : forall a b c, submask a b = true -> submask b c = true -> submask a c = true.
Proof.
  unfold submask. intros a b c H1 H2. apply N.eqb_eq in H1. apply N.eqb_eq in H2. apply N.eqb_eq.
  rewrite <- H1 at 1. rewrite <- N.land_assoc, H2. exact H1.
Qed.
Lemma submask_zero : forall x, submask 0 x = true. Proof. intro x. reflexivity. Qed.
Lemma lxor_self : forall x, N.lxor x x = 0. Proof. apply N.lxor_nilpotent. Qed.
Lemma intersects_false : forall x m, intersects x m = false -> N.land x m = 0.
Proof. unfold intersects. intros x m H. apply negb_false_iff in H. apply N.eqb_eq. exact H. Qed.
Lemma intersects_true_neq : forall x m, intersects x m = true -> neqb (N.ldiff x m) x = true.
Proof.
  unfold intersects, neqb. intros x m H. apply negb_true_iff in H. apply negb_true_iff. apply N.eqb_neq in H. apply N.eqb_neq. intro E.
  apply H. rewrite <- E. apply land_ldiff_same.
Qed.
Lemma neqb_false_eq : forall a b, neqb a b = false -> a = b.
Proof. unfold neqb. intros a b H. apply negb_false_iff in H. apply N.eqb_eq. exact H. Qed.
Lemma neqb_refl : forall a, neqb a a = false. Proof. intro a. unfold neqb. rewrite N.eqb_refl. reflexivity. Qed.
Lemma neqb_sym : forall a b, neqb a b = neqb b a. Proof. intros. unfold neqb. rewrite N.eqb_sym. reflexivity. Qed.
