(* I2cSim.v — over I2C the HAL-level model (one HAL call per register transaction, a failed call not applied, the strapped
   address answering) behaves exactly like the register-level transport T_reg under the same fault plan: same results, same
   error tokens, same shadow, same chip.  Every T_reg theorem about results / shadow / chip therefore holds over I2C at HAL
   level (C16, C06, C10, C11, C19 device-level statements).  Needs: every register address the program touches is below 256
   (`aok`: below 128, proved for every API operation by traversal of the generated bodies). *)
Require Import BMA.lib.Base BMA.lib.Reflect BMA.gen.GenTypes BMA.gen.GenPure BMA.lib.Prog BMA.gen.GenProg BMA.gen.GenMeta
               BMA.lib.Encode BMA.gen.GenApi BMA.lib.Run BMA.lib.Driver BMA.proofs.Generic BMA.proofs.Rules.
From Coq Require Import Lia.
Open Scope N_scope.

Definition simh (dev : N) (h h' : hstate) : Prop :=
  hchip h = hchip h' /\ ncalls h = ncalls h' /\ faults h = faults h' /\ strap h = dev.
Definition simw (dev : N) (w w' : world) : Prop := shadow w = shadow w' /\ simh dev (hst w) (hst w').
Definition simo {A} (dev : N) (o o' : outcome A) : Prop :=
  match o, o' with
  | Done a w, Done a' w' => a = a' /\ simw dev w w'
  | Failed e w, Failed e' w' => e = e' /\ simw dev w w'
  | Panicked w, Panicked w' => simw dev w w'
  | OutOfFuel w, OutOfFuel w' => simw dev w w'
  | _, _ => False
  end.

(* every address a program can touch is a 7-bit address *)
Fixpoint aok {A} (p : prog A) : Prop :=
  match p with
  | Write a v k => a < 128 /\ aok k
  | Read a n k => a < 128 /\ forall l, aok (k l)
  | Delay _ k => aok k
  | Get k => forall d, aok (k d)
  | Put _ k => aok k
  | _ => True
  end.

Ltac sim_done := unfold simw, simh, log_ev, set_chip, log_raw in *; cbn [shadow hst hchip ncalls faults strap] in *; repeat match goal with H : _ /\ _ |- _ => destruct H end; repeat split; try reflexivity; try assumption; try congruence.

Lemma faulty_sim : forall dev h h', simh dev h h' -> faulty h = faulty h'.
Proof. intros dev h h' [_ [N [F _]]]. unfold faulty. rewrite N, F. reflexivity. Qed.

Lemma i2c_write_sim : forall dev a v h h', simh dev h h' ->
  fst (i2c_write dev a v h) = fst (reg_write a v h') /\ simh dev (snd (i2c_write dev a v h)) (snd (reg_write a v h')).
Proof.
  intros dev a v h h' S. pose proof (faulty_sim dev h h' S) as Fa. destruct S as [C [N [F St]]]. subst dev.
  unfold i2c_write, hal_i2c_write, reg_write, attempt, log_raw, set_chip. rewrite <- Fa.
  destruct (faulty h); cbn [fst snd hchip raw ncalls faults cs_low win strap stray]; rewrite ?N.eqb_refl; cbn [negb fst snd write_seq hchip raw ncalls faults cs_low win strap stray].
  - rewrite N. split; [reflexivity|]. sim_done.
  - rewrite C. split; [reflexivity|]. sim_done.
Qed.

Lemma i2c_read_sim : forall dev a n h h', simh dev h h' -> a < 256 ->
  fst (i2c_read dev a n h) = fst (reg_read a n h') /\ simh dev (snd (i2c_read dev a n h)) (snd (reg_read a n h')).
Proof.
  intros dev a n h h' S Ha. pose proof (faulty_sim dev h h' S) as Fa. destruct S as [C [N [F St]]]. subst dev.
  unfold i2c_read, hal_i2c_write_read, reg_read, attempt, log_raw, set_chip. rewrite <- Fa.
  destruct (faulty h); cbn [fst snd hchip raw ncalls faults cs_low win strap stray]; rewrite ?N.eqb_refl; cbn [negb fst snd write_seq hchip raw ncalls faults cs_low win strap stray].
  - rewrite N. split; [reflexivity|]. sim_done.
  - change (len (@nil BinNums.N)) with 0. rewrite N.add_0_r.
    replace (N.land a 255) with a by (symmetry; change 255 with (N.ones 8); rewrite N.land_ones; apply N.mod_small; exact Ha).
    rewrite C. destruct (chip_read a n (hchip h')) as [l c2]. cbn [fst snd hchip raw ncalls faults cs_low win strap stray].
    split; [reflexivity|]. sim_done.
Qed.

Theorem i2c_is_reg : forall A dev (p : prog A), aok p -> forall w w', simw dev w w' ->
  simo dev (run (T_i2c dev) p w) (run T_reg p w').
Proof.
  intros A dev p. induction p as [a|e| | |a v k IH|a n k IH|ms k IH|k IH|d' k IH]; intros Hok w w' S; cbn [run aok simo] in *.
  - split; [reflexivity | exact S].
  - split; [reflexivity | exact S].
  - exact S.
  - exact S.
  - (* Write *)
    destruct Hok as [Ha Hk]. destruct S as [Sd Sh]. cbn [t_write T_i2c T_reg].
    pose proof (i2c_write_sim dev a v (hst w) (hst w') Sh) as [E1 E2].
    destruct (i2c_write dev a v (hst w)) as [r h1]. destruct (reg_write a v (hst w')) as [r' h1']. cbn [fst snd] in *. subst r'.
    destruct r as [e|].
    + cbn [simo]. split; [reflexivity|]. sim_done.
    + apply IH; [exact Hk|]. sim_done.
  - (* Read *)
    destruct Hok as [Ha Hk]. destruct S as [Sd Sh]. cbn [t_read T_i2c T_reg].
    assert (Ha' : a < 256) by lia.
    pose proof (i2c_read_sim dev a n (hst w) (hst w') Sh Ha') as [E1 E2].
    destruct (i2c_read dev a n (hst w)) as [r h1]. destruct (reg_read a n (hst w')) as [r' h1']. cbn [fst snd] in *. subst r'.
    destruct r as [e|l].
    + cbn [simo]. split; [reflexivity|]. sim_done.
    + apply IH; [apply Hk|]. sim_done.
  - (* Delay *)
    apply IH; [exact Hok|]. destruct S as [Sd [C [N [F St]]]]. sim_done.
  - (* Get *)
    destruct S as [Sd Sh]. rewrite Sd. apply IH; [apply Hok|]. split; [exact Sd | exact Sh].
  - (* Put *)
    apply IH; [exact Hok|]. destruct S as [Sd Sh]. sim_done.
Qed.

(* ---- every API operation only touches 7-bit addresses: traversal of the generated bodies ---- *)
Lemma aok_bind : forall A B (p : prog A) (f : A -> prog B), aok p -> (forall a, aok (f a)) -> aok (bind p f).
Proof.
  intros A B p f. induction p as [a|e| | |a v k IH|a n k IH|ms k IH|k IH|d' k IH]; intros Hp Hf; cbn [bind aok] in *.
  - apply Hf.
  - exact I.
  - exact I.
  - exact I.
  - destruct Hp as [H1 H2]. split; [exact H1 | apply IH; assumption].
  - destruct Hp as [H1 H2]. split; [exact H1 | intro l; apply IH; [apply H2 | exact Hf]].
  - apply IH; assumption.
  - intro d. apply IH; [apply Hp | exact Hf].
  - apply IH; assumption.
Qed.
Lemma aok_write : forall a v, a < 128 -> aok (write_register a v). Proof. intros a v H. cbn. auto. Qed.
Lemma aok_read : forall a n, a < 128 -> aok (read_register a n). Proof. intros a n H. cbn. auto. Qed.
Lemma aok_lift : forall A (r : res A), aok (lift_res r). Proof. intros A [a| |]; exact I. Qed.
Lemma aok_let : forall X A (e : X) (f : X -> prog A), (forall x, aok (f x)) -> aok (let x := e in f x).
Proof. intros X A e f H. exact (H e). Qed.

Ltac aok_step :=
  lazymatch goal with
  | |- aok (Ret _) => exact I
  | |- aok (Fail _) => exact I
  | |- aok PanicP => exact I
  | |- aok FuelP => exact I
  | |- aok (bind _ _) => apply aok_bind; [ | intro ]
  | |- aok (write_register _ _) => apply aok_write; vm_compute; reflexivity
  | |- aok (read_register _ _) => apply aok_read; vm_compute; reflexivity
  | |- aok (delay_ms _) => exact I
  | |- aok get_shadow => intro; exact I
  | |- aok (put_shadow _) => exact I
  | |- aok (modify _) => intro; exact I
  | |- aok (lift_res _) => apply aok_lift
  | |- aok (let x := ?e in @?f x) => refine (aok_let _ _ e f _); intro
  | |- aok (if ?b then _ else _) => destruct b
  | |- aok (match ?x with _ => _ end) => destruct x
  | |- aok (?h _ _ _) => unfold h
  | |- aok (?h _ _) => unfold h
  | |- aok (?h _) => unfold h
  | |- aok ?h => unfold h
  end.
Ltac aok_all := repeat aok_step.

Theorem step_aok : forall op, api_only op = true -> aok (step op).
Proof. intros op H. destruct op; try discriminate H; clear H; unfold step; aok_all. Qed.

(* every API call, as the harness runs it (own fault plan), gives over I2C exactly what it gives over T_reg: result or error with its
   token, shadow, chip, call counter — whatever is proved about `run T_reg (step op)` in terms of these holds over I2C at HAL level *)
Theorem i2c_api_call : forall dev op fl w, api_only op = true -> strap (hst w) = dev ->
  simo dev (run (T_i2c dev) (step op) (begin_call fl w)) (run T_reg (step op) (begin_call fl w)).
Proof.
  intros dev op fl w Hop Hs. apply i2c_is_reg; [apply step_aok; exact Hop|].
  unfold simw, simh, begin_call. cbn [shadow hst hchip ncalls faults strap]. auto.
Qed.
