(* Fifo.v — the generated FIFO iterator refines a small specification parser; facts about
   header bytes are closed by evaluation over all 256 values, cursor arithmetic by lia
   (DESIGN.md section 6.5). *)
Require Import BMA.lib.Base BMA.lib.Reflect BMA.gen.GenTypes BMA.gen.GenPure BMA.gen.GenMeta.
From Coq Require Import Lia ZifyBool.
Open Scope N_scope.

(* ---- specification side: header classification and payload length per the datasheet ---- *)
Definition hb (h : N) : N := from_bits_truncate Header_ALL h.
Definition is_time (h : N) : bool := N.eqb (N.land h 160) 160.
Definition is_ctrl (h : N) : bool := negb (is_time h) && N.testbit h 6.
Definition is_data (h : N) : bool := negb (is_time h) && negb (N.testbit h 6).
Definition axes (h : N) : N := N.land (N.shiftr h 1) 7.
Definition popcount3 (a : N) : N := N.land a 1 + N.land (N.shiftr a 1) 1 + N.land (N.shiftr a 2) 1.
Definition is12 (h : N) : bool := N.testbit h 4.
Definition spec_empty (h : N) : bool := is_data h && N.eqb (axes h) 0.
Definition spec_payload (h : N) : N :=
  if is_time h then 3 else if is_ctrl h then 1
  else if N.eqb (axes h) 0 then 1 else popcount3 (axes h) * (if is12 h then 2 else 1).

Lemma hdr_empty : forall h, h < 256 ->
  andb (match Header_frame_type (hb h) with FrameType_Data => true | _ => false end) (negb (Header_has_data (hb h))) = spec_empty h.
Proof. intros h H. finite_reflect. Qed.
Lemma hdr_payload : forall h, h < 256 -> Header_num_payload_bytes (hb h) = Ok (spec_payload h).
Proof. intros h H. finite_reflect. Qed.
Lemma payload_bounds : forall h, h < 256 -> (N.leb 1 (spec_payload h) && N.leb (spec_payload h) 6)%bool = true.
Proof. intros h H. finite_reflect. Qed.
Lemma hdr_type : forall h, h < 256 ->
  Header_frame_type (hb h) = if is_time h then FrameType_Time else if is_ctrl h then FrameType_Control else FrameType_Data.
Proof.
  intros h H.
  assert (E : (match Header_frame_type (hb h) with FrameType_Data => 0 | FrameType_Time => 1 | FrameType_Control => 2 end)
              = (if is_time h then 1 else if is_ctrl h then 2 else 0)) by finite_reflect.
  destruct (Header_frame_type (hb h)), (is_time h), (is_ctrl h); try reflexivity; discriminate E.
Qed.

(* ---- generic list / slice facts ---- *)
Definition bytes_ok (l : list N) : Prop := Forall (fun b => b < 256) l.
Lemma idx_nth : forall (l : list N) i, i < len l -> idx l i = Ok (nth (N.to_nat i) l 0).
Proof.
  intros l i H. unfold idx, len in *.
  destruct (nth_error l (N.to_nat i)) eqn:E.
  - rewrite (nth_error_nth l _ 0 E). reflexivity.
  - apply nth_error_None in E. lia.
Qed.
Lemma nth_bytes_ok : forall l i, bytes_ok l -> nth i l 0 < 256.
Proof.
  intros l i H. destruct (Nat.ltb_spec i (length l)) as [L|L].
  - unfold bytes_ok in H. rewrite Forall_forall in H. apply H. apply nth_In. exact L.
  - rewrite nth_overflow by exact L. reflexivity.
Qed.

(* ---- the specification parser: one step ---- *)
Definition next_spec (it : FifoFrames) : FifoFrames * option Frame :=
  let i := FifoFrames_index it in
  let l := FifoFrames_bytes it in
  if N.leb (len l) i then (it, None)
  else
    let h := nth (N.to_nat i) l 0 in
    if spec_empty h then (mk_FifoFrames (i + 2) l, None)
    else
      let j := i + (spec_payload h + 1) in
      if N.ltb (len l) j then (mk_FifoFrames j l, None)
      else (mk_FifoFrames j l, Some (mk_Frame (firstn (N.to_nat (spec_payload h + 1)) (skipn (N.to_nat i) l)))).

(* the refinement is proved by case analysis driven by the shape the generated function happens to have (guards, lets and
   operand order may change): header facts are rewritten to the specification's atoms, every conditional of both sides is split,
   inconsistent branches die by arithmetic, consistent ones agree up to arithmetic on the cursor *)
Lemma hdr_has_data : forall h, h < 256 -> Header_has_data (hb h) = (is_data h && negb (N.eqb (axes h) 0))%bool.
Proof. intros h H. finite_reflect. Qed.
Ltac split_all := repeat match goal with
  | |- context [if ?c then _ else _] => lazymatch c with context [if _ then _ else _] => fail | _ => idtac end; destruct c eqn:?
  | |- context [match ?x with FrameType_Data => _ | _ => _ end] => is_var x; destruct x eqn:?
  end.
Ltac close_leaf := first [ reflexivity | exfalso; lia | exfalso; congruence | solve [repeat (f_equal; try lia)] ].

Theorem next_refines : forall it, bytes_ok (FifoFrames_bytes it) -> FifoFrames_next it = Ok (next_spec it).
Proof.
  intros [i l] Hb. unfold FifoFrames_next, next_spec.
  cbv beta iota zeta delta [FifoFrames_index FifoFrames_bytes set_FifoFrames_index].
  destruct (N.ltb_spec i (len l)) as [Hi|Hi].
  - rewrite ?(idx_nth l i Hi). cbv beta iota zeta delta [rbind].
    pose proof (nth_bytes_ok l (N.to_nat i) Hb) as Hh.
    set (h := nth (N.to_nat i) l 0) in *.
    change (from_bits_truncate Header_ALL h) with (hb h).
    rewrite ?(hdr_has_data h Hh), ?(hdr_type h Hh), ?(hdr_payload h Hh). cbv beta iota zeta delta [rbind].
    pose proof (payload_bounds h Hh) as Pb.
    unfold spec_empty, is_data, is_ctrl, slice_range.
    generalize dependent (spec_payload h). intros p Pb.
    destruct (is_time h), (N.testbit h 6), (N.eqb (axes h) 0); cbn [negb andb orb]; cbv beta iota zeta delta [rbind];
      split_all; cbv beta iota zeta delta [rbind]; close_leaf.
  - split_all; close_leaf.
Qed.

(* ---- consequences used by C05 ---- *)
Lemma len_firstn_skipn : forall (l : list N) (i n : nat), (i + n <= length l)%nat -> length (firstn n (skipn i l)) = n.
Proof. intros l i n H. rewrite firstn_length, skipn_length. lia. Qed.

Lemma next_spec_bytes : forall it, FifoFrames_bytes (fst (next_spec it)) = FifoFrames_bytes it.
Proof.
  intros [i l]. unfold next_spec. cbv [FifoFrames_index FifoFrames_bytes].
  destruct (N.leb (len l) i); [reflexivity|]. destruct (spec_empty _); [reflexivity|].
  destruct (N.ltb _ _); reflexivity.
Qed.

(* cursor movement of one call *)
Lemma next_spec_cursor : forall it, bytes_ok (FifoFrames_bytes it) ->
  let i := FifoFrames_index it in let i' := FifoFrames_index (fst (next_spec it)) in
  (len (FifoFrames_bytes it) <= i -> next_spec it = (it, None)) /\
  (i < len (FifoFrames_bytes it) -> i + 2 <= i' <= i + 7).
Proof.
  intros [i l] Hb. cbv [FifoFrames_index FifoFrames_bytes]. unfold next_spec. cbv [FifoFrames_index FifoFrames_bytes].
  split.
  - intro H. apply N.leb_le in H. rewrite H. reflexivity.
  - intro H. apply N.leb_gt in H. rewrite H.
    pose proof (nth_bytes_ok l (N.to_nat i) Hb) as Hh.
    pose proof (payload_bounds _ Hh) as Pb. apply andb_prop in Pb. destruct Pb as [P1 P2].
    apply N.leb_le in P1. apply N.leb_le in P2.
    destruct (spec_empty _); [cbn; lia|].
    destruct (N.ltb _ _); cbn; lia.
Qed.

(* a yielded frame is the sub-slice [cursor, cursor + 1 + payload) of the buffer *)
Lemma next_spec_frame : forall it f it', bytes_ok (FifoFrames_bytes it) -> next_spec it = (it', Some f) ->
  let i := FifoFrames_index it in let l := FifoFrames_bytes it in
  let h := nth (N.to_nat i) l 0 in
  Frame_slice f = firstn (N.to_nat (spec_payload h + 1)) (skipn (N.to_nat i) l)
  /\ len (Frame_slice f) = 1 + spec_payload h
  /\ i + len (Frame_slice f) <= len l
  /\ FifoFrames_index it' = i + len (Frame_slice f)
  /\ spec_empty h = false
  /\ nth 0 (Frame_slice f) 0 = h.
Proof.
  intros [i l] f it' Hb. unfold next_spec. cbv [FifoFrames_index FifoFrames_bytes].
  destruct (N.leb (len l) i) eqn:E0; [discriminate|].
  destruct (spec_empty _) eqn:E1; [discriminate|].
  destruct (N.ltb _ _) eqn:E2; [discriminate|].
  intro H. injection H as H1 H2. subst it' f. cbn [Frame_slice FifoFrames_index].
  apply N.leb_gt in E0. apply N.ltb_ge in E2.
  set (p := spec_payload (nth (N.to_nat i) l 0)) in *.
  assert (L : length (firstn (N.to_nat (p + 1)) (skipn (N.to_nat i) l)) = N.to_nat (p + 1)).
  { apply len_firstn_skipn. unfold len in *. lia. }
  repeat split.
  - unfold len at 1. rewrite L. lia.
  - unfold len at 1. rewrite L. lia.
  - unfold len at 1. rewrite L. lia.
  - replace (N.to_nat (p + 1)) with (S (N.to_nat p)) by lia.
    destruct (skipn (N.to_nat i) l) as [|x xs] eqn:Es.
    + exfalso. assert (length (skipn (N.to_nat i) l) = 0%nat) by (rewrite Es; reflexivity).
      rewrite skipn_length in H. unfold len in E0. lia.
    + cbn [firstn nth].
      assert (Hn : nth (N.to_nat i) l 0 = nth 0 (skipn (N.to_nat i) l) 0).
      { rewrite <- (firstn_skipn (N.to_nat i) l) at 1. rewrite app_nth2; rewrite firstn_length; unfold len in E0; [|lia].
        replace (N.to_nat i - Nat.min (N.to_nat i) (length l))%nat with 0%nat by lia. reflexivity. }
      rewrite Es in Hn. cbn in Hn. symmetry. exact Hn.
Qed.

(* ---- accessors on a yielded frame never index outside it ---- *)
Definition acc_ok (s : list N) : bool :=
  let f := mk_Frame s in
  is_ok (Frame_frame_type f) && is_ok (Frame_x f) && is_ok (Frame_y f) && is_ok (Frame_z f) && is_ok (Frame_time f)
  && is_ok (Frame_fifo_src_chg f) && is_ok (Frame_filt1_bw_chg f) && is_ok (Frame_acc1_chg f).

Definition frame_shape_ok (k : N) (h : N) (ps : list N) : bool :=
  negb (N.eqb (spec_payload h) k) || spec_empty h || acc_ok (h :: ps).

Lemma acc_ok_1 : forall p1 h, h < 256 -> frame_shape_ok 1 h [p1] = true.
Proof. intros p1 h H. revert h H. refine (u8_true _ _). vm_compute. reflexivity. Qed.
Lemma acc_ok_2 : forall p1 p2 h, h < 256 -> frame_shape_ok 2 h [p1; p2] = true.
Proof. intros p1 p2 h H. revert h H. refine (u8_true _ _). vm_compute. reflexivity. Qed.
Lemma acc_ok_3 : forall p1 p2 p3 h, h < 256 -> frame_shape_ok 3 h [p1; p2; p3] = true.
Proof. intros p1 p2 p3 h H. revert h H. refine (u8_true _ _). vm_compute. reflexivity. Qed.
Lemma acc_ok_4 : forall p1 p2 p3 p4 h, h < 256 -> frame_shape_ok 4 h [p1; p2; p3; p4] = true.
Proof. intros p1 p2 p3 p4 h H. revert h H. refine (u8_true _ _). vm_compute. reflexivity. Qed.
Lemma acc_ok_5 : forall p1 p2 p3 p4 p5 h, h < 256 -> frame_shape_ok 5 h [p1; p2; p3; p4; p5] = true.
Proof. intros p1 p2 p3 p4 p5 h H. revert h H. refine (u8_true _ _). vm_compute. reflexivity. Qed.
Lemma acc_ok_6 : forall p1 p2 p3 p4 p5 p6 h, h < 256 -> frame_shape_ok 6 h [p1; p2; p3; p4; p5; p6] = true.
Proof. intros p1 p2 p3 p4 p5 p6 h H. revert h H. refine (u8_true _ _). vm_compute. reflexivity. Qed.

Lemma acc_ok_frame : forall s, s <> [] -> nth 0 s 0 < 256 -> len s = 1 + spec_payload (nth 0 s 0) ->
  spec_empty (nth 0 s 0) = false -> acc_ok s = true.
Proof.
  intros s Hne Hh Hl He. destruct s as [|h ps]; [congruence|]. cbn [nth] in *.
  pose proof (payload_bounds h Hh) as Pb. apply andb_prop in Pb. destruct Pb as [P1 P2].
  apply N.leb_le in P1. apply N.leb_le in P2.
  assert (Hlen : N.of_nat (length ps) = spec_payload h) by (unfold len in Hl; cbn [length] in Hl; lia).
  assert (K : forall k, spec_payload h = k -> frame_shape_ok k h ps = true -> acc_ok (h :: ps) = true).
  { intros k Ek Hs. unfold frame_shape_ok in Hs. rewrite Ek, N.eqb_refl, He in Hs. exact Hs. }
  destruct ps as [|p1 [|p2 [|p3 [|p4 [|p5 [|p6 [|p7 ps]]]]]]]; cbn [length] in Hlen.
  - lia.
  - apply (K 1); [lia | apply acc_ok_1; exact Hh].
  - apply (K 2); [lia | apply acc_ok_2; exact Hh].
  - apply (K 3); [lia | apply acc_ok_3; exact Hh].
  - apply (K 4); [lia | apply acc_ok_4; exact Hh].
  - apply (K 5); [lia | apply acc_ok_5; exact Hh].
  - apply (K 6); [lia | apply acc_ok_6; exact Hh].
  - lia.
Qed.

(* ---- iteration ---- *)
(* the caller's `for` loop: frames until the first None; None = fuel exhausted *)
Fixpoint iter_spec (fuel : nat) (it : FifoFrames) : option (list Frame) :=
  match fuel with
  | O => None
  | S k => match next_spec it with
           | (_, None) => Some []
           | (it', Some f) => match iter_spec k it' with Some fs => Some (f :: fs) | None => None end
           end
  end.
Fixpoint iter_impl (fuel : nat) (it : FifoFrames) : res (option (list Frame)) :=
  match fuel with
  | O => Ok None
  | S k => '(it', o) <-? FifoFrames_next it ;;
           match o with
           | None => Ok (Some [])
           | Some f => r <-? iter_impl k it' ;; Ok (match r with Some fs => Some (f :: fs) | None => None end)
           end
  end.
Lemma iter_refines : forall fuel it, bytes_ok (FifoFrames_bytes it) -> iter_impl fuel it = Ok (iter_spec fuel it).
Proof.
  induction fuel as [|k IH]; intros it Hb; [reflexivity|].
  cbn [iter_impl iter_spec]. rewrite (next_refines it Hb). cbn [rbind].
  destruct (next_spec it) as [it' o] eqn:E. destruct o as [f|]; [|reflexivity].
  assert (Hb' : bytes_ok (FifoFrames_bytes it')).
  { pose proof (next_spec_bytes it) as B. rewrite E in B. cbn [fst] in B. rewrite B. exact Hb. }
  rewrite (IH it' Hb'). cbn [rbind]. reflexivity.
Qed.

Lemma iter_terminates : forall fuel it, bytes_ok (FifoFrames_bytes it) ->
  len (FifoFrames_bytes it) - FifoFrames_index it < N.of_nat fuel -> iter_spec fuel it <> None.
Proof.
  induction fuel as [|k IH]; intros it Hb Hf; [lia|].
  cbn [iter_spec]. destruct (next_spec it) as [it' o] eqn:E. destruct o as [f|]; [|discriminate].
  pose proof (next_spec_cursor it Hb) as [C1 C2]. rewrite E in *. cbn [fst] in *.
  pose proof (next_spec_bytes it) as B. rewrite E in B. cbn [fst] in B.
  destruct (N.leb_spec (len (FifoFrames_bytes it)) (FifoFrames_index it)) as [L|L].
  - specialize (C1 L). congruence.
  - specialize (C2 L).
    assert (N : iter_spec k it' <> None).
    { apply IH; [rewrite B; exact Hb | rewrite B; lia]. }
    destruct (iter_spec k it'); [discriminate | congruence].
Qed.

(* all frames yielded by repeated calls (through Nones: the iterator is not fused), with their offsets *)
Fixpoint collect (fuel : nat) (it : FifoFrames) : list (N * Frame) :=
  match fuel with
  | O => []
  | S k => match next_spec it with
           | (it', Some f) => (FifoFrames_index it, f) :: collect k it'
           | (it', None) => collect k it'
           end
  end.
Fixpoint disjoint_sorted (lo total : N) (fs : list (N * Frame)) : Prop :=
  match fs with
  | [] => True
  | (o, f) :: r => lo <= o /\ o + len (Frame_slice f) <= total /\ disjoint_sorted (o + len (Frame_slice f)) total r
  end.
Lemma disjoint_sorted_weaken : forall fs lo lo' total, lo' <= lo -> disjoint_sorted lo total fs -> disjoint_sorted lo' total fs.
Proof. destruct fs as [|[o f] r]; intros lo lo' total H D; [exact I|]. cbn in *. destruct D as [D1 [D2 D3]]. repeat split; [lia | exact D2 | exact D3]. Qed.

Lemma collect_disjoint : forall fuel it, bytes_ok (FifoFrames_bytes it) ->
  disjoint_sorted (FifoFrames_index it) (len (FifoFrames_bytes it)) (collect fuel it).
Proof.
  induction fuel as [|k IH]; intros it Hb; [exact I|].
  cbn [collect]. destruct (next_spec it) as [it' o] eqn:E.
  pose proof (next_spec_bytes it) as B. rewrite E in B. cbn [fst] in B.
  assert (Hb' : bytes_ok (FifoFrames_bytes it')) by (rewrite B; exact Hb).
  specialize (IH it' Hb'). rewrite B in IH.
  destruct o as [f|].
  - pose proof (next_spec_frame it f it' Hb E) as [_ [F2 [F3 [F4 _]]]].
    cbn [disjoint_sorted]. repeat split; [lia | exact F3 |]. rewrite <- F4. exact IH.
  - pose proof (next_spec_cursor it Hb) as [C1 C2]. rewrite E in *. cbn [fst] in *.
    destruct (N.leb_spec (len (FifoFrames_bytes it)) (FifoFrames_index it)) as [L|L].
    + specialize (C1 L). injection C1 as C1. subst it'. exact IH.
    + specialize (C2 L). apply (disjoint_sorted_weaken _ (FifoFrames_index it')); [lia | exact IH].
Qed.
