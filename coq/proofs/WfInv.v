(* WfInv.v — every byte of the shadow configuration stays below 256 (the u8 typing of the Rust structs, which the translated
   model carries as unbounded N): an invariant of every API operation at every exit, for every transport and fault plan,
   provided the call's own arguments are well typed.  Same scheme as OdrInv.v with the invariant `wfb`. *)
Require Import BMA.lib.Base BMA.lib.Reflect BMA.gen.GenTypes BMA.gen.GenPure BMA.lib.Prog BMA.gen.GenProg BMA.gen.GenMeta
               BMA.gen.GenLens BMA.lib.Run BMA.proofs.Generic BMA.proofs.Symex BMA.proofs.BuilderSpec BMA.proofs.Builders BMA.proofs.Coherent.
From Coq Require Import Lia.
Open Scope N_scope.

Fixpoint wpw {A} (p : prog A) (d : Config) (Q : A -> Config -> Prop) : Prop :=
  match p with
  | Ret a => Q a d
  | Fail e => wfb d = true
  | PanicP => wfb d = true
  | FuelP => wfb d = true
  | Write a v k => wfb d = true /\ wpw k d Q
  | Read a n k => wfb d = true /\ forall l, wpw (k l) d Q
  | Delay ms k => wpw k d Q
  | Get k => wpw (k d) d Q
  | Put d' k => wpw k d' Q
  end.

Lemma wpw_bind : forall A B (p : prog A) (f : A -> prog B) d Q,
  wpw (bind p f) d Q <-> wpw p d (fun a d1 => wpw (f a) d1 Q).
Proof.
  intros A B p f. induction p as [a|e| | |a v k IH|a n k IH|ms k IH|k IH|d' k IH]; intros d Q; cbn [bind wpw]; try tauto.
  - rewrite IH. tauto.
  - split; intros [H1 H2]; (split; [exact H1|]); intro l; apply (IH l); apply H2.
  - apply IH.
  - apply IH.
  - apply IH.
Qed.

Lemma wpw_mono : forall A (p : prog A) d (Q Q' : A -> Config -> Prop),
  (forall a d1, Q a d1 -> Q' a d1) -> wpw p d Q -> wpw p d Q'.
Proof.
  intros A p. induction p as [a|e| | |a v k IH|a n k IH|ms k IH|k IH|d' k IH]; intros d Q Q' HQ H; cbn [wpw] in *; auto.
  - destruct H as [H1 H2]. split; [exact H1|]. apply (IH d Q Q' HQ H2).
  - destruct H as [H1 H2]. split; [exact H1|]. intro l. apply (IH l d Q Q' HQ (H2 l)).
  - apply (IH d Q Q' HQ H).
  - apply (IH d d Q Q' HQ H).
  - apply (IH d' Q Q' HQ H).
Qed.

Theorem wpw_run : forall A T (p : prog A) w Q,
  wpw p (shadow w) Q -> (forall a d, Q a d -> wfb d = true) -> wfb (shadow (world_of (run T p w))) = true.
Proof.
  intros A T p. induction p as [a|e| | |a v k IH|a n k IH|ms k IH|k IH|d' k IH]; intros w Q H HQ; cbn [wpw run world_of] in *.
  - apply (HQ a). exact H.
  - exact H.
  - exact H.
  - exact H.
  - destruct H as [H1 H2]. destruct (t_write T a v (hst w)) as [r h]. destruct r as [e|]; cbn [world_of].
    + exact H1.
    + apply (IH (log_ev (EvWrite a v) h w) Q); assumption.
  - destruct H as [H1 H2]. destruct (t_read T a n (hst w)) as [r h]. destruct r as [e|l]; cbn [world_of].
    + exact H1.
    + apply (IH l (log_ev (EvRead a n) h w) Q); [apply H2 | assumption].
  - apply (IH _ Q); assumption.
  - apply (IH (shadow w) w Q); assumption.
  - apply (IH (mk_world d' (hst w) (journal w)) Q); assumption.
Qed.

Definition keepsw {A} (p : prog A) : Prop := forall d, wfb d = true -> wpw p d (fun _ d' => wfb d' = true).

Lemma keepsw_ret : forall A (a : A), keepsw (Ret a). Proof. intros A a d H. exact H. Qed.
Lemma keepsw_fail : forall A e, @keepsw A (Fail e). Proof. intros A e d H. exact H. Qed.
Lemma keepsw_panic : forall A, @keepsw A PanicP. Proof. intros A d H. exact H. Qed.
Lemma keepsw_fuel : forall A, @keepsw A FuelP. Proof. intros A d H. exact H. Qed.
Lemma keepsw_bind : forall A B (p : prog A) (f : A -> prog B), keepsw p -> (forall a, keepsw (f a)) -> keepsw (bind p f).
Proof.
  intros A B p f Hp Hf d H. apply wpw_bind. apply (wpw_mono _ p d (fun _ d' => wfb d' = true)); [| apply Hp; exact H].
  intros a d1 H1. apply Hf. exact H1.
Qed.
Lemma keepsw_write : forall a v, keepsw (write_register a v). Proof. intros a v d H. cbn. split; exact H. Qed.
Lemma keepsw_read : forall a n, keepsw (read_register a n). Proof. intros a n d H. cbn. split; [exact H | intro l; exact H]. Qed.
Lemma keepsw_delay : forall ms, keepsw (delay_ms ms). Proof. intros ms d H. exact H. Qed.
Lemma keepsw_get : keepsw get_shadow. Proof. intros d H. exact H. Qed.
Lemma keepsw_lift : forall A (r : res A), keepsw (lift_res r). Proof. intros A [a| |] d H; exact H. Qed.
Lemma keepsw_let : forall X A (e : X) (f : X -> prog A), (forall x, keepsw (f x)) -> keepsw (let x := e in f x).
Proof. intros X A e f H. exact (H e). Qed.
Lemma keepsw_put : forall d0, wfb d0 = true -> keepsw (put_shadow d0). Proof. intros d0 H0 d H. exact H0. Qed.

(* a mirrored update with a byte keeps wfb *)
Lemma wfb_upd : forall a v d d', wfb d = true -> v < 256 -> Config_dump d' = upd_dump a v (Config_dump d) -> wfb d' = true.
Proof.
  intros a v d d' H Hv E. unfold wfb in *. rewrite E. rewrite forallb_forall in *. intros p Hp.
  unfold upd_dump in Hp. apply in_map_iff in Hp. destruct Hp as [q [Eq Hq]].
  destruct (N.eqb (fst q) a); subst p; cbn [snd]; [apply N.ltb_lt; exact Hv | apply H; exact Hq].
Qed.
