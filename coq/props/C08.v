(* C08 — config writes are minimal: unchanged registers are skipped, enables only toggled.
   Per builder theorem device_<Builder> (spec/BuilderProps.v).  What the bundled checks mean:
   - the instrumented semantics `semx` answers XOther on any Read, and a builder theorem excludes XOther:
     a write() never reads from the device (c08_no_read);
   - every journal entry addresses the builder's block or one of the enable registers 0x1F / 0x20 / 0x2F;
     a block register is written only with the requested value and only if the device held a different value when
     the call started (c08_entry_meaning);
   - an enable register outside the block is either left alone, or first written with a proper sub-mask of its
     original value, always with sub-masks, and last with its original value (toggle_ok); an enable register that
     belongs to the block follows own_ok.
   All 12 builder bodies have a generated theorem (side condition: shadow and request bytes below 256, a u8 typing fact). *)
Require Import BMA.lib.Base BMA.lib.Reflect BMA.gen.GenTypes BMA.gen.GenPure BMA.lib.Prog BMA.gen.GenProg BMA.gen.GenMeta
               BMA.gen.GenLens BMA.lib.Run BMA.proofs.Generic BMA.proofs.Symex BMA.proofs.BuilderSpec BMA.proofs.Builders
               BMA.proofs.SymexLink BMA.proofs.BuilderCor BMA.spec.Datasheet BMA.spec.BuilderProps.
Open Scope N_scope.

Theorem c08_no_read : forall A a n (k : list N -> prog A) d g j Q QF, ~ postx (Read a n k) d g j Q QF.
Proof. intros. unfold postx. cbn. auto. Qed.

Theorem c08_entry_meaning : forall blk d reqf e, entry_ok blk d reqf e = true ->
  (In (jw_addr e) blk \/ In (jw_addr e) ENABLES)
  /\ (In (jw_addr e) blk -> ~ In (jw_addr e) ENABLES -> jw_val e = reqf (jw_addr e) /\ shv d (jw_addr e) <> reqf (jw_addr e)).
Proof.
  intros blk d reqf e H. unfold entry_ok, c08_entry in H. apply andb_prop in H. destruct H as [_ H]. apply andb_prop in H. destruct H as [H1 H2].
  split.
  - apply orb_prop in H1. destruct H1 as [H1|H1]; apply existsb_exists in H1; destruct H1 as [x [Hx Ex]]; apply N.eqb_eq in Ex; subst x; auto.
  - intros Hb He. apply orb_prop in H2. destruct H2 as [H2|H2].
    + apply orb_prop in H2. destruct H2 as [H2|H2].
      * apply negb_true_iff in H2. exfalso. assert (existsb (N.eqb (jw_addr e)) blk = true) by (apply existsb_exists; exists (jw_addr e); split; [exact Hb | apply N.eqb_refl]). congruence.
      * exfalso. apply existsb_exists in H2. destruct H2 as [x [Hx Ex]]. apply N.eqb_eq in Ex. subst x. contradiction.
    + apply andb_prop in H2. destruct H2 as [H3 H4]. apply N.eqb_eq in H3. split; [exact H3|]. unfold neqb in H4. apply negb_true_iff in H4. apply N.eqb_neq in H4. exact H4.
Qed.

(* re-applying the current configuration: no entry can address the block (its value would have to differ from itself) *)
Theorem c08_reapply : forall blk d reqf nj, forallb (entry_ok blk d reqf) nj = true ->
  (forall a, In a blk -> reqf a = shv d a) -> forall e, In e nj -> In (jw_addr e) blk -> In (jw_addr e) ENABLES.
Proof.
  intros blk d reqf nj H Hsame e He Hb. rewrite forallb_forall in H. destruct (c08_entry_meaning blk d reqf e (H e He)) as [_ M].
  destruct (in_dec N.eq_dec (jw_addr e) ENABLES) as [I|I]; [exact I|]. destruct (M Hb I) as [_ Hne]. exfalso. apply Hne. symmetry. apply Hsame. exact Hb.
Qed.
