(* C01 — an accepted config write leaves the device holding exactly that configuration.
   Per builder theorem device_<Builder> (spec/BuilderProps.v): from every coherent state (driver's belief =
   device), for every byte-valued request, the call is either rejected with the world unchanged, or accepted with
     - the shadow = the previous shadow with the builder's block replaced by the request (`expected`),
     - the device's enable registers 0x1F / 0x20 / 0x2F = the expected ones (for builders that do not own them:
       their values before the call — every temporarily cleared enable bit is back),
     - every register outside the block and the enable registers untouched.
   With C16 (belief = device after EVERY call, props/C16.v) the device then holds the shadow on all 57 registers,
   i.e. the block registers hold the request, and the invariant is re-established for the next call, whatever
   history of accepted / rejected / failed calls, self-tests and soft resets preceded (c01_history).
   "Overridden by exactly the values passed to its setters" is C02 (request = setters applied to the cloned block).
   All 12 builder bodies have a generated theorem.  PARTIAL in one respect: the side condition `wfb d` (every shadow byte
   below 256 — what the u8 fields of the Rust structs guarantee by typing) is a hypothesis of each per-call theorem and is
   not chained along histories as an invariant inside Coq. *)
Require Import BMA.lib.Base BMA.lib.Reflect BMA.gen.GenTypes BMA.gen.GenPure BMA.lib.Prog BMA.gen.GenProg BMA.gen.GenMeta
               BMA.lib.Encode BMA.gen.GenApi BMA.gen.GenLens BMA.lib.Run BMA.lib.Driver BMA.proofs.Generic BMA.proofs.Rules BMA.proofs.Coherent
               BMA.proofs.Symex BMA.proofs.BuilderSpec BMA.proofs.Builders BMA.proofs.SymexLink BMA.proofs.BuilderCor
               BMA.spec.Datasheet BMA.spec.BuilderProps.
Require Import BMA.props.C16.
Open Scope N_scope.

(* after any history the device holds the shadow on every shadowed register: the hypothesis `coherent d c` of the
   per-builder theorems is met at every call *)
Theorem c01_partial_history : forall cs s dev, forallb (fun c => api_only (fst c)) cs = true ->
  let w := history (init_world dev s) cs in coherent (shadow w) (wchip w).
Proof. intros cs s dev H w. apply c16_every_history; [exact H | apply c16_initial]. Qed.

(* the accepted case of one builder, spelled out for the FIFO builder as an instance *)
Theorem c01_partial_fifo_instance : forall d c r0 r1 r2 r3, wfb d = true -> r0 < 256 -> r1 < 256 -> r2 < 256 -> r3 < 256 -> coherent d c ->
  forall c' evs', sem (FifoConfigBuilder_write (mk_FifoConfig r0 r1 r2 r3)) d c [] = ADone tt (set_Config_fifo_config (mk_FifoConfig r0 r1 r2 r3) d) c' evs' ->
  regs c' 31 = regs c 31 /\ regs c' 32 = regs c 32 /\ regs c' 47 = regs c 47 /\ forall a, ~ In a [38; 39; 40; 41] -> ~ In a ENABLES -> regs c' a = regs c a.
Proof.
  intros d c r0 r1 r2 r3 Hwf R0 R1 R2 R3 Hc c' evs' Hs.
  destruct (device_FifoConfigBuilder d c [] r0 r1 r2 r3 Hwf R0 R1 R2 R3 Hc) as [[nj [S [_ [_ [_ [_ [_ [G F]]]]]]]] | [e S]]; rewrite S in Hs; [|discriminate].
  injection Hs as Hc' _. subst c'.
  pose proof (ghost_coherent d c Hc) as G0. unfold chip_ghost, ghost_of in *. 
  assert (E : ghost_of (set_Config_fifo_config (mk_FifoConfig r0 r1 r2 r3) d) = ghost_of d) by (destruct_cfg d; reflexivity).
  unfold ghost_of in E. rewrite E in G. rewrite <- G0 in G. injection G as G1 G2 G3.
  repeat split; try assumption.
Qed.
