(* C01 — an accepted config write leaves the device holding exactly that configuration.
   Per builder theorem device_<Builder> (spec/BuilderProps.v): from every coherent state (driver's belief =
   device), for every byte-valued request, the call is either rejected with the world unchanged, or accepted with
     - the shadow = the previous shadow with the builder's block replaced by the request (`expected`),
     - the device's enable registers 0x1F / 0x20 / 0x2F = the expected ones (for builders that do not own them:
       their values before the call — every temporarily cleared enable bit is back),
     - every register outside the block and the enable registers untouched.
   With C16 (belief = device after EVERY call, props/C16.v) the device then holds the shadow on all 57 registers,
   i.e. the block registers hold the request, and the invariant is re-established for the next call, whatever
   history of accepted / rejected / failed calls, self-tests and soft resets preceded (c01_history).
   "Overridden by exactly the values passed to its setters" is C02 (request = setters applied to the cloned block).
   All 12 builder bodies have a generated theorem.  Their side condition `wfb d` (every shadow byte below 256 — what the u8
   fields of the Rust structs guarantee by typing, lost in the translation to unbounded N) is itself an invariant of every
   history of well-typed API calls, at every exit, for every transport and fault plan (c01_wf_every_exit, c01_state_history:
   proofs/WfInv.v, WfOps.v, generated spec/WfThms.v — every setter keeps a record of bytes for arguments in their Rust type's
   range, every write() body and the self-test only put bytes into the shadow), and the request handed to write() by
   `config_x().with_..()...` is made of bytes (apply_all_wf_<B>), so the hypotheses of the per-call theorems are met at every
   call of every history (c01_every_builder_call_ready). *)
Require Import BMA.lib.Base BMA.lib.Reflect BMA.gen.GenTypes BMA.gen.GenPure BMA.lib.Prog BMA.gen.GenProg BMA.gen.GenMeta
               BMA.lib.Encode BMA.gen.GenApi BMA.gen.GenLens BMA.lib.Run BMA.lib.Driver BMA.proofs.Generic BMA.proofs.Rules BMA.proofs.Coherent
               BMA.proofs.Symex BMA.proofs.BuilderSpec BMA.proofs.Builders BMA.proofs.SymexLink BMA.proofs.BuilderCor
               BMA.proofs.OdrInv BMA.proofs.OdrOps BMA.proofs.WfInv BMA.proofs.WfOps BMA.spec.Datasheet BMA.spec.BuilderProps BMA.spec.WfThms.
Require Import BMA.props.C16 BMA.props.C06.
Open Scope N_scope.

(* after any history the device holds the shadow on every shadowed register: the hypothesis `coherent d c` of the
   per-builder theorems is met at every call *)
Theorem c01_coherent_history : forall cs s dev, forallb (fun c => api_only (fst c)) cs = true ->
  let w := history (init_world dev s) cs in coherent (shadow w) (wchip w).
Proof. intros cs s dev H w. apply c16_every_history; [exact H | apply c16_initial]. Qed.

(* the accepted case of one builder, spelled out for the FIFO builder as an instance *)
Theorem c01_fifo_instance : forall d c r0 r1 r2 r3, wfb d = true -> r0 < 256 -> r1 < 256 -> r2 < 256 -> r3 < 256 -> coherent d c ->
  forall c' evs', sem (FifoConfigBuilder_write (mk_FifoConfig r0 r1 r2 r3)) d c [] = ADone tt (set_Config_fifo_config (mk_FifoConfig r0 r1 r2 r3) d) c' evs' ->
  regs c' 31 = regs c 31 /\ regs c' 32 = regs c 32 /\ regs c' 47 = regs c 47 /\ forall a, ~ In a [38; 39; 40; 41] -> ~ In a ENABLES -> regs c' a = regs c a.
Proof.
  intros d c r0 r1 r2 r3 Hwf R0 R1 R2 R3 Hc c' evs' Hs.
  destruct (device_FifoConfigBuilder d c [] r0 r1 r2 r3 Hwf R0 R1 R2 R3 Hc) as [[nj [S [_ [_ [_ [_ [_ [G F]]]]]]]] | [e S]]; rewrite S in Hs; [|discriminate].
  injection Hs as Hc' _. subst c'.
  pose proof (ghost_coherent d c Hc) as G0. unfold chip_ghost, ghost_of in *. 
  assert (E : ghost_of (set_Config_fifo_config (mk_FifoConfig r0 r1 r2 r3) d) = ghost_of d) by (destruct_cfg d; reflexivity).
  unfold ghost_of in E. rewrite E in G. rewrite <- G0 in G. injection G as G1 G2 G3.
  repeat split; try assumption.
Qed.

(* ---- the byte-range side condition is an invariant ---- *)
Theorem keepsw_self_test : keepsw BMA400_perform_self_test.
Proof. intros d H0. ww_start d H0. cbv delta [BMA400_perform_self_test]; cbv beta. timeout 600 ww. Qed.

Lemma keepsw_modify_id : forall f, (forall d, wfb d = true -> wfb (f d) = true) -> keepsw (modify f).
Proof. intros f Hf d H. unfold modify. cbn [wpw]. apply Hf. exact H. Qed.

Ltac keepsw_step :=
  lazymatch goal with
  | |- keepsw (Ret _) => apply keepsw_ret
  | |- keepsw (Fail _) => apply keepsw_fail
  | |- keepsw PanicP => apply keepsw_panic
  | |- keepsw FuelP => apply keepsw_fuel
  | |- keepsw BMA400_perform_self_test => apply keepsw_self_test
  | |- keepsw (bind _ _) => apply keepsw_bind; [ | intro ]
  | |- keepsw (write_register _ _) => apply keepsw_write
  | |- keepsw (read_register _ _) => apply keepsw_read
  | |- keepsw (delay_ms _) => apply keepsw_delay
  | |- keepsw get_shadow => apply keepsw_get
  | |- keepsw (put_shadow _) => apply keepsw_put; vm_compute; reflexivity
  | |- keepsw (lift_res _) => apply keepsw_lift
  | |- keepsw (let x := ?e in @?f x) => refine (keepsw_let _ _ e f _); intro
  | |- keepsw (if ?b then _ else _) => destruct b
  | |- keepsw (match ?x with _ => _ end) => destruct x
  | |- keepsw (?h _ _ _) => unfold h
  | |- keepsw (?h _ _) => unfold h
  | |- keepsw (?h _) => unfold h
  | |- keepsw ?h => unfold h
  end.
Ltac keepsw_all := repeat keepsw_step.

Theorem step_keepsw : forall op, api_only op = true -> op_wf op = true -> keepsw (step op).
Proof.
  intros op H Hw. destruct op; try discriminate H; clear H; cbn [op_wf] in Hw;
    first [ apply keepsw_config_accel; exact Hw | apply keepsw_config_actchg_int; exact Hw | apply keepsw_config_auto_lp; exact Hw
          | apply keepsw_config_autowkup; exact Hw | apply keepsw_config_fifo; exact Hw | apply keepsw_config_gen1_int; exact Hw
          | apply keepsw_config_gen2_int; exact Hw | apply keepsw_config_interrupts; exact Hw | apply keepsw_config_int_pins; exact Hw
          | apply keepsw_config_orientchg_int; exact Hw | apply keepsw_config_tap; exact Hw | apply keepsw_config_wkup_int; exact Hw
          | unfold step; keepsw_all ].
Qed.

(* at every exit of every well-typed call, for every transport and fault plan *)
Theorem c01_wf_every_exit : forall T op fl w, api_only op = true -> op_wf op = true -> wfb (shadow w) = true ->
  wfb (shadow (world_of (run T (step op) (begin_call fl w)))) = true.
Proof.
  intros T op fl w Hop Hw H.
  apply (wpw_run _ T (step op) (begin_call fl w) (fun _ d' => wfb d' = true)); auto.
  apply (step_keepsw op Hop Hw). exact H.
Qed.

(* the state in which every call of a history finds the driver and the device: belief = device, bytes, ODR rules *)
Definition Ready (w : world) : Prop := Coh w /\ wfb (shadow w) = true.
Definition ops_ok (cs : list (api_op * list N)) : bool := forallb (fun c => api_only (fst c) && op_wf (fst c))%bool cs.

Theorem c01_state_history : forall cs w, ops_ok cs = true -> Ready w -> Ready (history w cs).
Proof.
  induction cs as [|c cs IH]; intros w Hc H; [exact H|].
  unfold ops_ok in Hc. cbn [forallb] in Hc. apply andb_prop in Hc. destruct Hc as [H1 H2]. apply andb_prop in H1. destruct H1 as [Ha Hw].
  cbn [history fold_left]. apply IH; [exact H2|]. destruct c as [op fl]. cbn [fst] in *. destruct H as [Hco Hwf]. split.
  - apply c16_every_call; assumption.
  - unfold call. cbn [fst snd]. apply c01_wf_every_exit; assumption.
Qed.

Theorem c01_initial_ready : forall s dev, Ready (init_world dev s).
Proof. intros s dev. split; [apply c16_initial | vm_compute; reflexivity]. Qed.

(* hence: at every call of every history of well-typed API calls from a fresh driver, the hypotheses of the per-builder theorems
   (device_<Builder>: wfb, coherent) hold of the state the call starts in *)
Theorem c01_every_builder_call_ready : forall cs s dev, ops_ok cs = true ->
  let w := history (init_world dev s) cs in wfb (shadow w) = true /\ coherent (shadow w) (wchip w).
Proof.
  intros cs s dev H w. destruct (c01_state_history cs (init_world dev s) H (c01_initial_ready s dev)) as [Hc Hw]. split; [exact Hw | exact Hc].
Qed.

(* ---- everything a configuration call relies on, together: belief = device, bytes, ODR rules — after every history of well-typed
   calls from a fresh driver, over the register-level transport and over I2C at HAL level ---- *)
Definition AllReady (w : world) : Prop := Coh w /\ wfb (shadow w) = true /\ ov (shadow w) = true.

Theorem c01_all_ready_history : forall cs s dev, ops_ok cs = true -> AllReady (history (init_world dev s) cs).
Proof.
  intros cs s dev H.
  destruct (c01_state_history cs (init_world dev s) H (c01_initial_ready s dev)) as [Hc Hw].
  assert (Ha : forallb (fun c => api_only (fst c)) cs = true).
  { unfold ops_ok in H. rewrite forallb_forall in *. intros c Hc'. specialize (H c Hc'). apply andb_prop in H. tauto. }
  destruct (c06_every_history cs (init_world dev s) Ha (c06_initial s dev)) as [_ Ho].
  repeat split; assumption.
Qed.

Theorem c01_all_ready_history_i2c : forall cs s dev, ops_ok cs = true ->
  let w := history_i2c dev (init_world dev s) cs in Coh w /\ wfb (shadow w) = true /\ ov (shadow w) = true.
Proof.
  intros cs s dev H.
  assert (G : forall cs w, ops_ok cs = true -> (CohI dev w /\ wfb (shadow w) = true /\ ov (shadow w) = true) ->
              CohI dev (history_i2c dev w cs) /\ wfb (shadow (history_i2c dev w cs)) = true /\ ov (shadow (history_i2c dev w cs)) = true).
  { induction cs0 as [|c cs0 IH]; intros w Hc Hw; [exact Hw|].
    unfold ops_ok in Hc. cbn [forallb] in Hc. apply andb_prop in Hc. destruct Hc as [H1 H2]. apply andb_prop in H1. destruct H1 as [Ha Hwf].
    cbn [history_i2c fold_left]. apply IH; [exact H2|]. destruct c as [op fl]. cbn [fst] in *. destruct Hw as [Hi [Hb Ho]].
    split; [apply c16_i2c_every_call; assumption|]. unfold call_i2c. cbn [fst snd].
    split; [apply c01_wf_every_exit; assumption | apply c06_every_exit; assumption]. }
  destruct (G cs (init_world dev s) H (conj (c16_i2c_initial s dev) (conj (proj2 (c01_initial_ready s dev)) (proj2 (c06_initial s dev))))) as [[Hc _] [Hw Ho]].
  cbv zeta. repeat split; assumption.
Qed.
