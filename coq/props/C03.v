(* C03 — acceleration readings are sign-extended 12-bit samples scaled by the set range.
   (a) the sample decoder on all 65,536 byte pairs; (b) both getters are one 6-byte burst read
   from 0x04 followed by a pure, panic-free decode, for all six data bytes and all four
   ranges; the factor is read from the range bits of the shadow ACC_CONFIG1.  That the
   shadow's range bits are the device's after every history is C16's invariant (c03_range_is_device
   in props/C16.v closes the history clause). *)
Require Import BMA.lib.Base BMA.lib.Reflect BMA.gen.GenTypes BMA.gen.GenPure BMA.lib.Prog BMA.gen.GenProg BMA.gen.GenMeta
               BMA.lib.Encode BMA.gen.GenApi BMA.lib.Run BMA.proofs.Generic BMA.spec.Datasheet.
From Coq Require Import Lia.
Open Scope N_scope.

(* datasheet: 12-bit two's complement from the low byte and the low nibble of the high byte *)
Definition sext12 (lsb msb : N) : Z := to_signed 12 (lsb + 256 * (msb mod 16)).

Theorem c03_sample : forall lsb msb, lsb < 256 -> msb < 256 -> Measurement_to_i16 lsb msb = sext12 lsb msb.
Proof. intros lsb msb H0 H1. unfold sext12. finite_reflect. Qed.

Theorem c03_sample_range : forall lsb msb, lsb < 256 -> msb < 256 ->
  (Z.leb (-2048) (sext12 lsb msb) && Z.leb (sext12 lsb msb) 2047)%bool = true.
Proof. intros lsb msb H0 H1. unfold sext12. finite_reflect. Qed.

(* the getters are stated on the register-level semantics (proofs/Generic.v: `sem`), so that only what they do counts - one burst
   read of 6 bytes at 0x04, the decoded value, shadow and chip untouched apart from the read - not the order in which the generated
   body happens to read the shadow and the bus *)
Ltac getter_sem f :=
  unfold f; cbv beta zeta; change (len (repeatN 0 6)) with 6;
  cbn [bind read_register get_shadow sem]; cbv beta zeta.

Theorem c03_unscaled : forall d c evs b0 b1 b2 b3 b4 b5,
  fst (chip_read ds_AccXLSB_addr 6 c) = [b0; b1; b2; b3; b4; b5] ->
  b0 < 256 -> b1 < 256 -> b2 < 256 -> b3 < 256 -> b4 < 256 -> b5 < 256 ->
  sem BMA400_get_unscaled_data d c evs =
    ADone (mk_Measurement (sext12 b0 b1) (sext12 b2 b3) (sext12 b4 b5)) d (snd (chip_read ds_AccXLSB_addr 6 c)) (evs ++ [EvRead ds_AccXLSB_addr 6]).
Proof.
  intros d c evs b0 b1 b2 b3 b4 b5 Hr H0 H1 H2 H3 H4 H5.
  getter_sem BMA400_get_unscaled_data. change AccXLSB_ADDR with ds_AccXLSB_addr. rewrite Hr.
  cbv [Measurement_from_bytes_unscaled idx nth_error N.to_nat Pos.to_nat Pos.iter_op Nat.add rbind Measurement_new].
  rewrite !c03_sample by assumption. reflexivity.
Qed.

(* the factor encoded in bits 7:6 of ACC_CONFIG1: 2g -> 1, 4g -> 2, 8g -> 4, 16g -> 8 *)
Definition range_factor (acc_config1 : N) : Z := Z.of_N (2 ^ (N.shiftr acc_config1 6 mod 4)).

Definition scale_shift (s : Scale) : N := match s with Scale_Range2G => 0 | Scale_Range4G => 1 | Scale_Range8G => 2 | Scale_Range16G => 3 end.
Lemma scaled_sample_s : forall s lsb msb, lsb < 256 -> msb < 256 ->
  ishl_chk 16 (Measurement_to_i16 lsb msb) (scale_shift s) = Ok (Z.of_N (2 ^ scale_shift s) * sext12 lsb msb)%Z.
Proof. intros s lsb msb H0 H1. unfold sext12. destruct s; finite_reflect. Qed.
Lemma scale_of_reg : forall r, r < 256 -> Z.of_N (2 ^ scale_shift (AccConfig1_scale r)) = range_factor r.
Proof. intros r H. unfold range_factor. finite_reflect. Qed.
Lemma scaled_sample : forall lsb msb r, lsb < 256 -> msb < 256 -> r < 256 ->
  ishl_chk 16 (Measurement_to_i16 lsb msb)
     (match AccConfig1_scale r with Scale_Range2G => 0 | Scale_Range4G => 1 | Scale_Range8G => 2 | Scale_Range16G => 3 end)
  = Ok (range_factor r * sext12 lsb msb)%Z.
Proof. intros lsb msb r H0 H1 H2. rewrite <- (scale_of_reg r H2). exact (scaled_sample_s (AccConfig1_scale r) lsb msb H0 H1). Qed.

Theorem c03_scaled : forall d c evs b0 b1 b2 b3 b4 b5,
  fst (chip_read ds_AccXLSB_addr 6 c) = [b0; b1; b2; b3; b4; b5] -> get_acc_config_acc_config1 d < 256 ->
  b0 < 256 -> b1 < 256 -> b2 < 256 -> b3 < 256 -> b4 < 256 -> b5 < 256 ->
  let k := range_factor (get_acc_config_acc_config1 d) in
  sem BMA400_get_data d c evs =
    ADone (mk_Measurement (k * sext12 b0 b1) (k * sext12 b2 b3) (k * sext12 b4 b5))%Z d (snd (chip_read ds_AccXLSB_addr 6 c)) (evs ++ [EvRead ds_AccXLSB_addr 6]).
Proof.
  intros d c evs b0 b1 b2 b3 b4 b5 Hr Hd H0 H1 H2 H3 H4 H5 k.
  getter_sem BMA400_get_data. change AccXLSB_ADDR with ds_AccXLSB_addr. rewrite Hr.
  cbv [Measurement_from_bytes_scaled idx nth_error N.to_nat Pos.to_nat Pos.iter_op Nat.add Measurement_new Config_scale AccConfig_scale].
  change (AccConfig_acc_config1 (Config_acc_config d)) with (get_acc_config_acc_config1 d).
  cbv [rbind]. rewrite !scaled_sample by assumption. reflexivity.
Qed.

(* power-on / reset value of ACC_CONFIG1 selects 4 g *)
Theorem c03_default_range : range_factor (get_acc_config_acc_config1 Config_default) = 2%Z /\ ds_AccConfig1_reset = 73.
Proof. split; vm_compute; reflexivity. Qed.

Example c03_example : sext12 255 255 = (-1)%Z /\ sext12 0 8 = (-2048)%Z /\ sext12 255 7 = 2047%Z.
Proof. repeat split; vm_compute; reflexivity. Qed.
