(* C15 — bus and pin failures are reported faithfully and stop the operation at once.
   For every API operation (and constructor), every transport, every world and every position k:
   if the k-th fallible HAL call (bus transaction or chip-select pin operation, counted from the
   start of the call) fails and is reached, the call returns Failed with that very failure — the
   bus error as IOError k, the pin error as ChipSelectPinError k — never Ok, never another error,
   never a panic; the failing call is entry number k of the raw journal and nothing follows it
   except (over SPI, after a failed transfer) the release of chip-select, which is not a register
   access.  Proved once for every program of the free monad (proofs/Generic.v, fail_stop). *)
Require Import BMA.lib.Base BMA.lib.Reflect BMA.gen.GenTypes BMA.gen.GenPure BMA.lib.Prog BMA.gen.GenProg BMA.gen.GenMeta
               BMA.lib.Encode BMA.gen.GenApi BMA.lib.Run BMA.lib.Driver BMA.proofs.Generic BMA.proofs.Rules BMA.proofs.Transport.
From Coq Require Import Lia.
Open Scope N_scope.

Definition reported (k : N) {A} (w : world) (r : outcome A) : Prop :=
  exists e pre c post, r = Failed e (world_of r)
    /\ raw (hst (world_of r)) = raw (hst w) ++ pre ++ c :: post
    /\ ncalls (hst w) + nfall pre = k /\ is_delay c = false /\ (post = [] \/ post = [HSetHigh]) /\ e = err_of c k.

Theorem c15_i2c : forall dev A (p : prog A) w k, faults (hst w) = [k] -> ncalls (hst w) <= k -> strap (hst w) = dev ->
  k < ncalls (hst (world_of (run (T_i2c dev) p w))) -> reported k w (run (T_i2c dev) p w).
Proof. intros dev A p w k F N S H. exact (fail_stop _ _ (fs_i2c dev) A p w k F N S H). Qed.

Theorem c15_spi : forall A (p : prog A) w k, faults (hst w) = [k] -> ncalls (hst w) <= k ->
  k < ncalls (hst (world_of (run T_spi p w))) -> reported k w (run T_spi p w).
Proof. intros A p w k F N H. exact (fail_stop _ _ fs_spi A p w k F N I H). Qed.

Theorem c15_register_level : forall A (p : prog A) w k, faults (hst w) = [k] -> ncalls (hst w) <= k ->
  k < ncalls (hst (world_of (run T_reg p w))) -> reported k w (run T_reg p w).
Proof. intros A p w k F N H. exact (fail_stop _ _ fs_reg A p w k F N I H). Qed.

(* the error kinds *)
Theorem c15_error_kinds : forall k bs a n,
  err_of HSetLow k = BMA400Error_ChipSelectPinError k /\ err_of HSetHigh k = BMA400Error_ChipSelectPinError k
  /\ err_of (HSpiWrite bs) k = BMA400Error_IOError k /\ err_of (HSpiTransfer bs) k = BMA400Error_IOError k
  /\ err_of (HI2cWrite a bs) k = BMA400Error_IOError k /\ err_of (HI2cWriteRead a bs n) k = BMA400Error_IOError k.
Proof. intros. repeat split; reflexivity. Qed.

(* instantiated at an API call as the harness runs it: call counter and journal restart, one planned fault *)
Theorem c15_api_call_spi : forall op w k,
  let w0 := begin_call [k] w in
  k < ncalls (hst (world_of (run T_spi (step op) w0))) -> reported k w0 (run T_spi (step op) w0).
Proof. intros op w k w0 H. apply c15_spi; try assumption; unfold w0, begin_call; cbn; first [reflexivity | lia]. Qed.
Theorem c15_api_call_i2c : forall dev op w k, strap (hst w) = dev ->
  let w0 := begin_call [k] w in
  k < ncalls (hst (world_of (run (T_i2c dev) (step op) w0))) -> reported k w0 (run (T_i2c dev) (step op) w0).
Proof. intros dev op w k S w0 H. apply c15_i2c; try assumption; unfold w0, begin_call; cbn; first [reflexivity | lia | exact S]. Qed.
