(* C07 — interrupt parameters are only rewritten while that interrupt is disabled (on the DEVICE).
   Per builder (spec/BuilderProps.v, generated from the datasheet blocks; theorem device_<Builder>): from every
   coherent state and for every request, the writes of write() are the journal nj with `entries_match c nj` (each
   entry carries the device's registers 0x1F / 0x20 / 0x2F at the instant of that write) and `entry_ok` true for
   every entry.  This file states what that means for C07, against the datasheet's parameter-owner table.
   All 12 builder bodies have a generated theorem (side condition: shadow and request bytes below 256, a u8 typing fact). *)
Require Import BMA.lib.Base BMA.lib.Reflect BMA.gen.GenTypes BMA.gen.GenPure BMA.lib.Prog BMA.gen.GenProg BMA.gen.GenMeta
               BMA.gen.GenLens BMA.lib.Run BMA.proofs.Generic BMA.proofs.Symex BMA.proofs.BuilderSpec BMA.proofs.Builders
               BMA.proofs.SymexLink BMA.proofs.BuilderCor BMA.spec.Datasheet BMA.spec.BuilderProps.
Open Scope N_scope.

(* the device state just before the i-th write of a journal *)
Fixpoint chip_before (c : chip) (l : list jw) (i : nat) : chip :=
  match i, l with
  | S k, e :: r => chip_before (chip_write (jw_addr e) (jw_val e) c) r k
  | _, _ => c
  end.

Theorem c07_meaning : forall blk d reqf nj c i e,
  forallb (entry_ok blk d reqf) nj = true -> entries_match c nj -> nth_error nj i = Some e ->
  forall p en m, In (p, en, m) ds_param_owner -> p = jw_addr e -> In en ENABLES ->
    N.land (regs (chip_before c nj i) en) m = 0.
Proof.
  intros blk d reqf nj. induction nj as [|e0 r IH]; intros c i e Hf Hm Hn p en m Hin Hp Hen; [destruct i; discriminate|].
  cbn [forallb] in Hf. apply andb_prop in Hf. destruct Hf as [Hf0 Hf]. destruct Hm as [Hg Hm].
  destruct i as [|k].
  - cbn in Hn. injection Hn as Hn. subst e0. cbn [chip_before].
    unfold entry_ok in Hf0. apply andb_prop in Hf0. destruct Hf0 as [H7 _]. unfold c07_entry in H7. rewrite forallb_forall in H7.
    specialize (H7 _ Hin). cbn beta iota in H7. rewrite Hp, N.eqb_refl in H7. cbn [negb orb] in H7. apply N.eqb_eq in H7.
    rewrite Hg in H7. unfold greg, chip_ghost in H7. cbn [g_en0 g_en1 g_wk0] in H7.
    unfold ENABLES in Hen. cbn in Hen. destruct Hen as [E|[E|[E|[]]]]; subst en; exact H7.
  - cbn [chip_before]. cbn in Hn. apply (IH _ k e Hf Hm Hn p en m Hin Hp Hen).
Qed.

(* the datasheet's parameter-owner table: (parameter register, enable register, enable mask) *)
Example c07_table : In (63, 31, 4) ds_param_owner /\ In (74, 31, 8) ds_param_owner /\ In (53, 31, 2) ds_param_owner
  /\ In (39, 31, 64) ds_param_owner /\ In (85, 32, 16) ds_param_owner /\ In (87, 32, 12) ds_param_owner /\ In (48, 47, 224) ds_param_owner.
Proof. repeat split; vm_compute; auto 80. Qed.
