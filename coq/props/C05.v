(* C05 — FIFO iteration is panic-free, in-bounds and terminating on arbitrary bytes.
   Statements are about the generated `FifoFrames_next` / `Frame_*` (res = Ok | Panic | NoFuel),
   for every buffer of bytes (every length, every content) and every cursor. *)
Require Import BMA.lib.Base BMA.lib.Reflect BMA.gen.GenTypes BMA.gen.GenPure BMA.gen.GenMeta BMA.proofs.Fifo.
From Coq Require Import Lia.
Open Scope N_scope.

(* payload length implied by a header byte, per the datasheet (spec side, proofs/Fifo.v): 3 for sensor time,
   1 for control, (number of axes) x (2 if 12-bit else 1) for data *)
Definition payload_of (h : N) : N := spec_payload h.

(* 1. no panic, no fuel exhaustion, whatever the bytes and the cursor *)
Theorem c05_next_total : forall it, bytes_ok (FifoFrames_bytes it) -> exists r, FifoFrames_next it = Ok r.
Proof. intros it Hb. eexists. apply next_refines. exact Hb. Qed.

(* 2. a yielded frame is the sub-slice of the buffer that starts at the cursor and has length 1 + payload(header),
      it lies inside the buffer, and the cursor moves to its end *)
Theorem c05_frame_is_subslice : forall it it' f, bytes_ok (FifoFrames_bytes it) -> FifoFrames_next it = Ok (it', Some f) ->
  let i := FifoFrames_index it in let l := FifoFrames_bytes it in
  Frame_slice f = firstn (N.to_nat (len (Frame_slice f))) (skipn (N.to_nat i) l)
  /\ len (Frame_slice f) = 1 + payload_of (nth (N.to_nat i) l 0)
  /\ i + len (Frame_slice f) <= len l
  /\ FifoFrames_index it' = i + len (Frame_slice f)
  /\ FifoFrames_bytes it' = l.
Proof.
  intros it it' f Hb H. rewrite (next_refines it Hb) in H. injection H as H.
  pose proof (next_spec_frame it f it' Hb H) as [F1 [F2 [F3 [F4 _]]]].
  pose proof (next_spec_bytes it) as B. rewrite H in B. cbn [fst] in B.
  cbv zeta. repeat split; try assumption.
  rewrite F2. replace (1 + spec_payload _) with (spec_payload (nth (N.to_nat (FifoFrames_index it)) (FifoFrames_bytes it) 0) + 1) by lia. exact F1.
Qed.

(* 3. every call with the cursor inside the buffer consumes between 2 and 7 bytes; at or past the end it returns None
      and changes nothing; the buffer itself is never changed *)
Theorem c05_progress : forall it it' o, bytes_ok (FifoFrames_bytes it) -> FifoFrames_next it = Ok (it', o) ->
  FifoFrames_bytes it' = FifoFrames_bytes it /\
  (FifoFrames_index it < len (FifoFrames_bytes it) -> FifoFrames_index it + 2 <= FifoFrames_index it' <= FifoFrames_index it + 7) /\
  (len (FifoFrames_bytes it) <= FifoFrames_index it -> it' = it /\ o = None).
Proof.
  intros it it' o Hb H. rewrite (next_refines it Hb) in H. injection H as H.
  pose proof (next_spec_cursor it Hb) as [C1 C2]. pose proof (next_spec_bytes it) as B. rewrite H in *. cbn [fst] in *.
  repeat split; try (apply C2; assumption); try exact B; specialize (C1 H0); congruence.
Qed.

(* 4. the caller's loop (frames until the first None) ends within len+1 calls, without panic *)
Theorem c05_iteration_terminates : forall bytes, bytes_ok bytes ->
  exists frames, iter_impl (S (length bytes)) (FifoFrames_new bytes) = Ok (Some frames).
Proof.
  intros bytes Hb. rewrite iter_refines by exact Hb.
  destruct (iter_spec (S (length bytes)) (FifoFrames_new bytes)) as [fs|] eqn:E; [eexists; reflexivity|].
  exfalso. revert E. apply iter_terminates; [exact Hb|]. unfold FifoFrames_new, len. cbn [FifoFrames_index FifoFrames_bytes]. lia.
Qed.

(* 5. every accessor on every yielded frame returns without panic *)
Theorem c05_accessors_total : forall it it' f, bytes_ok (FifoFrames_bytes it) -> FifoFrames_next it = Ok (it', Some f) ->
  is_ok (Frame_frame_type f) = true /\ is_ok (Frame_x f) = true /\ is_ok (Frame_y f) = true /\ is_ok (Frame_z f) = true /\
  is_ok (Frame_time f) = true /\ is_ok (Frame_fifo_src_chg f) = true /\ is_ok (Frame_filt1_bw_chg f) = true /\ is_ok (Frame_acc1_chg f) = true.
Proof.
  intros it it' f Hb H. rewrite (next_refines it Hb) in H. injection H as H.
  pose proof (next_spec_frame it f it' Hb H) as [F1 [F2 [F3 [F4 [F5 F6]]]]].
  assert (A : acc_ok (Frame_slice f) = true).
  { apply acc_ok_frame.
    - intro E. rewrite E in F2. unfold len in F2. cbn in F2. lia.
    - rewrite F6. apply nth_bytes_ok. exact Hb.
    - rewrite F6. exact F2.
    - rewrite F6. exact F5. }
  unfold acc_ok in A. destruct f as [s]. cbn [Frame_slice] in A.
  repeat (apply andb_prop in A; destruct A as [A ?]). repeat split; assumption.
Qed.

(* 6. the frames yielded by any number of successive calls (the iterator is not fused) are non-overlapping
      sub-slices in increasing buffer order, all inside the buffer *)
Fixpoint collect_impl (calls : nat) (it : FifoFrames) : res (list (N * Frame)) :=
  match calls with
  | O => Ok []
  | S k => '(it', o) <-? FifoFrames_next it ;;
           r <-? collect_impl k it' ;;
           Ok (match o with Some f => (FifoFrames_index it, f) :: r | None => r end)
  end.
Theorem c05_frames_disjoint_increasing : forall calls it, bytes_ok (FifoFrames_bytes it) ->
  exists fs, collect_impl calls it = Ok fs /\ disjoint_sorted (FifoFrames_index it) (len (FifoFrames_bytes it)) fs.
Proof.
  intros calls it Hb. exists (collect calls it). split; [|apply collect_disjoint; exact Hb].
  revert it Hb. induction calls as [|k IH]; intros it Hb; [reflexivity|].
  cbn [collect_impl collect]. rewrite (next_refines it Hb). cbn [rbind].
  destruct (next_spec it) as [it' o] eqn:E.
  assert (Hb' : bytes_ok (FifoFrames_bytes it')).
  { pose proof (next_spec_bytes it) as B. rewrite E in B. cbn [fst] in B. rewrite B. exact Hb. }
  rewrite (IH it' Hb'). cbn [rbind]. destruct o; reflexivity.
Qed.

(* non-vacuity: a malformed buffer on which all of this applies *)
Example c05_example : bytes_ok [72; 255; 158; 1; 2; 255; 128] /\
  iter_impl 8 (FifoFrames_new [72; 255; 158; 1; 2; 255; 128]) = Ok (Some [mk_Frame [72; 255]]).
Proof. split; [unfold bytes_ok; repeat (apply Forall_cons; [reflexivity|]); apply Forall_nil | vm_compute; reflexivity]. Qed.
