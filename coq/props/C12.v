(* C12 — I2C accesses use the selected device address and exact register framing.
   For every API operation (and the I2C constructor), from every quiet bus whose chip is strapped to
   `dev`: the raw journal of the run over T_i2c dev is the concatenation of one frame per register
   event — a write is one `write(dev, [addr, value])`, a read is one `write_read(dev, [addr], n bytes)`
   — where the events are those of the register-level semantics of the operation.  The burst lengths
   per getter are C17 / C03 / C04 (`single_read`).  `dev` is 0x14 or 0x15: the feature -> constant map
   of i2c.rs is hand-modelled and tied by running the correspondence check on BOTH feature builds. *)
Require Import BMA.lib.Base BMA.lib.Reflect BMA.gen.GenTypes BMA.gen.GenPure BMA.lib.Prog BMA.gen.GenProg BMA.gen.GenMeta
               BMA.lib.Encode BMA.gen.GenApi BMA.lib.Run BMA.lib.Driver BMA.proofs.Generic BMA.proofs.Rules BMA.proofs.Transport.
Open Scope N_scope.

Theorem c12_frames : forall dev a v n,
  frame_i2c dev (EvWrite a v) = [HI2cWrite dev [a; v]] /\ frame_i2c dev (EvRead a n) = [HI2cWriteRead dev [a] n].
Proof. intros. split; reflexivity. Qed.

Theorem c12_every_operation : forall dev op w, api_only op = true -> quiet (hst w) -> strap (hst w) = dev ->
  let o := sem (step op) (shadow w) (hchip (hst w)) [] in
  let w' := world_of (run (T_i2c dev) (step op) w) in
  raw (hst w') = raw (hst w) ++ flat_map (frame_i2c dev) (a_events o) /\ journal w' = journal w ++ a_events o
  /\ same_result o (run (T_i2c dev) (step op) w).
Proof.
  intros dev op w Hop Q S o w'.
  destruct (run_quiet _ _ _ _ (faithful_i2c dev) (step op) w Q S (step_evsafe op Hop)) as [[_ [_ [J [R _]]]] Sr].
  repeat split; assumption.
Qed.

Theorem c12_constructor : forall dev w, quiet (hst w) -> strap (hst w) = dev ->
  let o := sem (ctor_prog C_i2c) (shadow w) (hchip (hst w)) [] in
  raw (hst (world_of (run (T_i2c dev) (ctor_prog C_i2c) w))) = raw (hst w) ++ flat_map (frame_i2c dev) (a_events o)
  /\ a_events o = [EvRead 0 1].
Proof.
  intros dev w Q S o.
  destruct (run_quiet _ _ _ _ (faithful_i2c dev) (ctor_prog C_i2c) w Q S (ctor_evsafe C_i2c)) as [[_ [_ [_ [R _]]]] _].
  split; [exact R|]. unfold o, ctor_prog, check_id. cbn [bind read_register sem]. destruct (N.eqb _ 144); reflexivity.
Qed.

(* the two device addresses of the datasheet *)
Example c12_addresses : frame_i2c 20 (EvWrite 25 2) = [HI2cWrite 20 [25; 2]] /\ frame_i2c 21 (EvRead 4 6) = [HI2cWriteRead 21 [4] 6].
Proof. split; reflexivity. Qed.
