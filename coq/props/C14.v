(* C14 — the driver behaves identically over I2C and SPI.
   Both transports realise the register-level semantics `sem`: for every API operation, from
   quiet buses holding the same chip and the same shadow, the run over I2C and the run over SPI
   return the same value or error, leave the same shadow and the same chip, and perform the same
   sequence of register-level reads and writes.  Whole programs follow by induction on the call
   list (c14_programs). *)
Require Import BMA.lib.Base BMA.lib.Reflect BMA.gen.GenTypes BMA.gen.GenPure BMA.lib.Prog BMA.gen.GenProg BMA.gen.GenMeta
               BMA.lib.Encode BMA.gen.GenApi BMA.lib.Run BMA.lib.Driver BMA.proofs.Generic BMA.proofs.Rules BMA.proofs.Transport.
Open Scope N_scope.

(* what an observer at register level sees of a call *)
Definition core {A} (w0 : world) (r : outcome A) : option (A + BMA400Error) * Config * chip * list event :=
  (match r with Done a _ => Some (inl a) | Failed e _ => Some (inr e) | _ => None end,
   shadow (world_of r), hchip (hst (world_of r)), skipn (length (journal w0)) (journal (world_of r))).

Lemma core_of_sem : forall A T frame okT, faithful T frame okT -> forall (p : prog A) w, quiet (hst w) -> okT (hst w) -> evsafe p ->
  let o := sem p (shadow w) (hchip (hst w)) [] in
  core w (run T p w) = (match o with ADone a _ _ _ => Some (inl a) | AFailed e _ _ _ => Some (inr e) | _ => None end,
                        a_shadow o, a_chip o, a_events o).
Proof.
  intros A T frame okT FT p w Q Ok Ev o.
  destruct (run_quiet A T frame okT FT p w Q Ok Ev) as [[T1 [T2 [T3 _]]] Sr]. fold o in T1, T2, T3, Sr.
  unfold core. rewrite T1, T2, T3. rewrite skipn_app, skipn_all, Nat.sub_diag. cbn [skipn app].
  destruct o, (run T p w); cbn [same_result] in Sr; try contradiction; try subst; reflexivity.
Qed.

Theorem c14_every_operation : forall dev op w1 w2, api_only op = true ->
  quiet (hst w1) -> strap (hst w1) = dev -> quiet (hst w2) ->
  shadow w1 = shadow w2 -> hchip (hst w1) = hchip (hst w2) ->
  core w1 (run (T_i2c dev) (step op) w1) = core w2 (run T_spi (step op) w2).
Proof.
  intros dev op w1 w2 Hop Q1 S1 Q2 Es Ec.
  rewrite (core_of_sem _ _ _ _ (faithful_i2c dev) (step op) w1 Q1 S1 (step_evsafe op Hop)).
  rewrite (core_of_sem _ _ _ _ faithful_spi (step op) w2 Q2 I (step_evsafe op Hop)).
  rewrite Es, Ec. reflexivity.
Qed.

(* after a call both buses are quiet again, so the equality extends to every program by induction *)
Fixpoint run_calls (T : transport) (ops : list api_op) (w : world) : list (option (list N + BMA400Error)) * world :=
  match ops with
  | [] => ([], w)
  | op :: rest => let r := run T (step op) (begin_call [] w) in
                  let '(rs, w') := run_calls T rest (world_of r) in
                  (match r with Done a _ => Some (inl a) | Failed e _ => Some (inr e) | _ => None end :: rs, w')
  end.

Theorem c14_programs : forall dev ops w1 w2, forallb api_only ops = true ->
  cs_low (hst w1) = false -> win (hst w1) = WIdle -> strap (hst w1) = dev -> cs_low (hst w2) = false -> win (hst w2) = WIdle ->
  shadow w1 = shadow w2 -> hchip (hst w1) = hchip (hst w2) ->
  fst (run_calls (T_i2c dev) ops w1) = fst (run_calls T_spi ops w2)
  /\ shadow (snd (run_calls (T_i2c dev) ops w1)) = shadow (snd (run_calls T_spi ops w2))
  /\ hchip (hst (snd (run_calls (T_i2c dev) ops w1))) = hchip (hst (snd (run_calls T_spi ops w2))).
Proof.
  intros dev ops. induction ops as [|op rest IH]; intros w1 w2 Hops C1 W1 S1 C2 W2 Es Ec.
  - cbn. auto.
  - cbn [forallb] in Hops. apply andb_prop in Hops. destruct Hops as [Hop Hrest]. cbn [run_calls].
    set (b1 := begin_call [] w1). set (b2 := begin_call [] w2).
    assert (Q1 : quiet (hst b1)) by (unfold b1, begin_call, quiet; cbn; auto).
    assert (Q2 : quiet (hst b2)) by (unfold b2, begin_call, quiet; cbn; auto).
    assert (Sb : strap (hst b1) = dev) by (unfold b1, begin_call; cbn; exact S1).
    assert (Esb : shadow b1 = shadow b2) by (unfold b1, b2, begin_call; cbn; exact Es).
    assert (Ecb : hchip (hst b1) = hchip (hst b2)) by (unfold b1, b2, begin_call; cbn; exact Ec).
    destruct (run_quiet _ _ _ _ (faithful_i2c dev) (step op) b1 Q1 Sb (step_evsafe op Hop)) as [[A1 [A2 [_ [_ [_ [[_ [A6 A7]] [A8 _]]]]]]] Ar].
    destruct (run_quiet _ _ _ _ faithful_spi (step op) b2 Q2 I (step_evsafe op Hop)) as [[B1 [B2 [_ [_ [_ [[_ [B6 B7]] _]]]]]] Br].
    rewrite Esb, Ecb in A1, A2, Ar.
    set (o := sem (step op) (shadow b2) (hchip (hst b2)) []) in *.
    set (r1 := run (T_i2c dev) (step op) b1) in *. set (r2 := run T_spi (step op) b2) in *.
    assert (Er : (match r1 with Done a _ => Some (inl a) | Failed e _ => Some (inr e) | _ => None end)
                 = (match r2 with Done a _ => Some (inl a) | Failed e _ => Some (inr e) | _ => None end)).
    { destruct o, r1, r2; cbn [same_result] in Ar, Br; try contradiction; try subst; reflexivity. }
    specialize (IH (world_of r1) (world_of r2) Hrest A6 A7).
    assert (S1' : strap (hst (world_of r1)) = dev) by (rewrite A8; exact Sb).
    specialize (IH S1' B6 B7). rewrite A1, A2, B1, B2 in IH. specialize (IH eq_refl eq_refl).
    destruct (run_calls (T_i2c dev) rest (world_of r1)) as [rs1 x1]. destruct (run_calls T_spi rest (world_of r2)) as [rs2 x2].
    cbn [fst snd] in *. destruct IH as [I1 [I2 I3]]. rewrite Er, I1. auto.
Qed.
