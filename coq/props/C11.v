(* C11 — after soft_reset the driver is indistinguishable from a freshly created one.
   For EVERY world (any configuration history, any earlier failures, any fault plan for the reset call
   itself): if soft_reset returns Ok then its register-level journal is exactly
   [write 0x7E <- 0xB6; read 0x0D, 1 byte], the shadow is the default configuration and the chip is a
   chip at its power-on defaults (same read-only data) — i.e. precisely the state of a newly
   constructed driver — so every follow-up program behaves identically (c11_follow_up). *)
Require Import BMA.lib.Base BMA.lib.Reflect BMA.gen.GenTypes BMA.gen.GenPure BMA.lib.Prog BMA.gen.GenProg BMA.gen.GenMeta
               BMA.lib.Encode BMA.gen.GenApi BMA.lib.Run BMA.lib.Driver BMA.proofs.Generic BMA.proofs.Rules BMA.proofs.Coherent.
From Coq Require Import Lia.
Open Scope N_scope.

Theorem c11_reset_state : forall w w', run T_reg BMA400_soft_reset w = Done tt w' ->
  shadow w' = Config_default
  /\ wchip w' = power_on (regs (wchip w)) (fifo (wchip w)) (st_pos (wchip w)) (st_neg (wchip w))
  /\ journal w' = journal w ++ [EvWrite 126 182; EvRead 13 1].
Proof.
  intros w w'. unfold BMA400_soft_reset. cbn [bind write_register put_shadow read_register run].
  cbn [t_write t_read T_reg]. unfold reg_write, reg_read, attempt.
  destruct (faulty (hst w)) eqn:F1; [discriminate|].
  cbn [log_ev hst]. autorewrite with hproj.
  match goal with |- context [faulty ?h] => destruct (faulty h) eqn:F2 end; [discriminate|].
  autorewrite with hproj.
  change (Command_to_byte Command_SoftReset) with 182. change Command_ADDR with 126. change Event_ADDR with 13.
  change (len (repeatN 0 1)) with 1.
  assert (Ec : chip_read 13 1 (chip_write 126 182 (hchip (hst w))) = ([reg_out (chip_write 126 182 (hchip (hst w))) 13], chip_write 126 182 (hchip (hst w)))) by reflexivity.
  rewrite Ec. intro H. injection H as H. subst w'. unfold wchip, log_ev. cbn [shadow hst journal]. autorewrite with hproj.
  repeat split. rewrite <- app_assoc. reflexivity.
Qed.

(* any follow-up program: its register-level behaviour is a function of (shadow, chip) only *)
Theorem c11_follow_up : forall A (p : prog A) w w', run T_reg BMA400_soft_reset w = Done tt w' ->
  sem p (shadow w') (wchip w') [] =
  sem p Config_default (power_on (regs (wchip w)) (fifo (wchip w)) (st_pos (wchip w)) (st_neg (wchip w))) [].
Proof. intros A p w w' H. destruct (c11_reset_state w w' H) as [E1 [E2 _]]. rewrite E1, E2. reflexivity. Qed.

(* a reset that does NOT return Ok: either the command write failed and nothing changed, or the command was
   acknowledged (the chip did reset) and only the event read failed - then the shadow already holds the defaults.
   In both cases belief and device stay in step (C16), so a failed reset can simply be repeated. *)
Theorem c11_failed_reset : forall w e w', run T_reg BMA400_soft_reset w = Failed e w' ->
  (shadow w' = shadow w /\ wchip w' = wchip w)
  \/ (shadow w' = Config_default
      /\ wchip w' = power_on (regs (wchip w)) (fifo (wchip w)) (st_pos (wchip w)) (st_neg (wchip w))).
Proof.
  intros w e w'. unfold BMA400_soft_reset. cbn [bind write_register put_shadow read_register run].
  cbn [t_write t_read T_reg]. unfold reg_write, reg_read, attempt.
  destruct (faulty (hst w)) eqn:F1.
  - cbn [fst snd]. intro H. injection H as _ H. subst w'. left. unfold wchip, log_ev. cbn [shadow hst journal]. autorewrite with hproj. auto.
  - cbn [log_ev hst]. autorewrite with hproj.
    match goal with |- context [faulty ?h] => destruct (faulty h) eqn:F2 end.
    + intro H. injection H as _ H. subst w'. right. unfold wchip, log_ev. cbn [shadow hst journal]. autorewrite with hproj. auto.
    + autorewrite with hproj.
      change (Command_to_byte Command_SoftReset) with 182. change Command_ADDR with 126. change Event_ADDR with 13.
      change (len (repeatN 0 1)) with 1.
      assert (Ec : chip_read 13 1 (chip_write 126 182 (hchip (hst w))) = ([reg_out (chip_write 126 182 (hchip (hst w))) 13], chip_write 126 182 (hchip (hst w)))) by reflexivity.
      rewrite Ec. discriminate.
Qed.

(* and the configuration registers of that chip are the datasheet reset values *)
Theorem c11_registers_at_reset : forall ro q pos neg a, 25 <= a < 128 -> regs (power_on ro q pos neg) a = reset_val a.
Proof.
  intros ro q pos neg a H. unfold power_on, FIRST_CFG. cbn [regs].
  replace (N.ltb a 25) with false by (symmetry; apply N.ltb_ge; lia). replace (N.ltb a 128) with true by (symmetry; apply N.ltb_lt; lia). reflexivity.
Qed.

(* over SPI the reset call also ends with chip-select high and the decoder idle (C13), so the transport state is fresh too *)
Example c11_example : exists w', run T_reg BMA400_soft_reset (init_world 20 (mk_scenario [144] [] [] [])) = Done tt w'.
Proof. eexists. vm_compute. reflexivity. Qed.
