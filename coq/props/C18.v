(* C18 — construction succeeds exactly for chip id 0x90 and starts from the reset defaults.
   The three constructors are hand-modelled (Driver.ctor_prog; i2c.rs / spi.rs are not translated) and tied
   by running the correspondence check over all 256 id values x the three constructors on every run. *)
Require Import BMA.lib.Base BMA.lib.Reflect BMA.gen.GenTypes BMA.gen.GenPure BMA.lib.Prog BMA.gen.GenProg BMA.gen.GenMeta
               BMA.lib.Encode BMA.gen.GenApi BMA.lib.Run BMA.lib.Driver BMA.proofs.Generic BMA.proofs.Rules BMA.spec.Datasheet.
From Coq Require Import Lia.
Open Scope N_scope.

(* register-level behaviour of each constructor on a chip whose id register reads `id`, for all 256 values *)
Definition ctor_events (c : ctor) : list event :=
  match c with C_i2c => [EvRead 0 1] | C_spi => [EvRead 0 1; EvRead 0 1] | C_spi3 => [EvRead 0 1; EvRead 0 1; EvWrite 124 1] end.

Theorem c18_constructor : forall c d ch,
  let id := reg_out ch 0 in
  a_events (sem (ctor_prog c) d ch []) = ctor_events c
  /\ (id = 144 -> exists ch', sem (ctor_prog c) d ch [] = ADone [] d ch' (ctor_events c))
  /\ (id <> 144 -> exists ch', sem (ctor_prog c) d ch [] = AFailed BMA400Error_ChipIdReadFailed d ch' (ctor_events c)).
Proof.
  intros c d ch id. unfold id.
  assert (Hcr : forall x, chip_read ChipId_ADDR 1 x = ([reg_out x 0], x)) by reflexivity.
  assert (Hw : forall x, reg_out (chip_write InterfaceConfig_ADDR (InterfaceConfig_with_spi_3wire_mode InterfaceConfig_DEFAULT true) x) 0 = reg_out x 0).
  { intro x. unfold reg_out, chip_write. cbn. reflexivity. }
  destruct c; unfold ctor_prog, check_id, ctor_events; cbn [bind read_register write_register sem];
    repeat (rewrite Hcr; cbn [fst snd]); cbn [nth app];
    destruct (N.eqb_spec (reg_out ch 0) 144) as [E|E]; cbn [a_events sem];
    (split; [reflexivity | split; intro H; first [congruence | eexists; reflexivity]]).
Qed.

(* what the constructor leaves behind: the shadow it was given (Config::default() in the code) is untouched, the
   chip's registers are untouched by the I2C and 4-wire constructors, and the 3-wire constructor has written
   exactly IF_CONF <- 0x01 - whether or not the id matched (the code checks the id after that write) *)
Theorem c18_state_after : forall c d ch,
  a_shadow (sem (ctor_prog c) d ch []) = d
  /\ a_chip (sem (ctor_prog c) d ch []) = match c with C_spi3 => chip_write 124 1 ch | _ => ch end.
Proof.
  intros c d ch.
  assert (Hcr : forall x, chip_read ChipId_ADDR 1 x = ([reg_out x 0], x)) by reflexivity.
  destruct c; unfold ctor_prog, check_id; cbn [bind read_register write_register sem];
    repeat (rewrite Hcr; cbn [fst snd]); cbn [nth app];
    match goal with |- context [N.eqb ?x 144] => destruct (N.eqb x 144) end; cbn [a_shadow a_chip sem]; split; reflexivity.
Qed.

(* a freshly constructed driver assumes precisely the datasheet reset value of every configuration register *)
Theorem c18_defaults_are_datasheet :
  forallb (fun p => existsb (fun r => match r with (a, rst, _) => N.eqb a (fst p) && N.eqb rst (snd p) end) ds_regs) (Config_dump Config_default) = true
  /\ length (Config_dump Config_default) = 57%nat.
Proof. split; vm_compute; reflexivity. Qed.

(* the 3-wire constructor enables 3-wire mode: IF_CONF (0x7C) <- 0x01 *)
Theorem c18_3wire : InterfaceConfig_ADDR = 124 /\ InterfaceConfig_with_spi_3wire_mode InterfaceConfig_DEFAULT true = 1.
Proof. split; vm_compute; reflexivity. Qed.

Example c18_example : a_events (sem (ctor_prog C_spi3) Config_default (power_on (fun a => if N.eqb a 0 then 144 else 0) [] [] []) []) = [EvRead 0 1; EvRead 0 1; EvWrite 124 1].
Proof. vm_compute. reflexivity. Qed.
