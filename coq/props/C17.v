(* C17 — status, interrupt-status and counter getters decode every register value.
   Each getter of the generated model IS (by conversion) a single burst read followed by a pure
   decode: `getter = Read addr n (fun l => Ret (dec l))`.  Hence, for every world, transport
   and fault plan, its only bus transaction is that read (see proofs/Generic.v for what a
   single `Read` does), and `dec` is characterised for every byte content by evaluation over
   the whole domain.  Bit positions and addresses are the datasheet's (spec side, written here). *)
Require Import BMA.lib.Base BMA.lib.Reflect BMA.gen.GenTypes BMA.gen.GenPure BMA.lib.Prog BMA.gen.GenProg BMA.gen.GenMeta
               BMA.lib.Encode BMA.gen.GenApi BMA.spec.Datasheet.
From Coq Require Import Lia.
Open Scope N_scope.

Definition single_read {A} (p : prog A) (addr n : N) (dec : list N -> A) : Prop :=
  p = Read addr n (fun l => Ret (dec l)).

Definition bit (b i : N) : bool := N.testbit b i.
Definition field2 (b shift : N) : N := N.land (N.shiftr b shift) 3.

Theorem c17_status : exists dec, single_read BMA400_get_status ds_StatusReg_addr 1 dec /\
  forall b, b < 256 ->
    Status_drdy_stat (dec [b]) = bit b 7 /\ Status_cmd_rdy (dec [b]) = bit b 4 /\ Status_int_active (dec [b]) = bit b 0 /\
    Status_power_mode (dec [b]) = (if N.eqb (field2 b 1) 0 then PowerMode_Sleep else if N.eqb (field2 b 1) 1 then PowerMode_LowPower else PowerMode_Normal).
Proof. eexists. split; [reflexivity|]. intros b Hb. repeat split; finite_reflect. Qed.

Theorem c17_int_status0 : exists dec, single_read BMA400_get_int_status0 ds_InterruptStatus0_addr 1 dec /\
  forall b, b < 256 ->
    IntStatus0_drdy_stat (dec [b]) = bit b 7 /\ IntStatus0_fwm_stat (dec [b]) = bit b 6 /\ IntStatus0_ffull_stat (dec [b]) = bit b 5 /\
    IntStatus0_ieng_overrun_stat (dec [b]) = bit b 4 /\ IntStatus0_gen2_stat (dec [b]) = bit b 3 /\ IntStatus0_gen1_stat (dec [b]) = bit b 2 /\
    IntStatus0_orientch_stat (dec [b]) = bit b 1 /\ IntStatus0_wkup_stat (dec [b]) = bit b 0.
Proof. eexists. split; [reflexivity|]. intros b Hb. repeat split; finite_reflect. Qed.

Theorem c17_int_status1 : exists dec, single_read BMA400_get_int_status1 ds_InterruptStatus1_addr 1 dec /\
  forall b, b < 256 ->
    IntStatus1_ieng_overrun_stat (dec [b]) = bit b 4 /\ IntStatus1_d_tap_stat (dec [b]) = bit b 3 /\ IntStatus1_s_tap_stat (dec [b]) = bit b 2 /\
    IntStatus1_step_int_stat (dec [b]) = (if N.eqb (field2 b 0) 0 then StepIntStatus_None else if N.eqb (field2 b 0) 1 then StepIntStatus_OneStepDetect else StepIntStatus_ManyStepDetect).
Proof. eexists. split; [reflexivity|]. intros b Hb. repeat split; finite_reflect. Qed.

Theorem c17_int_status2 : exists dec, single_read BMA400_get_int_status2 ds_InterruptStatus2_addr 1 dec /\
  forall b, b < 256 ->
    IntStatus2_ieng_overrun_stat (dec [b]) = bit b 4 /\ IntStatus2_actch_z_stat (dec [b]) = bit b 2 /\
    IntStatus2_actch_y_stat (dec [b]) = bit b 1 /\ IntStatus2_actch_x_stat (dec [b]) = bit b 0.
Proof. eexists. split; [reflexivity|]. intros b Hb. repeat split; finite_reflect. Qed.

Theorem c17_cmd_error : exists dec, single_read BMA400_get_cmd_error ds_ErrReg_addr 1 dec /\ forall b, b < 256 -> dec [b] = bit b 1.
Proof. eexists. split; [reflexivity|]. intros b Hb. finite_reflect. Qed.

Theorem c17_reset_status : exists dec, single_read BMA400_get_reset_status ds_Event_addr 1 dec /\ forall b, b < 256 -> dec [b] = bit b 0.
Proof. eexists. split; [reflexivity|]. intros b Hb. finite_reflect. Qed.

Theorem c17_chip_id : exists dec, single_read BMA400_get_id ds_ChipId_addr 1 dec /\ forall b, dec [b] = b.
Proof. eexists. split; [reflexivity|]. intros b. reflexivity. Qed.

Theorem c17_step_activity : exists dec, single_read BMA400_get_step_activity ds_StepStatus_addr 1 dec /\
  forall b, b < 256 -> dec [b] = (if N.eqb (field2 b 0) 0 then Activity_Still else if N.eqb (field2 b 0) 1 then Activity_Walk else Activity_Run).
Proof. eexists. split; [reflexivity|]. intros b Hb. finite_reflect. Qed.

Theorem c17_fifo_len : exists dec, single_read BMA400_get_fifo_len ds_FifoLength0_addr 2 dec /\
  forall b0 b1, b0 < 256 -> b1 < 256 -> dec [b0; b1] = (b0 + 256 * b1) mod 2048.
Proof. eexists. split; [reflexivity|]. intros b0 b1 H0 H1. finite_reflect. Qed.

Theorem c17_sensor_clock : exists dec, single_read BMA400_get_sensor_clock ds_SensorTime0_addr 3 dec /\
  forall b0 b1 b2, dec [b0; b1; b2] = b0 + 256 * b1 + 65536 * b2.
Proof. eexists. split; [reflexivity|]. intros b0 b1 b2. cbv -[N.add N.mul]. lia. Qed.

Theorem c17_step_count : exists dec, single_read BMA400_get_step_count ds_StepCount0_addr 3 dec /\
  forall b0 b1 b2, dec [b0; b1; b2] = b0 + 256 * b1 + 65536 * b2.
Proof. eexists. split; [reflexivity|]. intros b0 b1 b2. cbv -[N.add N.mul]. lia. Qed.

Theorem c17_raw_temp : exists dec, single_read BMA400_get_raw_temp ds_TempData_addr 1 dec /\
  forall b, b < 256 -> dec [b] = (if N.ltb b 128 then Z.of_N b else Z.of_N b - 256)%Z.
Proof. eexists. split; [reflexivity|]. intros b Hb. finite_reflect. Qed.

(* the Celsius getter's f32 line is hand-modelled: twice the temperature is raw + 46 (exact);
   its 256 results are compared with the real f32 arithmetic by the correspondence check *)
Theorem c17_temp_celsius_model : exists dec, single_read (step Op_get_temp_celsius) ds_TempData_addr 1 dec /\
  forall b, b < 256 -> dec [b] = [encZ ((if N.ltb b 128 then Z.of_N b else Z.of_N b - 256) + 46)%Z].
Proof. eexists. split; [reflexivity|]. intros b Hb. finite_reflect. Qed.

Example c17_example : exists dec, single_read BMA400_get_fifo_len 18 2 dec /\ dec [255; 255] = 2047.
Proof. eexists. split; [reflexivity| vm_compute; reflexivity]. Qed.
