(* C16 — a bus failure never leaves the driver with a false belief about the device.
   Assumption (stated in the property): a failed bus write is not applied by the chip — the
   register-level transport T_reg with an arbitrary fault plan per call (any number of failing
   transactions at any positions).  Invariant: every register of the shadow configuration equals
   the chip's register (Coh).  It holds after construction and is preserved by every API call at
   every exit — success, rejection, bus failure at any position, panic — hence after every history.
   Over I2C the same holds at HAL level (one HAL call per transaction, the strapped address answers, a failed call is not
   applied): proofs/I2cSim.v shows that the I2C transport and T_reg produce the same results, shadow and chip under the same
   fault plan, for every program touching 7-bit addresses only (every API operation: step_aok) — c16_i2c_*. *)
Require Import BMA.lib.Base BMA.lib.Reflect BMA.gen.GenTypes BMA.gen.GenPure BMA.lib.Prog BMA.gen.GenProg BMA.gen.GenMeta
               BMA.lib.Encode BMA.gen.GenApi BMA.lib.Run BMA.lib.Driver BMA.proofs.Generic BMA.proofs.Rules BMA.proofs.Coherent BMA.proofs.I2cSim.
From Coq Require Import Lia.
Open Scope N_scope.

(* one API call as the harness runs it: its own fault plan *)
Definition call (w : world) (c : api_op * list N) : world := world_of (run T_reg (step (fst c)) (begin_call (snd c) w)).
Definition history (w : world) (cs : list (api_op * list N)) : world := fold_left call cs w.

Theorem c16_every_call : forall op fl w, api_only op = true -> Coh w -> Coh (call w (op, fl)).
Proof.
  intros op fl w Hop H. unfold call. cbn [fst snd]. apply (step_preserves op Hop).
  unfold Coh, wchip, begin_call in *. cbn [shadow hst hchip]. exact H.
Qed.

Theorem c16_every_history : forall cs w, forallb (fun c => api_only (fst c)) cs = true -> Coh w -> Coh (history w cs).
Proof.
  induction cs as [|c cs IH]; intros w Hc H; [exact H|].
  cbn [forallb] in Hc. apply andb_prop in Hc. destruct Hc as [H1 H2]. cbn [history fold_left].
  apply IH; [exact H2|]. destruct c as [op fl]. apply c16_every_call; assumption.
Qed.

(* a freshly constructed driver on a chip holding its power-on defaults is coherent *)
Theorem c16_initial : forall s dev, Coh (init_world dev s).
Proof.
  intros s dev a v Hin. unfold init_world, wchip, scenario_chip, power_on. cbn [shadow hst hchip regs].
  pose proof default_is_reset as D. rewrite forallb_forall in D. specialize (D (a, v) Hin). cbn [fst snd] in D.
  repeat (apply andb_prop in D; destruct D as [D ?]). apply N.eqb_eq in D. apply N.leb_le in H0. apply N.ltb_lt in H.
  unfold FIRST_CFG. replace (N.ltb a 25) with false by (symmetry; apply N.ltb_ge; lia). replace (N.ltb a 128) with true by (symmetry; apply N.ltb_lt; lia). exact D.
Qed.

(* ---- the same over I2C at HAL level ---- *)
Definition call_i2c (dev : N) (w : world) (c : api_op * list N) : world := world_of (run (T_i2c dev) (step (fst c)) (begin_call (snd c) w)).
Definition history_i2c (dev : N) (w : world) (cs : list (api_op * list N)) : world := fold_left (call_i2c dev) cs w.

Lemma simo_world : forall A dev (o o' : outcome A), simo dev o o' -> simw dev (world_of o) (world_of o').
Proof. intros A dev [a w|e w|w|w] [a' w'|e' w'|w'|w'] H; cbn [simo world_of] in *; try contradiction; try exact H; destruct H as [_ H]; exact H. Qed.

Theorem c16_i2c_call_is_reg : forall dev op fl w, api_only op = true -> strap (hst w) = dev ->
  simw dev (call_i2c dev w (op, fl)) (call w (op, fl)).
Proof.
  intros dev op fl w Hop Hs. unfold call_i2c, call. cbn [fst snd]. apply simo_world. apply i2c_is_reg; [apply step_aok; exact Hop|].
  unfold simw, simh, begin_call. cbn [shadow hst hchip ncalls faults strap]. auto.
Qed.

Definition CohI (dev : N) (w : world) : Prop := Coh w /\ strap (hst w) = dev.

Theorem c16_i2c_every_call : forall dev op fl w, api_only op = true -> CohI dev w -> CohI dev (call_i2c dev w (op, fl)).
Proof.
  intros dev op fl w Hop [Hc Hs]. destruct (c16_i2c_call_is_reg dev op fl w Hop Hs) as [Sd [C [_ [_ St]]]].
  split; [|exact St]. pose proof (c16_every_call op fl w Hop Hc) as R. unfold Coh, wchip in *. rewrite Sd, C. exact R.
Qed.

Theorem c16_i2c_every_history : forall dev cs w, forallb (fun c => api_only (fst c)) cs = true -> CohI dev w -> CohI dev (history_i2c dev w cs).
Proof.
  intros dev. induction cs as [|c cs IH]; intros w Hc H; [exact H|].
  cbn [forallb] in Hc. apply andb_prop in Hc. destruct Hc as [H1 H2]. cbn [history_i2c fold_left].
  apply IH; [exact H2|]. destruct c as [op fl]. apply c16_i2c_every_call; assumption.
Qed.

Theorem c16_i2c_initial : forall s dev, CohI dev (init_world dev s).
Proof. intros s dev. split; [apply c16_initial | reflexivity]. Qed.

(* consequences named in the property *)
(* get_data scales with the range bits the DEVICE holds (closes the history clause of C03) *)
Theorem c03_range_is_device : forall w, Coh w -> get_acc_config_acc_config1 (shadow w) = regs (wchip w) 26.
Proof. intros w H. symmetry. apply H. unfold Config_dump. cbn. auto 10. Qed.
(* the FIFO read guard looks at the power flag the DEVICE holds (used by C19) *)
Theorem c19_flag_is_device : forall w, Coh w -> get_fifo_config_fifo_pwr_config (shadow w) = regs (wchip w) 41.
Proof. intros w H. symmetry. apply H. unfold Config_dump. cbn. auto 20. Qed.
(* the interrupt enables the driver believes are the device's: a request to switch one on is compared with the truth *)
Theorem c16_enables_are_device : forall w, Coh w ->
  get_int_config_int_config0 (shadow w) = regs (wchip w) 31 /\ get_int_config_int_config1 (shadow w) = regs (wchip w) 32
  /\ get_wkup_int_config_wkup_int_config0 (shadow w) = regs (wchip w) 47.
Proof. intros w H. repeat split; symmetry; apply H; unfold Config_dump; cbn; auto 30. Qed.

Example c16_example : Coh (init_world 20 (mk_scenario [144] [] [] [])).
Proof. apply c16_initial. Qed.
