(* C09 — numeric settings saturate as documented and reassemble across split registers.
   Each theorem is about the generated model of a public builder setter; the per-register
   statements come from the per-setter theorems of C02 (spec/SetterSpec_*.v), the
   reassembly is closed by exhaustive evaluation over the whole argument type. *)
Require Import BMA.lib.Base BMA.lib.Reflect BMA.gen.GenTypes BMA.gen.GenPure BMA.gen.GenMeta BMA.spec.Datasheet BMA.spec.SetterSpec.
From Coq Require Import Lia.
Open Scope N_scope.

Definition T12 (v : Z) : N := of_signed 12 (Z.max (-2048) (Z.min 2047 v)).

Lemma ref12_value : forall v, (-32768 <= v < 32768)%Z ->
  to_signed 12 (N.land (T12 v) 255 + 256 * N.shiftr (T12 v) 8) = clampZ v (-2048) 2047.
Proof. intros v H. unfold T12. finite_reflect. Qed.
Lemma ref12_msb : forall v, (-32768 <= v < 32768)%Z -> N.ltb (N.shiftr (T12 v) 8) 16 = true.
Proof. intros v H. unfold T12. finite_reflect. Qed.
Lemma ref12_lsb : forall v, (-32768 <= v < 32768)%Z -> N.ltb (N.land (T12 v) 255) 256 = true.
Proof. intros v H. unfold T12. finite_reflect. Qed.

(* ---- FIFO watermark: min(v,1024) in 11 bits over 0x27 / 0x28 ---- *)
Theorem c09_fifo_watermark : forall b0 b1 b2 b3 v, b0 < 256 -> b1 < 256 -> b2 < 256 -> b3 < 256 -> v < 65536 ->
  exists lo hi,
    FifoConfigBuilder_with_watermark_thresh (mk_FifoConfig b0 b1 b2 b3) v = mk_FifoConfig b0 lo hi b3
    /\ lo + 256 * hi = N.min v 1024 /\ N.ltb lo 256 = true /\ N.ltb hi 8 = true.
Proof.
  intros b0 b1 b2 b3 v H0 H1 H2 H3 Hv.
  rewrite C02_FifoConfigBuilder_with_watermark_thresh by assumption.
  do 2 eexists. split; [reflexivity|]. clear H0 H1 H2 H3. repeat split; finite_reflect.
Qed.

(* ---- auto-low-power timeout: min(v,4095) in 12 bits over 0x2A and the high nibble of 0x2B ---- *)
Theorem c09_auto_lp_timeout : forall b0 b1 v, b0 < 256 -> b1 < 256 -> v < 65536 ->
  exists r0 r1,
    AutoLpConfigBuilder_with_timeout (mk_AutoLpConfig b0 b1) v = mk_AutoLpConfig r0 r1
    /\ 16 * r0 + N.shiftr r1 4 = N.min v 4095 /\ N.land r1 15 = N.land b1 15
    /\ N.ltb r0 256 = true /\ N.ltb r1 256 = true.
Proof.
  intros b0 b1 v H0 H1 Hv.
  rewrite C02_AutoLpConfigBuilder_with_timeout by assumption.
  do 2 eexists. split; [reflexivity|]. unfold fld. repeat split; finite_reflect.
Qed.

(* ---- auto-wake-up period: min(v,4095) over 0x2C and the high nibble of 0x2D ---- *)
Theorem c09_auto_wkup_period : forall b0 b1 v, b0 < 256 -> b1 < 256 -> v < 65536 ->
  exists r0 r1,
    AutoWakeupConfigBuilder_with_wakeup_period (mk_AutoWakeupConfig b0 b1) v = mk_AutoWakeupConfig r0 r1
    /\ 16 * r0 + N.shiftr r1 4 = N.min v 4095 /\ N.land r1 15 = N.land b1 15
    /\ N.ltb r0 256 = true /\ N.ltb r1 256 = true.
Proof.
  intros b0 b1 v H0 H1 Hv.
  rewrite C02_AutoWakeupConfigBuilder_with_wakeup_period by assumption.
  do 2 eexists. split; [reflexivity|]. unfold fld. repeat split; finite_reflect.
Qed.

(* ---- wake-up sample count: clamp(v,1,8)-1 in bits 4:2 of 0x2F, no underflow ---- *)
Theorem c09_wkup_num_samples : forall b0 b1 b2 b3 b4 v, b0 < 256 -> b1 < 256 -> b2 < 256 -> b3 < 256 -> b4 < 256 -> v < 256 ->
  exists r0,
    WakeupIntConfigBuilder_with_num_samples (mk_WakeupIntConfig b0 b1 b2 b3 b4) v = Ok (mk_WakeupIntConfig r0 b1 b2 b3 b4)
    /\ N.land (N.shiftr r0 2) 7 + 1 = N.max 1 (N.min 8 v) /\ N.land r0 227 = N.land b0 227 /\ N.ltb r0 256 = true.
Proof.
  intros b0 b1 b2 b3 b4 v H0 H1 H2 H3 H4 Hv.
  rewrite C02_WakeupIntConfigBuilder_with_num_samples by assumption.
  eexists. split; [reflexivity|]. unfold fld. clear H1 H2 H3 H4. repeat split; finite_reflect.
Qed.

(* ---- wake-up reference: 8-bit two's complement ---- *)
Theorem c09_wkup_ref_accel : forall b0 b1 b2 b3 b4 x y z, b0 < 256 -> b1 < 256 -> b2 < 256 -> b3 < 256 -> b4 < 256 ->
  (-128 <= x < 128)%Z -> (-128 <= y < 128)%Z -> (-128 <= z < 128)%Z ->
  exists r2 r3 r4,
    WakeupIntConfigBuilder_with_ref_accel (mk_WakeupIntConfig b0 b1 b2 b3 b4) x y z = mk_WakeupIntConfig b0 b1 r2 r3 r4
    /\ to_signed 8 r2 = x /\ to_signed 8 r3 = y /\ to_signed 8 r4 = z
    /\ N.ltb r2 256 = true /\ N.ltb r3 256 = true /\ N.ltb r4 256 = true.
Proof.
  intros b0 b1 b2 b3 b4 x y z H0 H1 H2 H3 H4 Hx Hy Hz.
  rewrite C02_WakeupIntConfigBuilder_with_ref_accel by assumption.
  do 3 eexists. split; [reflexivity|]. clear H0 H1 H2 H3 H4. repeat split; finite_reflect.
Qed.

(* ---- generic interrupt 1 / 2 and orientation reference: clamp(v,-2048,2047) as 12-bit two's complement ---- *)
Theorem c09_gen1_ref_accel : forall b0 b1 b2 b3 b31 b4 b5 b6 b7 b8 b9 x y z,
  b0 < 256 -> b1 < 256 -> b2 < 256 -> b3 < 256 -> b31 < 256 -> b4 < 256 -> b5 < 256 -> b6 < 256 -> b7 < 256 -> b8 < 256 -> b9 < 256 ->
  (-32768 <= x < 32768)%Z -> (-32768 <= y < 32768)%Z -> (-32768 <= z < 32768)%Z ->
  exists xl xh yl yh zl zh,
    GenIntConfigBuilder_with_ref_accel (GenIntConfig_Gen1Int (mk_Gen1IntConfig b0 b1 b2 b3 b31 b4 b5 b6 b7 b8 b9)) x y z
    = GenIntConfig_Gen1Int (mk_Gen1IntConfig b0 b1 b2 b3 b31 xl xh yl yh zl zh)
    /\ to_signed 12 (xl + 256 * xh) = clampZ x (-2048) 2047 /\ N.ltb xh 16 = true /\ N.ltb xl 256 = true
    /\ to_signed 12 (yl + 256 * yh) = clampZ y (-2048) 2047 /\ N.ltb yh 16 = true /\ N.ltb yl 256 = true
    /\ to_signed 12 (zl + 256 * zh) = clampZ z (-2048) 2047 /\ N.ltb zh 16 = true /\ N.ltb zl 256 = true.
Proof.
  intros. rewrite C02_GenIntConfigBuilder_with_ref_accel_Gen1Int by assumption.
  do 6 eexists. split; [reflexivity|].
  repeat split; first [apply ref12_value | apply ref12_msb | apply ref12_lsb]; assumption.
Qed.
Theorem c09_gen2_ref_accel : forall b0 b1 b2 b3 b31 b4 b5 b6 b7 b8 b9 x y z,
  b0 < 256 -> b1 < 256 -> b2 < 256 -> b3 < 256 -> b31 < 256 -> b4 < 256 -> b5 < 256 -> b6 < 256 -> b7 < 256 -> b8 < 256 -> b9 < 256 ->
  (-32768 <= x < 32768)%Z -> (-32768 <= y < 32768)%Z -> (-32768 <= z < 32768)%Z ->
  exists xl xh yl yh zl zh,
    GenIntConfigBuilder_with_ref_accel (GenIntConfig_Gen2Int (mk_Gen2IntConfig b0 b1 b2 b3 b31 b4 b5 b6 b7 b8 b9)) x y z
    = GenIntConfig_Gen2Int (mk_Gen2IntConfig b0 b1 b2 b3 b31 xl xh yl yh zl zh)
    /\ to_signed 12 (xl + 256 * xh) = clampZ x (-2048) 2047 /\ N.ltb xh 16 = true /\ N.ltb xl 256 = true
    /\ to_signed 12 (yl + 256 * yh) = clampZ y (-2048) 2047 /\ N.ltb yh 16 = true /\ N.ltb yl 256 = true
    /\ to_signed 12 (zl + 256 * zh) = clampZ z (-2048) 2047 /\ N.ltb zh 16 = true /\ N.ltb zl 256 = true.
Proof.
  intros. rewrite C02_GenIntConfigBuilder_with_ref_accel_Gen2Int by assumption.
  do 6 eexists. split; [reflexivity|].
  repeat split; first [apply ref12_value | apply ref12_msb | apply ref12_lsb]; assumption.
Qed.
Theorem c09_orient_ref_accel : forall b0 b1 b3 b4 b5 b6 b7 b8 b9 x y z,
  b0 < 256 -> b1 < 256 -> b3 < 256 -> b4 < 256 -> b5 < 256 -> b6 < 256 -> b7 < 256 -> b8 < 256 -> b9 < 256 ->
  (-32768 <= x < 32768)%Z -> (-32768 <= y < 32768)%Z -> (-32768 <= z < 32768)%Z ->
  exists xl xh yl yh zl zh,
    OrientChgConfigBuilder_with_ref_accel (mk_OrientChgConfig b0 b1 b3 b4 b5 b6 b7 b8 b9) x y z
    = mk_OrientChgConfig b0 b1 b3 xl xh yl yh zl zh
    /\ to_signed 12 (xl + 256 * xh) = clampZ x (-2048) 2047 /\ N.ltb xh 16 = true /\ N.ltb xl 256 = true
    /\ to_signed 12 (yl + 256 * yh) = clampZ y (-2048) 2047 /\ N.ltb yh 16 = true /\ N.ltb yl 256 = true
    /\ to_signed 12 (zl + 256 * zh) = clampZ z (-2048) 2047 /\ N.ltb zh 16 = true /\ N.ltb zl 256 = true.
Proof.
  intros. rewrite C02_OrientChgConfigBuilder_with_ref_accel by assumption.
  do 6 eexists. split; [reflexivity|].
  repeat split; first [apply ref12_value | apply ref12_msb | apply ref12_lsb]; assumption.
Qed.

(* ---- thresholds and durations verbatim (16-bit durations big-endian over 0x42/0x43 and 0x4D/0x4E) ---- *)
Theorem c09_gen1_duration : forall b0 b1 b2 b3 b31 b4 b5 b6 b7 b8 b9 v,
  b0 < 256 -> b1 < 256 -> b2 < 256 -> b3 < 256 -> b31 < 256 -> b4 < 256 -> b5 < 256 -> b6 < 256 -> b7 < 256 -> b8 < 256 -> b9 < 256 -> v < 65536 ->
  exists hi lo,
    GenIntConfigBuilder_with_duration (GenIntConfig_Gen1Int (mk_Gen1IntConfig b0 b1 b2 b3 b31 b4 b5 b6 b7 b8 b9)) v
    = GenIntConfig_Gen1Int (mk_Gen1IntConfig b0 b1 b2 hi lo b4 b5 b6 b7 b8 b9)
    /\ 256 * hi + lo = v /\ N.ltb hi 256 = true /\ N.ltb lo 256 = true.
Proof.
  intros. rewrite C02_GenIntConfigBuilder_with_duration_Gen1Int by assumption.
  do 2 eexists. split; [reflexivity|]. repeat split; finite_reflect.
Qed.
Theorem c09_gen2_duration : forall b0 b1 b2 b3 b31 b4 b5 b6 b7 b8 b9 v,
  b0 < 256 -> b1 < 256 -> b2 < 256 -> b3 < 256 -> b31 < 256 -> b4 < 256 -> b5 < 256 -> b6 < 256 -> b7 < 256 -> b8 < 256 -> b9 < 256 -> v < 65536 ->
  exists hi lo,
    GenIntConfigBuilder_with_duration (GenIntConfig_Gen2Int (mk_Gen2IntConfig b0 b1 b2 b3 b31 b4 b5 b6 b7 b8 b9)) v
    = GenIntConfig_Gen2Int (mk_Gen2IntConfig b0 b1 b2 hi lo b4 b5 b6 b7 b8 b9)
    /\ 256 * hi + lo = v /\ N.ltb hi 256 = true /\ N.ltb lo 256 = true.
Proof.
  intros. rewrite C02_GenIntConfigBuilder_with_duration_Gen2Int by assumption.
  do 2 eexists. split; [reflexivity|]. repeat split; finite_reflect.
Qed.
Theorem c09_thresholds_verbatim : forall v, v < 256 ->
  (forall b0 b1 b2 b3 b31 b4 b5 b6 b7 b8 b9, b0 < 256 -> b1 < 256 -> b2 < 256 -> b3 < 256 -> b31 < 256 -> b4 < 256 -> b5 < 256 -> b6 < 256 -> b7 < 256 -> b8 < 256 -> b9 < 256 ->
     GenIntConfigBuilder_with_threshold (GenIntConfig_Gen1Int (mk_Gen1IntConfig b0 b1 b2 b3 b31 b4 b5 b6 b7 b8 b9)) v
     = GenIntConfig_Gen1Int (mk_Gen1IntConfig b0 b1 v b3 b31 b4 b5 b6 b7 b8 b9)
     /\ GenIntConfigBuilder_with_threshold (GenIntConfig_Gen2Int (mk_Gen2IntConfig b0 b1 b2 b3 b31 b4 b5 b6 b7 b8 b9)) v
     = GenIntConfig_Gen2Int (mk_Gen2IntConfig b0 b1 v b3 b31 b4 b5 b6 b7 b8 b9))
  /\ (forall b0 b1 b3 b4 b5 b6 b7 b8 b9, b0 < 256 -> b1 < 256 -> b3 < 256 -> b4 < 256 -> b5 < 256 -> b6 < 256 -> b7 < 256 -> b8 < 256 -> b9 < 256 ->
     OrientChgConfigBuilder_with_threshold (mk_OrientChgConfig b0 b1 b3 b4 b5 b6 b7 b8 b9) v = mk_OrientChgConfig b0 v b3 b4 b5 b6 b7 b8 b9
     /\ OrientChgConfigBuilder_with_duration (mk_OrientChgConfig b0 b1 b3 b4 b5 b6 b7 b8 b9) v = mk_OrientChgConfig b0 b1 v b4 b5 b6 b7 b8 b9)
  /\ (forall b0 b1, b0 < 256 -> b1 < 256 -> ActChgConfigBuilder_with_threshold (mk_ActChgConfig b0 b1) v = mk_ActChgConfig v b1)
  /\ (forall b0 b1 b2 b3 b4, b0 < 256 -> b1 < 256 -> b2 < 256 -> b3 < 256 -> b4 < 256 ->
     WakeupIntConfigBuilder_with_threshold (mk_WakeupIntConfig b0 b1 b2 b3 b4) v = mk_WakeupIntConfig b0 v b2 b3 b4).
Proof.
  intros v Hv. repeat split; intros.
  - rewrite C02_GenIntConfigBuilder_with_threshold_Gen1Int by assumption. reflexivity.
  - rewrite C02_GenIntConfigBuilder_with_threshold_Gen2Int by assumption. reflexivity.
  - rewrite C02_OrientChgConfigBuilder_with_threshold by assumption. reflexivity.
  - rewrite C02_OrientChgConfigBuilder_with_duration by assumption. reflexivity.
  - rewrite C02_ActChgConfigBuilder_with_threshold by assumption. reflexivity.
  - rewrite C02_WakeupIntConfigBuilder_with_threshold by assumption. reflexivity.
Qed.

(* non-vacuity: the hypotheses are met, e.g. by the reset values and the documented limits *)
Example c09_example : exists lo hi, FifoConfigBuilder_with_watermark_thresh (mk_FifoConfig 0 0 0 0) 2048 = mk_FifoConfig 0 lo hi 0 /\ lo + 256 * hi = 1024.
Proof. do 2 eexists. split; vm_compute; reflexivity. Qed.
