(* C19 — FIFO reads are refused exactly while the read circuit is powered down. *)
Require Import BMA.lib.Base BMA.lib.Reflect BMA.gen.GenTypes BMA.gen.GenPure BMA.lib.Prog BMA.gen.GenProg BMA.gen.GenMeta
               BMA.lib.Encode BMA.gen.GenApi BMA.lib.Run BMA.lib.Driver BMA.proofs.Generic BMA.proofs.Rules BMA.proofs.Coherent BMA.spec.Datasheet.
Require Import BMA.props.C16.
From Coq Require Import Lia.
Open Scope N_scope.

(* the guard is bit 0 of the shadow FIFO_PWR_CONFIG *)
Theorem c19_guard_is_bit0 : forall d, get_fifo_config_fifo_pwr_config d < 256 ->
  Config_is_fifo_read_disabled d = N.testbit (get_fifo_config_fifo_pwr_config d) 0.
Proof.
  intros d H. unfold Config_is_fifo_read_disabled, FifoConfig_is_read_disabled.
  change (FifoConfig_fifo_pwr_config (Config_fifo_config d)) with (get_fifo_config_fifo_pwr_config d).
  set (b := get_fifo_config_fifo_pwr_config d) in *. clearbody b. revert b H. refine (u8_eq _ _ _). vm_compute. reflexivity.
Qed.

(* for every reachable world (C16: belief = device, under any faults): refused, with no bus traffic, iff bit 0 of the DEVICE register
   0x29 is set; otherwise the call is ONE burst read of exactly the buffer length from 0x14.  Stated on the runs themselves, whatever
   shape the guard has in the generated body *)
Theorem c19_refused_iff_device_flag : forall w buffer, Coh w -> regs (wchip w) 41 < 256 ->
  (N.testbit (regs (wchip w) 41) 0 = true ->
     run T_reg (BMA400_read_fifo_frames buffer) w = Failed (BMA400Error_ConfigBuildError ConfigError_FifoReadWhilePwrDisable) w)
  /\ (N.testbit (regs (wchip w) 41) 0 = false ->
     run T_reg (BMA400_read_fifo_frames buffer) w = run T_reg (Read 20 (len buffer) (fun served => Ret (FifoFrames_new served))) w).
Proof.
  intros w buffer H Hb. pose proof (c19_flag_is_device w H) as E.
  pose proof (c19_guard_is_bit0 (shadow w)) as G. rewrite E in G. specialize (G Hb).
  unfold BMA400_read_fifo_frames. cbv beta zeta. cbn [bind get_shadow run]. rewrite G.
  split; intro T; rewrite T; cbn [negb bind read_register run]; reflexivity.
Qed.

(* the command codes *)
Theorem c19_commands :
  BMA400_flush_fifo = Write ds_Command_addr ds_cmd_FlushFifo (Ret tt)
  /\ BMA400_clear_step_count = Write ds_Command_addr ds_cmd_ClearStepCount (Ret tt)
  /\ BMA400_soft_reset = Write ds_Command_addr ds_cmd_SoftReset (Put Config_default (Read ds_Event_addr 1 (fun _ => Ret tt))).
Proof. repeat split; reflexivity. Qed.

(* a soft reset re-enables reading: the reset shadow has the flag clear *)
Theorem c19_reset_reenables : Config_is_fifo_read_disabled Config_default = false.
Proof. vm_compute. reflexivity. Qed.
