(* C06 — no interrupt is ever left enabled at an output data rate it cannot use.
   The rule table is the datasheet's (spec/Datasheet.v, ds_odr_rules): tap (single/double) needs the ODR field = 200 Hz; generic 1,
   generic 2 and activity change on the filter-1 source need 100 Hz.  `ov d` evaluates it on the shadow, `OdrValid c` on the device.

   (a) invariant: every API operation keeps `ov` of the shadow at EVERY point at which the call can end — normal return, rejection,
       panic, and before every bus transaction (where a transport failure cuts the call short) — for every transport and every
       fault plan (c06_every_exit).  Per builder body and for the self-test this is the generated / path-sensitive `wpx` proof
       (spec/OdrThms.v, keeps_self_test); every other operation by a syntax-directed traversal of its generated body.
   (b) with C16 (belief = device at every exit, props/C16.v) the DEVICE satisfies the rules after every call of every history
       of API calls under every fault plan, starting from a freshly constructed driver (c06_device_history; over I2C at HAL
       level: c06_device_history_i2c).
   (c) decision: the builders that can change a register of the rule table (accelerometer, interrupts, generic 1/2, activity change)
       accept a request exactly when the requested state satisfies the rules; a rejection leaves the shadow unchanged, sends nothing
       and carries the error kind whose rules are violated (spec/OdrDecide.v: decide_<Builder>; c06_reject_iff_* below);
       the other builders never reject (spec/OdrThms.v: their failure postcondition is False). *)
Require Import BMA.lib.Base BMA.lib.Reflect BMA.gen.GenTypes BMA.gen.GenPure BMA.lib.Prog BMA.gen.GenProg BMA.gen.GenMeta
               BMA.lib.Encode BMA.gen.GenApi BMA.gen.GenLens BMA.lib.Run BMA.lib.Driver BMA.proofs.Generic BMA.proofs.Rules BMA.proofs.Coherent
               BMA.proofs.Symex BMA.proofs.BuilderSpec BMA.proofs.Builders BMA.proofs.BuilderCor BMA.proofs.OdrInv BMA.proofs.OdrOps
               BMA.spec.Datasheet BMA.spec.OdrThms BMA.spec.OdrDecide.
Require Import BMA.props.C16.
From Coq Require Import Lia.
Open Scope N_scope.

(* ---- the self-test: interrupts are disabled before the ODR is touched and restored after it ---- *)
Theorem keeps_self_test : keeps BMA400_perform_self_test.
Proof.
  intros d H0. wx_start d H0. cbv delta [BMA400_perform_self_test]; cbv beta.
  timeout 600 wx. all: timeout 600 wx_exit.
Qed.

(* ---- every other operation: traversal of the generated body ---- *)
Ltac keeps_step :=
  lazymatch goal with
  | |- keeps (Ret _) => apply keeps_ret
  | |- keeps (Fail _) => apply keeps_fail
  | |- keeps PanicP => apply keeps_panic
  | |- keeps FuelP => apply keeps_fuel
  | |- keeps BMA400_perform_self_test => apply keeps_self_test
  | |- keeps (bind _ _) => apply keeps_bind; [ | intro ]
  | |- keeps (write_register _ _) => apply keeps_write
  | |- keeps (read_register _ _) => apply keeps_read
  | |- keeps (delay_ms _) => apply keeps_delay
  | |- keeps get_shadow => apply keeps_get
  | |- keeps (put_shadow _) => apply keeps_put; vm_compute; reflexivity
  | |- keeps (modify _) => apply keeps_modify; let d := fresh "d" in intro d; destruct_config d; reflexivity
  | |- keeps (lift_res _) => apply keeps_lift
  | |- keeps (let x := ?e in @?f x) => refine (keeps_let _ _ e f _); intro
  | |- keeps (if ?b then _ else _) => destruct b
  | |- keeps (match ?x with _ => _ end) => destruct x
  | |- keeps (?h _ _ _) => first [ solve [auto with keepsdb] | unfold h ]
  | |- keeps (?h _ _) => first [ solve [auto with keepsdb] | unfold h ]
  | |- keeps (?h _) => first [ solve [auto with keepsdb] | unfold h ]
  | |- keeps ?h => unfold h
  end.
Ltac keeps_all := repeat keeps_step.

Theorem step_keeps : forall op, api_only op = true -> keeps (step op).
Proof. intros op H. destruct op; try discriminate H; clear H; unfold step; keeps_all. Qed.

(* (a) at every exit, for every transport and fault plan *)
Theorem c06_every_exit : forall T op fl w, api_only op = true -> ov (shadow w) = true ->
  ov (shadow (world_of (run T (step op) (begin_call fl w)))) = true.
Proof.
  intros T op fl w Hop H.
  apply (wpx_run _ T (step op) (begin_call fl w) (fun _ d' => ov d' = true) (fun _ d' => ov d' = true)); auto.
  apply (step_keeps op Hop). exact H.
Qed.

(* (b) on the device *)
Lemma coherent_ov : forall d c, coherent d c -> ov_f (regs c) = ov d.
Proof.
  intros d c H. unfold ov. apply ov_f_ext. intros a Ha. symmetry. apply (shv_coherent d c a H).
  rewrite dump_addrs_fixed. cbn [In] in Ha. repeat (destruct Ha as [Ha|Ha]; [subst a; vm_compute; auto 60|]). destruct Ha.
Qed.

Definition Good (w : world) : Prop := Coh w /\ ov (shadow w) = true.

Theorem c06_every_call : forall op fl w, api_only op = true -> Good w -> Good (call w (op, fl)).
Proof.
  intros op fl w Hop [Hc Ho]. split; [apply c16_every_call; assumption|].
  unfold call. cbn [fst snd]. apply c06_every_exit; assumption.
Qed.

Theorem c06_every_history : forall cs w, forallb (fun c => api_only (fst c)) cs = true -> Good w -> Good (history w cs).
Proof.
  induction cs as [|c cs IH]; intros w Hc H; [exact H|].
  cbn [forallb] in Hc. apply andb_prop in Hc. destruct Hc as [H1 H2]. cbn [history fold_left].
  apply IH; [exact H2|]. destruct c as [op fl]. apply c06_every_call; assumption.
Qed.

Theorem c06_initial : forall s dev, Good (init_world dev s).
Proof. intros s dev. split; [apply c16_initial | vm_compute; reflexivity]. Qed.

Theorem c06_device_history : forall cs s dev, forallb (fun c => api_only (fst c)) cs = true ->
  OdrValid (wchip (history (init_world dev s) cs)).
Proof.
  intros cs s dev H. destruct (c06_every_history cs (init_world dev s) H (c06_initial s dev)) as [Hc Ho].
  unfold OdrValid. rewrite (coherent_ov _ _ Hc). exact Ho.
Qed.

(* the same over I2C at HAL level (props/C16.v: c16_i2c_*; the shadow part holds for every transport) *)
Theorem c06_device_history_i2c : forall cs s dev, forallb (fun c => api_only (fst c)) cs = true ->
  OdrValid (wchip (history_i2c dev (init_world dev s) cs)).
Proof.
  intros cs s dev H.
  assert (G : forall cs w, forallb (fun c => api_only (fst c)) cs = true -> CohI dev w /\ ov (shadow w) = true ->
              CohI dev (history_i2c dev w cs) /\ ov (shadow (history_i2c dev w cs)) = true).
  { induction cs0 as [|c cs0 IH]; intros w Hc Hw; [exact Hw|].
    cbn [forallb] in Hc. apply andb_prop in Hc. destruct Hc as [H1 H2]. cbn [history_i2c fold_left].
    apply IH; [exact H2|]. destruct c as [op fl]. destruct Hw as [Hi Ho]. split; [apply c16_i2c_every_call; assumption|].
    unfold call_i2c. cbn [fst snd]. apply c06_every_exit; assumption. }
  destruct (G cs (init_world dev s) H (conj (c16_i2c_initial s dev) (proj2 (c06_initial s dev)))) as [[Hc _] Ho].
  unfold OdrValid. rewrite (coherent_ov _ _ Hc). exact Ho.
Qed.

(* (c) the decision, read as the property states it: rejected exactly when the requested state would break a rule *)
Theorem c06_reject_iff_accel : forall d r0 r1 r2 j, wfb d = true -> r0 < 256 -> r1 < 256 -> r2 < 256 -> ov d = true ->
  let req := mk_AccConfig r0 r1 r2 in
  (exists e d' g' j', semx (AccConfigBuilder_write req) d (ghost_of d) j = XFailed e d' g' j')
  <-> ov (set_Config_acc_config req d) = false.
Proof.
  intros d r0 r1 r2 j Hwf R0 R1 R2 Ho req. pose proof (decide_AccConfigBuilder d r0 r1 r2 j Hwf R0 R1 R2 Ho) as D. fold req in D.
  destruct (semx (AccConfigBuilder_write req) d (ghost_of d) j) as [a d1 g1 j1|e d1 g1 j1|]; [ | | contradiction].
  - destruct D as [_ D]. split; [intros [e [d' [g' [j' E]]]]; discriminate | intro F; congruence].
  - destruct D as [_ [_ [D _]]]. split; [intros _; exact D | intros _; eauto].
Qed.

Theorem c06_reject_iff_interrupts : forall d r0 r1 j, wfb d = true -> r0 < 256 -> r1 < 256 -> ov d = true ->
  let req := mk_IntConfig r0 r1 in
  (exists e d' g' j', semx (IntConfigBuilder_write req) d (ghost_of d) j = XFailed e d' g' j')
  <-> ov (set_Config_int_config req d) = false.
Proof.
  intros d r0 r1 j Hwf R0 R1 Ho req. pose proof (decide_IntConfigBuilder d r0 r1 j Hwf R0 R1 Ho) as D. fold req in D.
  destruct (semx (IntConfigBuilder_write req) d (ghost_of d) j) as [a d1 g1 j1|e d1 g1 j1|]; [ | | contradiction].
  - destruct D as [_ D]. split; [intros [e [d' [g' [j' E]]]]; discriminate | intro F; congruence].
  - destruct D as [_ [_ [D _]]]. split; [intros _; exact D | intros _; eauto].
Qed.

Theorem c06_reject_iff_gen1 : forall d r0 r1 r2 r3 r4 r5 r6 r7 r8 r9 r10 j, wfb d = true ->
  r0 < 256 -> r1 < 256 -> r2 < 256 -> r3 < 256 -> r4 < 256 -> r5 < 256 -> r6 < 256 -> r7 < 256 -> r8 < 256 -> r9 < 256 -> r10 < 256 -> ov d = true ->
  let req := mk_Gen1IntConfig r0 r1 r2 r3 r4 r5 r6 r7 r8 r9 r10 in
  (exists e d' g' j', semx (GenIntConfigBuilder_write (GenIntConfig_Gen1Int req)) d (ghost_of d) j = XFailed e d' g' j')
  <-> ov (set_Config_gen1int_config req d) = false.
Proof.
  intros d r0 r1 r2 r3 r4 r5 r6 r7 r8 r9 r10 j Hwf R0 R1 R2 R3 R4 R5 R6 R7 R8 R9 R10 Ho req.
  pose proof (decide_GenIntConfigBuilder_Gen1Int d r0 r1 r2 r3 r4 r5 r6 r7 r8 r9 r10 j Hwf R0 R1 R2 R3 R4 R5 R6 R7 R8 R9 R10 Ho) as D. fold req in D.
  destruct (semx (GenIntConfigBuilder_write (GenIntConfig_Gen1Int req)) d (ghost_of d) j) as [a d1 g1 j1|e d1 g1 j1|]; [ | | contradiction].
  - destruct D as [_ D]. split; [intros [e [d' [g' [j' E]]]]; discriminate | intro F; congruence].
  - destruct D as [_ [_ [D _]]]. split; [intros _; exact D | intros _; eauto].
Qed.

Theorem c06_reject_iff_gen2 : forall d r0 r1 r2 r3 r4 r5 r6 r7 r8 r9 r10 j, wfb d = true ->
  r0 < 256 -> r1 < 256 -> r2 < 256 -> r3 < 256 -> r4 < 256 -> r5 < 256 -> r6 < 256 -> r7 < 256 -> r8 < 256 -> r9 < 256 -> r10 < 256 -> ov d = true ->
  let req := mk_Gen2IntConfig r0 r1 r2 r3 r4 r5 r6 r7 r8 r9 r10 in
  (exists e d' g' j', semx (GenIntConfigBuilder_write (GenIntConfig_Gen2Int req)) d (ghost_of d) j = XFailed e d' g' j')
  <-> ov (set_Config_gen2int_config req d) = false.
Proof.
  intros d r0 r1 r2 r3 r4 r5 r6 r7 r8 r9 r10 j Hwf R0 R1 R2 R3 R4 R5 R6 R7 R8 R9 R10 Ho req.
  pose proof (decide_GenIntConfigBuilder_Gen2Int d r0 r1 r2 r3 r4 r5 r6 r7 r8 r9 r10 j Hwf R0 R1 R2 R3 R4 R5 R6 R7 R8 R9 R10 Ho) as D. fold req in D.
  destruct (semx (GenIntConfigBuilder_write (GenIntConfig_Gen2Int req)) d (ghost_of d) j) as [a d1 g1 j1|e d1 g1 j1|]; [ | | contradiction].
  - destruct D as [_ D]. split; [intros [e [d' [g' [j' E]]]]; discriminate | intro F; congruence].
  - destruct D as [_ [_ [D _]]]. split; [intros _; exact D | intros _; eauto].
Qed.

Theorem c06_reject_iff_actchg : forall d r0 r1 j, wfb d = true -> r0 < 256 -> r1 < 256 -> ov d = true ->
  let req := mk_ActChgConfig r0 r1 in
  (exists e d' g' j', semx (ActChgConfigBuilder_write req) d (ghost_of d) j = XFailed e d' g' j')
  <-> ov (set_Config_actchg_config req d) = false.
Proof.
  intros d r0 r1 j Hwf R0 R1 Ho req. pose proof (decide_ActChgConfigBuilder d r0 r1 j Hwf R0 R1 Ho) as D. fold req in D.
  destruct (semx (ActChgConfigBuilder_write req) d (ghost_of d) j) as [a d1 g1 j1|e d1 g1 j1|]; [ | | contradiction].
  - destruct D as [_ D]. split; [intros [e [d' [g' [j' E]]]]; discriminate | intro F; congruence].
  - destruct D as [_ [_ [D _]]]. split; [intros _; exact D | intros _; eauto].
Qed.

(* the premises are satisfiable and both outcomes occur: from the power-on state (200 Hz) enabling generic interrupt 1
   (filter-1 source by default) is rejected with the filter-1 error and nothing is sent; after moving to 100 Hz it is accepted *)
Example c06_rejects : exists d' g' j',
  semx (IntConfigBuilder_write (mk_IntConfig 4 0)) Config_default (ghost_of Config_default) [] =
    XFailed (BMA400Error_ConfigBuildError ConfigError_Filt1InterruptInvalidODR) d' g' j' /\ d' = Config_default /\ j' = [].
Proof. eexists. eexists. eexists. vm_compute. repeat split. Qed.
Example c06_accepts :
  let d100 := set_Config_acc_config (mk_AccConfig 0 72 0) Config_default in
  ov d100 = true /\ wfb d100 = true /\
  match semx (IntConfigBuilder_write (mk_IntConfig 4 0)) d100 (ghost_of d100) [] with XDone _ d' _ j' => ov d' = true /\ length j' = 1%nat | _ => False end.
Proof. vm_compute. repeat split. Qed.
