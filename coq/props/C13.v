(* C13 — SPI accesses are chip-select bracketed and follow the BMA400 SPI protocol.
   For every API operation and both SPI constructors, from every quiet bus (chip-select high, decoder
   idle): the raw journal over T_spi is the concatenation of one window per register event,
   [CsLow; write [addr, value]; CsHigh] or [CsLow; transfer [addr|0x80, dummy]; transfer n bytes; CsHigh];
   the call ends with chip-select high and the chip's decoder idle, and no byte was clocked while
   chip-select was high (`stray` unchanged). *)
Require Import BMA.lib.Base BMA.lib.Reflect BMA.gen.GenTypes BMA.gen.GenPure BMA.lib.Prog BMA.gen.GenProg BMA.gen.GenMeta
               BMA.lib.Encode BMA.gen.GenApi BMA.lib.Run BMA.lib.Driver BMA.proofs.Generic BMA.proofs.Rules BMA.proofs.Transport.
Open Scope N_scope.

Theorem c13_windows : forall a v n,
  frame_spi (EvWrite a v) = [HSetLow; HSpiWrite [a; v]; HSetHigh]
  /\ frame_spi (EvRead a n) = [HSetLow; HSpiTransfer [N.lor a 128; 0]; HSpiTransfer (repeatN 0 n); HSetHigh]
  /\ len (repeatN 0 n) = n.
Proof. intros. repeat split; try reflexivity. apply len_repeatN. Qed.

(* written addresses have bit 7 clear: every event address of every operation is below 128 *)
Theorem c13_addresses_7bit : forall op, api_only op = true -> forall d c, Forall addr_ok (a_events (sem (step op) d c [])).
Proof. intros op H d c. apply (step_evsafe op H). constructor. Qed.

Theorem c13_every_operation : forall op w, api_only op = true -> quiet (hst w) ->
  let o := sem (step op) (shadow w) (hchip (hst w)) [] in
  let w' := world_of (run T_spi (step op) w) in
  raw (hst w') = raw (hst w) ++ flat_map frame_spi (a_events o)
  /\ cs_low (hst w') = false /\ win (hst w') = WIdle /\ stray (hst w') = stray (hst w)
  /\ same_result o (run T_spi (step op) w).
Proof.
  intros op w Hop Q o w'.
  destruct (run_quiet _ _ _ _ faithful_spi (step op) w Q I (step_evsafe op Hop)) as [[_ [_ [_ [R [_ [[_ [Q2 Q3]] [_ St]]]]]]] Sr].
  repeat split; assumption.
Qed.

Theorem c13_constructors : forall c w, quiet (hst w) ->
  let o := sem (ctor_prog c) (shadow w) (hchip (hst w)) [] in
  let w' := world_of (run T_spi (ctor_prog c) w) in
  raw (hst w') = raw (hst w) ++ flat_map frame_spi (a_events o) /\ cs_low (hst w') = false /\ stray (hst w') = stray (hst w)
  /\ a_events o = match c with C_i2c => [EvRead 0 1] | C_spi => [EvRead 0 1; EvRead 0 1] | C_spi3 => [EvRead 0 1; EvRead 0 1; EvWrite 124 1] end.
Proof.
  intros c w Q o w'.
  destruct (run_quiet _ _ _ _ faithful_spi (ctor_prog c) w Q I (ctor_evsafe c)) as [[_ [_ [_ [R [_ [[_ [Q2 _]] [_ St]]]]]]] _].
  repeat split; try assumption.
  unfold o. destruct c; unfold ctor_prog, check_id; cbn [bind read_register write_register sem]; destruct (N.eqb _ 144); reflexivity.
Qed.
