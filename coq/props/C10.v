(* C10 — self-test follows the datasheet procedure, judges correctly, restores the configuration.
   (shape)   perform_self_test is, by conversion, exactly: save the shadow; set-up; delay 2; 0x7D <- 0x07; delay 50;
             one 6-byte read from 0x04; 0x7D <- 0x0F; delay 50; one 6-byte read from 0x04; differences; 0x7D <- 0x00;
             delay 50; clean-up from the saved shadow; verdict.  Hence for every world, transport and fault plan the
             excitation writes are 0x07, 0x0F, 0x00 in this order, each data read follows its excitation write after
             a 50 ms delay request with no other bus traffic in between, and nothing else touches 0x7D.
   (set-up)  from every shadow: INT_CONFIG0 <- 0, INT_CONFIG1 <- 0, AUTOWAKEUP_1 with the wake-up interrupt bit
             cleared, FIFO_CONFIG0 with the three axis bits cleared, ACC_CONFIG0 with power mode normal and its other
             bits unchanged, ACC_CONFIG1 <- 0x78 (4 g, OSR3, 100 Hz); the interrupts are switched off BEFORE the ODR
             changes (C06 during the procedure); six mirrored writes, nothing else.
   (clean-up) writes the saved values of exactly those six registers back (ODR before the enables) and the shadow's
             six registers equal the saved ones again.
   (verdict) for all twelve response bytes: no i16 overflow in the differences; Ok iff dx > 1500, dy > 1200, dz > 250.
   (restore) end to end: whenever the procedure runs to its verdict (Ok or SelfTestFailedError) over the register-level
             transport, under any fault plan that lets it get there, the shadow afterwards IS the shadow before, and (C16)
             every shadowed register of the device holds the value it held before (c10_restores).
   Coherence of the shadow with the device through the whole procedure, including aborted runs, is C16; the ODR rules
   through the whole procedure are C06. *)
Require Import BMA.lib.Base BMA.lib.Reflect BMA.gen.GenTypes BMA.gen.GenPure BMA.lib.Prog BMA.gen.GenProg BMA.gen.GenMeta
               BMA.lib.Encode BMA.gen.GenApi BMA.gen.GenLens BMA.lib.Run BMA.lib.Driver BMA.proofs.Generic BMA.proofs.Rules BMA.proofs.Coherent
               BMA.proofs.Symex BMA.proofs.BuilderSpec BMA.proofs.Builders BMA.proofs.OdrInv BMA.proofs.OdrOps BMA.spec.Datasheet.
Require Import BMA.props.C03.
From Coq Require Import Lia.
Open Scope N_scope.

(* ---- shape ---- *)
Definition after_reads (saved : Config) (pos neg : Measurement) : prog unit :=
  x <- lift_res (isub_chk 16 (Measurement_x pos) (Measurement_x neg)) ;;
  y <- lift_res (isub_chk 16 (Measurement_y pos) (Measurement_y neg)) ;;
  z <- lift_res (isub_chk 16 (Measurement_z pos) (Measurement_z neg)) ;;
  Write ds_SelfTest_addr 0 (Delay 50 (Get (fun _ =>
    _ <- Config_cleanup_self_test saved ;;
    if (Z.ltb 1500 x && Z.ltb 1200 y && Z.ltb 250 z)%bool then Ret tt else Fail BMA400Error_SelfTestFailedError))).

Theorem c10_shape :
  BMA400_perform_self_test =
  Get (fun saved => Get (fun _ =>
    _ <- Config_setup_self_test ;;
    Delay 2 (Write ds_SelfTest_addr 7 (Delay 50 (
    pos <- BMA400_get_unscaled_data ;;
    Write ds_SelfTest_addr 15 (Delay 50 (
    neg <- BMA400_get_unscaled_data ;;
    after_reads saved pos neg))))))).
Proof. reflexivity. Qed.

(* ---- verdict arithmetic on the decoded samples ---- *)
Theorem c10_no_overflow : forall a b, (-2048 <= a <= 2047)%Z -> (-2048 <= b <= 2047)%Z -> isub_chk 16 a b = Ok (a - b)%Z.
Proof.
  intros a b Ha Hb. unfold isub_chk, in_signed.
  assert (P : Z.of_N (pow2 (16 - 1)) = 32768%Z) by reflexivity. rewrite P.
  destruct ((- (32768) <=? a - b)%Z && (a - b <? 32768)%Z)%bool eqn:E; [reflexivity|].
  exfalso. apply andb_false_iff in E. destruct E as [E|E]; [apply Z.leb_gt in E | apply Z.ltb_ge in E]; lia.
Qed.

(* ---- set-up and clean-up: symbolic execution of the generated bodies ---- *)
Definition six (d : Config) : list N := [shv d 31; shv d 32; shv d 45; shv d 38; shv d 25; shv d 26].

Theorem c10_setup : forall d g j, wfb d = true ->
  postx Config_setup_self_test d g j
    (fun _ d' _ j' =>
       exists nj, j' = j ++ nj /\ map jw_addr nj = [31; 32; 45; 38; 25; 26]
       /\ map jw_val nj = six d'
       /\ shv d' 31 = 0 /\ shv d' 32 = 0
       /\ N.land (shv d' 45) 2 = 0 /\ N.ldiff (shv d' 45) 2 = N.ldiff (shv d 45) 2
       /\ N.land (shv d' 38) 224 = 0 /\ N.ldiff (shv d' 38) 224 = N.ldiff (shv d 38) 224
       /\ N.land (shv d' 25) 3 = 2 /\ N.ldiff (shv d' 25) 3 = N.ldiff (shv d 25) 3
       /\ shv d' 26 = 120)
    (fun _ _ _ _ => False).
Proof.
  intros d g j Hwf. destruct_cfg d. wf_facts Hwf. destruct g as [g0 g1 g2].
  cbv delta [Config_setup_self_test]; cbv beta. timeout 300 (sx; subst_eqs; cbn).
  eexists. rewrite <- !app_assoc. split; [reflexivity|]. cbn [map jw_addr jw_val app]. eval_shv.
  repeat split; try reflexivity; try (clear_unused; finite_reflect).
Qed.

Theorem c10_cleanup : forall saved d g j,
  postx (Config_cleanup_self_test saved) d g j
    (fun _ d' _ j' =>
       exists nj, j' = j ++ nj /\ map jw_addr nj = [25; 26; 31; 32; 45; 38]
       /\ map jw_val nj = [shv saved 25; shv saved 26; shv saved 31; shv saved 32; shv saved 45; shv saved 38]
       /\ six d' = six saved)
    (fun _ _ _ _ => False).
Proof.
  intros saved d g j. destruct_cfg d. destruct g as [g0 g1 g2].
  cbv delta [Config_cleanup_self_test]; cbv beta. timeout 300 (sx; cbn).
  eexists. rewrite <- !app_assoc. split; [reflexivity|]. cbn [map jw_addr jw_val app].
  destruct saved as [[a0 a1 a2] [i0 i1] [p0 p1 p2 p3] [f0 f1 f2 f3] [l0 l1] [w0 w1] [k0 k1 k2 k3 k4] [o0 o1 o3 o4 o5 o6 o7 o8 o9]
                      [x0 x1 x2 x3 x31 x4 x5 x6 x7 x8 x9] [y0 y1 y2 y3 y31 y4 y5 y6 y7 y8 y9] [c0 c1] [t0 t1]].
  unfold six. eval_shv. cbn. repeat split; try reflexivity.
Qed.

(* the verdict on the decoded samples of C03: no overflow, Ok exactly when the three differences exceed the thresholds *)
Theorem c10_verdict : forall saved px py pz nx ny nz,
  (-2048 <= px <= 2047)%Z -> (-2048 <= py <= 2047)%Z -> (-2048 <= pz <= 2047)%Z ->
  (-2048 <= nx <= 2047)%Z -> (-2048 <= ny <= 2047)%Z -> (-2048 <= nz <= 2047)%Z ->
  after_reads saved (mk_Measurement px py pz) (mk_Measurement nx ny nz) =
  Write ds_SelfTest_addr 0 (Delay 50 (Get (fun _ =>
    _ <- Config_cleanup_self_test saved ;;
    if (Z.ltb 1500 (px - nx) && Z.ltb 1200 (py - ny) && Z.ltb 250 (pz - nz))%bool then Ret tt else Fail BMA400Error_SelfTestFailedError))).
Proof.
  intros saved px py pz nx ny nz H1 H2 H3 H4 H5 H6. unfold after_reads. cbn [Measurement_x Measurement_y Measurement_z].
  rewrite !c10_no_overflow by assumption. reflexivity.
Qed.

(* ---- end to end: the configuration is restored ---- *)
Theorem c10_restores_shadow : forall d, ov d = true ->
  wpx BMA400_perform_self_test d (fun _ d' => d' = d) (fun _ d' => d' = d).
Proof.
  intros d H0. wx_start d H0. cbv delta [BMA400_perform_self_test]; cbv beta.
  timeout 300 wx. all: timeout 60 (subst_eqs; unfold_cfg_fns; cbv_records; reflexivity).
Qed.

Lemma self_test_preserves : preserves BMA400_perform_self_test.
Proof. unfold BMA400_perform_self_test. pres_all. Qed.

Theorem c10_restores : forall fl w, Coh w -> ov (shadow w) = true ->
  match run T_reg BMA400_perform_self_test (begin_call fl w) with
  | Done _ w' => shadow w' = shadow w /\ forall a v, In (a, v) (Config_dump (shadow w)) -> regs (wchip w') a = regs (wchip w) a
  | Failed BMA400Error_SelfTestFailedError w' =>
      shadow w' = shadow w /\ forall a v, In (a, v) (Config_dump (shadow w)) -> regs (wchip w') a = regs (wchip w) a
  | _ => True
  end.
Proof.
  intros fl w Hc Ho.
  assert (Hc0 : Coh (begin_call fl w)) by (unfold Coh, wchip, begin_call in *; cbn [shadow hst hchip]; exact Hc).
  pose proof (self_test_preserves (begin_call fl w) Hc0) as P.
  pose proof (wpx_run_reg _ BMA400_perform_self_test (begin_call fl w) _ _ (c10_restores_shadow (shadow w) Ho)) as R.
  destruct (run T_reg BMA400_perform_self_test (begin_call fl w)) as [a w'|e w'|w'|w']; cbn [world_of] in P; try exact I.
  - cbn [begin_call shadow] in R. split; [exact R|]. intros a0 v Hin. rewrite (Hc a0 v Hin). apply P. rewrite R. exact Hin.
  - destruct e; try exact I. destruct R as [R|R]; [destruct R|]. cbn [begin_call shadow] in R.
    split; [exact R|]. intros a0 v Hin. rewrite (Hc a0 v Hin). apply P. rewrite R. exact Hin.
Qed.

Example c10_example : isub_chk 16 2047 (-2048) = Ok 4095%Z.
Proof. reflexivity. Qed.
