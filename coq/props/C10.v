(* C10 — self-test follows the datasheet procedure, judges correctly, restores the configuration.
   (run)     c10_run: on the register-level semantics, for every shadow made of bytes, every chip and every pair of recorded responses
             the chip serves under positive / negative excitation, the call performs EXACTLY the events `st_events d` in that order -
             interrupts off, auto-wake-up interrupt off, FIFO axis capture off, normal mode with the other bits kept, ACC_CONFIG1 <- 0x78
             (4 g, OSR3, 100 Hz), delay 2, 0x7D <- 0x07, delay 50, one 6-byte read at 0x04, 0x7D <- 0x0F, delay 50, one 6-byte read,
             0x7D <- 0x00, delay 50, the six saved values written back (accelerometer configuration before the enables) - returns Ok
             exactly when the differences of the decoded 12-bit samples exceed 1500 / 1200 / 250 and SelfTestFailedError otherwise, and
             leaves the shadow as it was.  The proof evaluates `sem` through the generated body by rewriting (bind, write, delay, read
             of the data registers by C03, no-overflow of the differences), whatever order the body's pure computations are in.
   (restore) end to end under any fault plan that lets the call reach its verdict: the shadow afterwards IS the shadow before, and (C16)
             every shadowed register of the device holds the value it held before (c10_restores).
   Coherence of the shadow with the device through the whole procedure, including aborted runs, is C16; the ODR rules through the whole
   procedure are C06. *)
Require Import BMA.lib.Base BMA.lib.Reflect BMA.gen.GenTypes BMA.gen.GenPure BMA.lib.Prog BMA.gen.GenProg BMA.gen.GenMeta
               BMA.lib.Encode BMA.gen.GenApi BMA.gen.GenLens BMA.lib.Run BMA.lib.Driver BMA.proofs.Generic BMA.proofs.Rules BMA.proofs.Coherent
               BMA.proofs.Symex BMA.proofs.BuilderSpec BMA.proofs.Builders BMA.proofs.OdrInv BMA.proofs.OdrOps BMA.spec.Datasheet.
Require Import BMA.props.C03.
From Coq Require Import Lia.
Open Scope N_scope.

(* ---- verdict arithmetic on the decoded samples ---- *)
Theorem c10_no_overflow : forall a b, (-2048 <= a <= 2047)%Z -> (-2048 <= b <= 2047)%Z -> isub_chk 16 a b = Ok (a - b)%Z.
Proof.
  intros a b Ha Hb. unfold isub_chk, in_signed.
  assert (P : Z.of_N (pow2 (16 - 1)) = 32768%Z) by reflexivity. rewrite P.
  destruct ((- (32768) <=? a - b)%Z && (a - b <? 32768)%Z)%bool eqn:E; [reflexivity|].
  exfalso. apply andb_false_iff in E. destruct E as [E|E]; [apply Z.leb_gt in E | apply Z.ltb_ge in E]; lia.
Qed.

(* ---- the whole procedure on the register-level semantics ---- *)
Lemma sem_write : forall a v d c evs, sem (write_register a v) d c evs = ADone tt d (chip_write a v c) (evs ++ [EvWrite a v]). Proof. reflexivity. Qed.
Lemma sem_delay : forall ms d c evs, sem (delay_ms ms) d c evs = ADone tt d c (evs ++ [EvDelay ms]). Proof. reflexivity. Qed.
Lemma sem_get : forall d c evs, sem get_shadow d c evs = ADone d d c evs. Proof. reflexivity. Qed.
Lemma sem_modify : forall f d c evs, sem (modify f) d c evs = ADone tt (f d) c evs. Proof. reflexivity. Qed.
Lemma sem_lift_ok : forall A (a : A) d c evs, sem (lift_res (Ok a)) d c evs = ADone a d c evs. Proof. reflexivity. Qed.
Lemma sem_ret : forall A (a : A) d c evs, sem (Ret a) d c evs = ADone a d c evs. Proof. reflexivity. Qed.
Lemma sem_fail : forall A e d c evs, @sem A (Fail e) d c evs = AFailed e d c evs. Proof. reflexivity. Qed.

(* what the chip serves while the excitation register holds 0x07 / 0x0F *)
Lemma read_pos : forall c p0 p1 p2 p3 p4 p5, regs c 125 = 7 -> st_pos c = [p0; p1; p2; p3; p4; p5] ->
  chip_read ds_AccXLSB_addr 6 c = ([p0; p1; p2; p3; p4; p5], c).
Proof. intros c p0 p1 p2 p3 p4 p5 H S. unfold chip_read, ds_AccXLSB_addr. cbn [N.eqb Pos.eqb]. change (N.eqb 4 20) with false. cbv iota.
  unfold read_seq. change (N.to_nat 6) with 6%nat. cbv beta iota. unfold reg_out. rewrite H, S. vm_compute. reflexivity. Qed.
Lemma read_neg : forall c p0 p1 p2 p3 p4 p5, regs c 125 = 15 -> st_neg c = [p0; p1; p2; p3; p4; p5] ->
  chip_read ds_AccXLSB_addr 6 c = ([p0; p1; p2; p3; p4; p5], c).
Proof. intros c p0 p1 p2 p3 p4 p5 H S. unfold chip_read, ds_AccXLSB_addr. change (N.eqb 4 20) with false. cbv iota.
  unfold read_seq. change (N.to_nat 6) with 6%nat. cbv beta iota. unfold reg_out. rewrite H, S. vm_compute. reflexivity. Qed.

Lemma sext12_range : forall l m, l < 256 -> m < 256 -> (-2048 <= sext12 l m <= 2047)%Z.
Proof. intros l m H0 H1. pose proof (c03_sample_range l m H0 H1) as R. apply andb_prop in R. destruct R as [R1 R2]. apply Z.leb_le in R1. apply Z.leb_le in R2. lia. Qed.

(* one step of evaluating `sem` through a body, whatever the order of its statements *)
Ltac sev_step :=
  first
  [ rewrite sem_bind
  | rewrite sem_write | rewrite sem_delay | rewrite sem_get | rewrite sem_modify | rewrite sem_lift_ok | rewrite sem_ret | rewrite sem_fail
  | progress cbv beta iota zeta
  | progress (unfold_cfg_fns; cbv_records)
  | progress (unfold BMA400_perform_self_test, Config_setup_self_test, Config_cleanup_self_test) ].
(* the data read while the excitation register holds k: the chip serves the recorded response *)
Ltac read_step Sp Sn P0 P1 P2 P3 P4 P5 N0 N1 N2 N3 N4 N5 :=
  lazymatch goal with |- context [sem BMA400_get_unscaled_data ?d1 ?c1 ?e1] =>
    first
    [ let R := fresh "R" in
      assert (R : chip_read ds_AccXLSB_addr 6 c1 = (_, c1)) by (apply read_pos; [vm_compute; reflexivity | transitivity (st_pos c1); [reflexivity | etransitivity; [ | exact Sp]; vm_compute; reflexivity]]);
      erewrite (c03_unscaled d1 c1 e1) by (first [ rewrite R; reflexivity | assumption ]); rewrite R; cbn [snd]; clear R
    | let R := fresh "R" in
      assert (R : chip_read ds_AccXLSB_addr 6 c1 = (_, c1)) by (apply read_neg; [vm_compute; reflexivity | etransitivity; [ | exact Sn]; vm_compute; reflexivity]);
      erewrite (c03_unscaled d1 c1 e1) by (first [ rewrite R; reflexivity | assumption ]); rewrite R; cbn [snd]; clear R ]
  end.

(* ---- the whole procedure on the register-level semantics ---- *)
Definition apply_evs (c : chip) (l : list event) : chip :=
  fold_left (fun c e => match e with EvWrite a v => chip_write a v c | _ => c end) l c.
(* datasheet side: what the procedure sends, in order *)
Definition st_events (d : Config) : list event :=
  [ EvWrite 31 0; EvWrite 32 0;                         (* interrupts off *)
    EvWrite 45 (N.ldiff (shv d 45) 2);                   (* wake-up interrupt of the auto-wake-up block off *)
    EvWrite 38 (N.ldiff (shv d 38) 224);                 (* FIFO axis capture off *)
    EvWrite 25 (N.lor (N.ldiff (shv d 25) 3) 2);         (* normal mode, other bits kept *)
    EvWrite 26 120;                                      (* 4 g, OSR3, 100 Hz *)
    EvDelay 2;
    EvWrite 125 7; EvDelay 50; EvRead 4 6;               (* positive excitation on all axes, settle, one burst read *)
    EvWrite 125 15; EvDelay 50; EvRead 4 6;              (* negative excitation, settle, one burst read *)
    EvWrite 125 0; EvDelay 50;                           (* excitation off *)
    EvWrite 25 (shv d 25); EvWrite 26 (shv d 26);        (* restore: accelerometer configuration first *)
    EvWrite 31 (shv d 31); EvWrite 32 (shv d 32); EvWrite 45 (shv d 45); EvWrite 38 (shv d 38) ].
Definition st_pass (p0 p1 p2 p3 p4 p5 n0 n1 n2 n3 n4 n5 : N) : bool :=
  (Z.ltb 1500 (sext12 p0 p1 - sext12 n0 n1) && Z.ltb 1200 (sext12 p2 p3 - sext12 n2 n3) && Z.ltb 250 (sext12 p4 p5 - sext12 n4 n5))%bool.

Theorem c10_run : forall d c evs p0 p1 p2 p3 p4 p5 n0 n1 n2 n3 n4 n5, wfb d = true ->
  p0 < 256 -> p1 < 256 -> p2 < 256 -> p3 < 256 -> p4 < 256 -> p5 < 256 ->
  n0 < 256 -> n1 < 256 -> n2 < 256 -> n3 < 256 -> n4 < 256 -> n5 < 256 ->
  st_pos c = [p0; p1; p2; p3; p4; p5] -> st_neg c = [n0; n1; n2; n3; n4; n5] ->
  sem BMA400_perform_self_test d c evs =
    if st_pass p0 p1 p2 p3 p4 p5 n0 n1 n2 n3 n4 n5
    then ADone tt d (apply_evs c (st_events d)) (evs ++ st_events d)
    else AFailed BMA400Error_SelfTestFailedError d (apply_evs c (st_events d)) (evs ++ st_events d).
Proof.
  intros d c evs p0 p1 p2 p3 p4 p5 n0 n1 n2 n3 n4 n5 Hwf P0 P1 P2 P3 P4 P5 N0 N1 N2 N3 N4 N5 Sp Sn.
  destruct_cfg d. wf_facts Hwf.
  assert (V45 : AutoWakeup1_with_wakeup_int s_auto_wkup_config_auto_wakeup1 false = N.ldiff s_auto_wkup_config_auto_wakeup1 2) by (clear_unused; finite_reflect).
  assert (V38 : FifoConfig0_with_fifo_z (FifoConfig0_with_fifo_y (FifoConfig0_with_fifo_x s_fifo_config_fifo_config0 false) false) false
                = N.ldiff s_fifo_config_fifo_config0 224) by (clear_unused; finite_reflect).
  assert (V25 : AccConfig0_with_power_mode s_acc_config_acc_config0 PowerMode_Normal = N.lor (N.ldiff s_acc_config_acc_config0 3) 2) by (clear_unused; finite_reflect).
  timeout 600 (repeat first [ sev_step | read_step Sp Sn P0 P1 P2 P3 P4 P5 N0 N1 N2 N3 N4 N5
                            | rewrite c10_no_overflow by (apply sext12_range; assumption) ]).
  unfold st_pass.
  match goal with |- context [if ?b then Ret tt else _] => destruct b end; rewrite ?sem_ret, ?sem_fail;
    unfold st_events, apply_evs; eval_shv; cbn [fold_left]; rewrite ?V45, ?V38, ?V25; rewrite <- ?app_assoc; cbn [app]; timeout 120 reflexivity.
Qed.

(* every data read follows an excitation write after at least 50 ms of delay requests with no other bus traffic in between *)
Fixpoint settle_ok (l : list event) (since : option N) : bool :=
  match l with
  | [] => true
  | EvWrite a _ :: r => settle_ok r (if N.eqb a 125 then Some 0 else None)
  | EvDelay ms :: r => settle_ok r (match since with Some t => Some (t + ms) | None => None end)
  | EvRead _ _ :: r => match since with Some t => N.leb 50 t && settle_ok r None | None => false end
  end.
Theorem c10_settled : forall d, settle_ok (st_events d) None = true.
Proof. intro d. reflexivity. Qed.

(* ---- end to end: the configuration is restored ---- *)
Theorem c10_restores_shadow : forall d, ov d = true ->
  wpx BMA400_perform_self_test d (fun _ d' => d' = d) (fun _ d' => d' = d).
Proof.
  intros d H0. wx_start d H0. cbv delta [BMA400_perform_self_test]; cbv beta.
  timeout 300 wx. all: timeout 60 (subst_eqs; unfold_cfg_fns; cbv_records; reflexivity).
Qed.

Lemma self_test_preserves : preserves BMA400_perform_self_test.
Proof. unfold BMA400_perform_self_test. pres_all. Qed.

Theorem c10_restores : forall fl w, Coh w -> ov (shadow w) = true ->
  match run T_reg BMA400_perform_self_test (begin_call fl w) with
  | Done _ w' => shadow w' = shadow w /\ forall a v, In (a, v) (Config_dump (shadow w)) -> regs (wchip w') a = regs (wchip w) a
  | Failed BMA400Error_SelfTestFailedError w' =>
      shadow w' = shadow w /\ forall a v, In (a, v) (Config_dump (shadow w)) -> regs (wchip w') a = regs (wchip w) a
  | _ => True
  end.
Proof.
  intros fl w Hc Ho.
  assert (Hc0 : Coh (begin_call fl w)) by (unfold Coh, wchip, begin_call in *; cbn [shadow hst hchip]; exact Hc).
  pose proof (self_test_preserves (begin_call fl w) Hc0) as P.
  pose proof (wpx_run_reg _ BMA400_perform_self_test (begin_call fl w) _ _ (c10_restores_shadow (shadow w) Ho)) as R.
  destruct (run T_reg BMA400_perform_self_test (begin_call fl w)) as [a w'|e w'|w'|w']; cbn [world_of] in P; try exact I.
  - cbn [begin_call shadow] in R. split; [exact R|]. intros a0 v Hin. rewrite (Hc a0 v Hin). apply P. rewrite R. exact Hin.
  - destruct e; try exact I. destruct R as [R|R]; [destruct R|]. cbn [begin_call shadow] in R.
    split; [exact R|]. intros a0 v Hin. rewrite (Hc a0 v Hin). apply P. rewrite R. exact Hin.
Qed.

Example c10_example : isub_chk 16 2047 (-2048) = Ok 4095%Z.
Proof. reflexivity. Qed.
