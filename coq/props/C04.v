(* C04 — FIFO byte streams decode to exactly the frames and values the sensor encoded.
   For every list of well-formed frames (any number; data frames with any non-empty axis subset in
   8- or 12-bit resolution and any sample values, control frames, sensor-time frames), laid out
   after any prefix and followed by nothing, the FIFO-empty marker, or a frame cut off by the end
   of the buffer: the caller's loop over the generated iterator yields exactly those frames, in
   order, none partial, and every accessor returns the encoded value (None for absent fields). *)
Require Import BMA.lib.Base BMA.lib.Reflect BMA.gen.GenTypes BMA.gen.GenPure BMA.lib.Prog BMA.gen.GenProg BMA.gen.GenMeta
               BMA.lib.Encode BMA.gen.GenApi BMA.proofs.Fifo BMA.proofs.FifoSpec BMA.spec.Datasheet.
Require Import BMA.lib.Run BMA.proofs.Generic.
From Coq Require Import Lia.
Open Scope N_scope.

Theorem c04_stream_decodes : forall fs tail, Forall wf_frame fs -> tail_ok tail -> bytes_ok tail ->
  let buffer := concat (map encode_frame fs) ++ tail in
  iter_impl (S (length buffer)) (FifoFrames_new buffer) = Ok (Some (map (fun f => mk_Frame (encode_frame f)) fs)).
Proof.
  intros fs tail W T Bt buffer.
  assert (Bb : bytes_ok buffer).
  { unfold buffer, bytes_ok. apply Forall_app. split; [|exact Bt]. clear T Bt buffer.
    induction fs as [|f fs IH]; [apply Forall_nil|]. inversion W; subst. cbn [map concat]. apply Forall_app. split; [apply frame_bytes_ok; assumption | apply IH; assumption]. }
  rewrite iter_refines by exact Bb. f_equal.
  assert (Lc : (length fs <= length (concat (map encode_frame fs)))%nat).
  { clear - W. induction fs as [|f fs IH]; [cbn; lia|]. inversion W as [|? ? Wf Wfs]; subst.
    cbn [map concat length]. rewrite app_length. specialize (IH Wfs). destruct (frame_header f Wf) as [h [ps [E _]]]. rewrite E. cbn [length]. lia. }
  assert (Lf : (length fs < S (length buffer))%nat) by (unfold buffer; rewrite app_length; lia).
  exact (stream_decodes fs [] tail (S (length buffer)) W T Lf).
Qed.

Theorem c04_accessors : forall f, wf_frame f -> decodes_to (mk_Frame (encode_frame f)) f.
Proof. exact frame_decodes. Qed.

(* 8-bit mode carries the upper 8 bits: the encoded sample is a multiple of 16, i.e. its low 4 bits are zero *)
Theorem c04_8bit_low_bits_zero : forall ax x y z, wf_frame (FData ax false x y z) -> (x mod 16 = 0 /\ y mod 16 = 0 /\ z mod 16 = 0)%Z.
Proof. intros ax x y z [_ [[_ Hx] [[_ Hy] [_ Hz]]]]. auto. Qed.

(* read_fifo_frames on the register-level semantics: refused without traffic while the shadow power flag is set; otherwise ONE burst
   read of exactly the buffer length from the FIFO data register, and the bytes served are the iterator's buffer *)
Theorem c04_read_is_one_burst : forall buffer d c evs,
  sem (BMA400_read_fifo_frames buffer) d c evs =
  if Config_is_fifo_read_disabled d then AFailed (BMA400Error_ConfigBuildError ConfigError_FifoReadWhilePwrDisable) d c evs
  else ADone (FifoFrames_new (fst (chip_read ds_FifoData_addr (len buffer) c))) d (snd (chip_read ds_FifoData_addr (len buffer) c))
             (evs ++ [EvRead ds_FifoData_addr (len buffer)]).
Proof.
  intros buffer d c evs. unfold BMA400_read_fifo_frames. cbv beta zeta. cbn [bind get_shadow read_register sem].
  destruct (Config_is_fifo_read_disabled d); cbn [negb bind read_register sem]; reflexivity.
Qed.

Example c04_example :
  let fs := [FCtrl true false true; FData 5 true (-1) 0 2047; FData 2 false 0 (-2048) 0; FTime 1 2 3] in
  Forall wf_frame fs /\ concat (map encode_frame fs) = [72; 10; 154; 15; 255; 15; 127; 132; 128; 160; 1; 2; 3].
Proof.
  cbv zeta. split; [|vm_compute; reflexivity].
  repeat (apply Forall_cons; [cbv [wf_frame sample_wf in12]; repeat split; try lia; try (intro; discriminate); try (intros _; reflexivity)|]). apply Forall_nil.
Qed.
