(* C20 — a failed SPI transfer still releases chip-select.
   Hand model of spi.rs (coq/lib/Run.v: spi_write / spi_read), tied to the code by the correspondence
   check over every fault position.  For every register address, value and burst length: if the data
   transfer of a register write, or either transfer of a register read, fails, the operation returns
   that transfer's IOError, the raw journal ends with the chip-select release, the line is high and
   the chip's decoder idle when the call returns, and the chip's registers are untouched — so the
   next access is decoded as a fresh transaction and has its specified effect (c20_next_access). *)
Require Import BMA.lib.Base BMA.lib.Reflect BMA.gen.GenTypes BMA.lib.Prog BMA.lib.Run BMA.proofs.Generic.
From Coq Require Import Lia.
Open Scope N_scope.

Theorem c20_write : forall a v h, faults h = [ncalls h + 1] -> cs_low h = false ->
  fst (spi_write a v h) = Some (BMA400Error_IOError (ncalls h + 1))
  /\ cs_low (snd (spi_write a v h)) = false /\ win (snd (spi_write a v h)) = WIdle
  /\ hchip (snd (spi_write a v h)) = hchip h
  /\ raw (snd (spi_write a v h)) = raw h ++ [HSetLow; HSpiWrite [a; v]; HSetHigh].
Proof. exact spi_write_transfer_fault. Qed.

Theorem c20_read : forall a n h k, faults h = [k] -> cs_low h = false -> (k = ncalls h + 1 \/ k = ncalls h + 2) ->
  fst (spi_read a n h) = inl (BMA400Error_IOError k)
  /\ cs_low (snd (spi_read a n h)) = false /\ win (snd (spi_read a n h)) = WIdle
  /\ hchip (snd (spi_read a n h)) = hchip h
  /\ exists calls, raw (snd (spi_read a n h)) = raw h ++ calls ++ [HSetHigh].
Proof. exact spi_read_transfer_fault. Qed.

(* the next access (its own fault plan empty) is a fresh transaction with the specified effect *)
Theorem c20_next_access : forall a v h a' v', faults h = [ncalls h + 1] -> cs_low h = false -> a' < 128 ->
  let h1 := snd (spi_write a v h) in
  let h2 := mk_hstate (hchip h1) [] 0 [] (cs_low h1) (win h1) (strap h1) (stray h1) in    (* what begin_call does *)
  fst (spi_write a' v' h2) = None /\ hchip (snd (spi_write a' v' h2)) = chip_write a' v' (hchip h).
Proof.
  intros a v h a' v' F C Ha h1 h2.
  destruct (spi_write_transfer_fault a v h F C) as [_ [C1 [W1 [Hc _]]]]. fold h1 in C1, W1, Hc.
  assert (Q : quiet h2) by (unfold quiet, h2; cbn; auto).
  rewrite (spi_write_quiet a' v' h2 Q Ha). cbn [fst snd]. split; [reflexivity|].
  rewrite p_hchip_after. unfold h2. cbn [hchip]. rewrite Hc. reflexivity.
Qed.

(* the same for the three other combinations: failed write / failed read, followed by a read / a write.
   `fresh h1` is what begin_call leaves of h1: journal, call counter and fault plan cleared. *)
Definition fresh (h1 : hstate) : hstate :=
  mk_hstate (hchip h1) [] 0 [] (cs_low h1) (win h1) (strap h1) (stray h1).

Lemma fresh_quiet : forall h1, cs_low h1 = false -> win h1 = WIdle -> quiet (fresh h1).
Proof. intros h1 C W. unfold quiet, fresh; cbn [faults cs_low win]. auto. Qed.

Theorem c20_next_read_after_write_fault : forall a v h a' n, faults h = [ncalls h + 1] -> cs_low h = false -> a' < 128 ->
  let h2 := fresh (snd (spi_write a v h)) in
  fst (spi_read a' n h2) = inr (fst (chip_read a' n (hchip h)))
  /\ hchip (snd (spi_read a' n h2)) = snd (chip_read a' n (hchip h)).
Proof.
  intros a v h a' n F C Ha h2.
  destruct (spi_write_transfer_fault a v h F C) as [_ [C1 [W1 [Hc _]]]].
  rewrite (spi_read_quiet a' n h2 (fresh_quiet _ C1 W1) Ha). cbn [fst snd].
  rewrite p_hchip_after. unfold h2, fresh. cbn [hchip]. rewrite Hc. split; reflexivity.
Qed.

Theorem c20_next_write_after_read_fault : forall a n h k a' v', faults h = [k] -> cs_low h = false ->
  (k = ncalls h + 1 \/ k = ncalls h + 2) -> a' < 128 ->
  let h2 := fresh (snd (spi_read a n h)) in
  fst (spi_write a' v' h2) = None /\ hchip (snd (spi_write a' v' h2)) = chip_write a' v' (hchip h).
Proof.
  intros a n h k a' v' F C K Ha h2.
  destruct (spi_read_transfer_fault a n h k F C K) as [_ [C1 [W1 [Hc _]]]].
  rewrite (spi_write_quiet a' v' h2 (fresh_quiet _ C1 W1) Ha). cbn [fst snd]. split; [reflexivity|].
  rewrite p_hchip_after. unfold h2, fresh. cbn [hchip]. rewrite Hc. reflexivity.
Qed.

Theorem c20_next_read_after_read_fault : forall a n h k a' n', faults h = [k] -> cs_low h = false ->
  (k = ncalls h + 1 \/ k = ncalls h + 2) -> a' < 128 ->
  let h2 := fresh (snd (spi_read a n h)) in
  fst (spi_read a' n' h2) = inr (fst (chip_read a' n' (hchip h)))
  /\ hchip (snd (spi_read a' n' h2)) = snd (chip_read a' n' (hchip h)).
Proof.
  intros a n h k a' n' F C K Ha h2.
  destruct (spi_read_transfer_fault a n h k F C K) as [_ [C1 [W1 [Hc _]]]].
  rewrite (spi_read_quiet a' n' h2 (fresh_quiet _ C1 W1) Ha). cbn [fst snd].
  rewrite p_hchip_after. unfold h2, fresh. cbn [hchip]. rewrite Hc. split; reflexivity.
Qed.

(* contrast: without the release the line would stay low; the model of the code does release it *)
Example c20_example : let h := mk_hstate (power_on (fun _ => 0) [] [] []) [] 0 [1] false WIdle 20 0 in
  cs_low (snd (spi_write 25 2 h)) = false /\ raw (snd (spi_write 25 2 h)) = [HSetLow; HSpiWrite [25; 2]; HSetHigh].
Proof. cbv zeta. split; vm_compute; reflexivity. Qed.
