(* Run.v — the simulated chip, the HAL-level bus state with fault injection, the two
   transports (hand model of i2c.rs / spi.rs, DESIGN.md sections 4.1 and 7.3) and the
   interpreter of `prog`.  Hand-written.  No proofs here, so that the model still runs
   when a proof breaks. *)
Require Import BMA.lib.Base BMA.gen.GenTypes BMA.lib.Prog.
Open Scope N_scope.

(* ------------------------------------------------------------------ simulated chip *)
Record chip : Type := mk_chip {
  regs : N -> N;          (* register file, addresses 0..127 (0 above) *)
  fifo : list N;          (* bytes still queued in the FIFO *)
  st_pos : list N;        (* the six data bytes served under positive self-test excitation *)
  st_neg : list N         (* ... under negative excitation *)
}.

Definition upd (a v : N) (f : N -> N) : N -> N := fun x => if N.eqb x a then v else f x.

(* datasheet reset values of the writable registers (everything else resets to 0) *)
Definition reset_val (a : N) : N :=
  if N.eqb a 26 then 73 else if N.eqb a 36 then 34 else if N.eqb a 88 then 6 else 0.

(* first writable configuration register; below it the registers are read-only *)
Definition FIRST_CFG : N := 25.

(* a chip after power-on: read-only registers as given by the scenario, the rest at reset *)
Definition power_on (ro : N -> N) (q pos neg : list N) : chip :=
  mk_chip (fun a => if N.ltb a FIRST_CFG then ro a else if N.ltb a 128 then reset_val a else 0) q pos neg.

Definition chip_soft_reset (c : chip) : chip :=
  mk_chip (fun a => if N.ltb a FIRST_CFG then regs c a else if N.ltb a 128 then reset_val a else 0)
          (fifo c) (st_pos c) (st_neg c).

Definition chip_write (a v : N) (c : chip) : chip :=
  if N.eqb a 126 then
    (if N.eqb v 182 then chip_soft_reset c
     else if N.eqb v 176 then mk_chip (regs c) [] (st_pos c) (st_neg c)
     else if N.eqb v 177 then mk_chip (upd 21 0 (upd 22 0 (upd 23 0 (regs c)))) (fifo c) (st_pos c) (st_neg c)
     else c)
  else if (N.leb FIRST_CFG a && N.ltb a 128)%bool then mk_chip (upd a v (regs c)) (fifo c) (st_pos c) (st_neg c)
  else c.

(* what a read of register a returns: the acceleration data registers answer to the excitation *)
Definition reg_out (c : chip) (a : N) : N :=
  if (N.leb 4 a && N.leb a 9)%bool then
    (if N.eqb (regs c 125) 7 then nth (N.to_nat (a - 4)) (st_pos c) 0
     else if N.eqb (regs c 125) 15 then nth (N.to_nat (a - 4)) (st_neg c) 0
     else regs c a)
  else regs c a.

Fixpoint read_seq (c : chip) (a : N) (n : nat) : list N :=
  match n with O => [] | S k => reg_out c a :: read_seq c (a + 1) k end.

(* bytes served by the FIFO data port: the queue, then the empty pattern 0x80 0x00 0x80 .. *)
Fixpoint fifo_take (q : list N) (n : nat) (odd : bool) : list N :=
  match n with
  | O => []
  | S k => match q with
           | b :: q' => b :: fifo_take q' k false
           | [] => (if odd then 0 else 128) :: fifo_take [] k (negb odd)
           end
  end.

Definition chip_read (a n : N) (c : chip) : list N * chip :=
  if N.eqb a 20 then
    (fifo_take (fifo c) (N.to_nat n) false, mk_chip (regs c) (skipn (N.to_nat n) (fifo c)) (st_pos c) (st_neg c))
  else (read_seq c a (N.to_nat n), c).

(* ------------------------------------------------------------------ HAL level *)
Inductive hcall : Type :=
| HSetLow | HSetHigh
| HSpiWrite (bs : list N)
| HSpiTransfer (bs : list N)           (* bytes clocked out; the same number is clocked in *)
| HI2cWrite (addr : N) (bs : list N)
| HI2cWriteRead (addr : N) (bs : list N) (n : N)
| HReg (w : bool) (a x : N)            (* register-level pseudo transport: one call per transaction *)
| HDelay (ms : N).                     (* a DelayMs request, journalled in order; not a fallible call *)

(* SPI decoder of the chip: what it has seen since chip-select went low *)
Inductive window : Type :=
| WIdle                                        (* no byte yet *)
| WOpen (first : N) (dummy_done : bool) (ptr : N).

Record hstate : Type := mk_hstate {
  hchip : chip;
  raw : list hcall;       (* every HAL call attempted, in order *)
  ncalls : N;             (* fallible calls attempted so far (the next call's index and error token) *)
  faults : list N;        (* indices of the calls that fail *)
  cs_low : bool;          (* level of the chip-select line as the chip sees it *)
  win : window;           (* SPI decoder state *)
  strap : N;              (* the I2C address the chip answers to *)
  stray : N               (* bytes clocked on SPI while chip-select was high *)
}.

Definition faulty (h : hstate) : bool := existsb (N.eqb (ncalls h)) (faults h).

Definition set_chip (c : chip) (h : hstate) : hstate :=
  mk_hstate c (raw h) (ncalls h) (faults h) (cs_low h) (win h) (strap h) (stray h).
Definition set_cs (b : bool) (w : window) (h : hstate) : hstate :=
  mk_hstate (hchip h) (raw h) (ncalls h) (faults h) b w (strap h) (stray h).
Definition set_win (w : window) (h : hstate) : hstate :=
  mk_hstate (hchip h) (raw h) (ncalls h) (faults h) (cs_low h) w (strap h) (stray h).
Definition add_stray (n : N) (h : hstate) : hstate :=
  mk_hstate (hchip h) (raw h) (ncalls h) (faults h) (cs_low h) (win h) (strap h) (stray h + n).
Definition log_raw (c : hcall) (count : bool) (h : hstate) : hstate :=
  mk_hstate (hchip h) (raw h ++ [c]) (if count then ncalls h + 1 else ncalls h) (faults h) (cs_low h) (win h) (strap h) (stray h).

(* a fallible HAL call: journalled, counted; Some token = it fails (and has no effect at all) *)
Definition attempt (c : hcall) (h : hstate) : option N * hstate :=
  (if faulty h then Some (ncalls h) else None, log_raw c true h).

(* ---- what the chip does with bytes clocked on SPI (twin of sim.rs spi_transfer) ---- *)
Fixpoint spi_clock (bs : list N) (h : hstate) : list N * hstate :=
  match bs with
  | [] => ([], h)
  | b :: rest =>
    match win h with
    | WIdle =>
        let '(r, h') := spi_clock rest (set_win (WOpen b false (N.land b 127)) h) in (0 :: r, h')
    | WOpen f dd p =>
        if N.eqb (N.land f 128) 0 then
          let '(r, h') := spi_clock rest (set_win (WOpen f dd (N.land (p + 1) 255)) (set_chip (chip_write p b (hchip h)) h)) in
          (0 :: r, h')
        else if negb dd then
          let '(r, h') := spi_clock rest (set_win (WOpen f true p) h) in (0 :: r, h')
        else
          let n := len bs in
          let '(l, c) := chip_read p n (hchip h) in
          (l, set_win (WOpen f true (if N.eqb p 20 then p else N.land (p + n) 255)) (set_chip c h))
    end
  end.
Definition spi_bytes (bs : list N) (h : hstate) : list N * hstate :=
  if cs_low h then spi_clock bs h else (map (fun _ => 0) bs, add_stray (len bs) h).

(* ---- HAL primitives as the driver sees them: Some token = error ---- *)
Definition hal_set_low (h : hstate) : option N * hstate :=
  let '(r, h1) := attempt HSetLow h in
  match r with Some t => (Some t, h1) | None => (None, if cs_low h1 then h1 else set_cs true WIdle h1) end.
Definition hal_set_high (h : hstate) : option N * hstate :=
  let '(r, h1) := attempt HSetHigh h in
  match r with Some t => (Some t, h1) | None => (None, set_cs false WIdle h1) end.
Definition hal_spi_write (bs : list N) (h : hstate) : option N * hstate :=
  let '(r, h1) := attempt (HSpiWrite bs) h in
  match r with Some t => (Some t, h1) | None => (None, snd (spi_bytes bs h1)) end.
Definition hal_spi_transfer (bs : list N) (h : hstate) : (N + list N) * hstate :=
  let '(r, h1) := attempt (HSpiTransfer bs) h in
  match r with Some t => (inl t, h1) | None => let '(l, h2) := spi_bytes bs h1 in (inr l, h2) end.

Definition NACK : N := 61166.   (* 0xEEEE: nobody acknowledged the address *)
Fixpoint write_seq (p : N) (bs : list N) (c : chip) : chip :=
  match bs with [] => c | b :: rest => write_seq (N.land (p + 1) 255) rest (chip_write p b c) end.
Definition hal_i2c_write (dev : N) (bs : list N) (h : hstate) : option N * hstate :=
  let '(r, h1) := attempt (HI2cWrite dev bs) h in
  match r with
  | Some t => (Some t, h1)
  | None =>
    if negb (N.eqb dev (strap h1)) then (Some NACK, h1)
    else match bs with
         | [] => (None, h1)
         | p :: data => (None, set_chip (write_seq p data (hchip h1)) h1)
         end
  end.
Definition hal_i2c_write_read (dev : N) (bs : list N) (n : N) (h : hstate) : (N + list N) * hstate :=
  let '(r, h1) := attempt (HI2cWriteRead dev bs n) h in
  match r with
  | Some t => (inl t, h1)
  | None =>
    if negb (N.eqb dev (strap h1)) then (inl NACK, h1)
    else match bs with
         | [] => (inr (repeatN 0 n), h1)
         | p :: data =>
             let c1 := write_seq p data (hchip h1) in
             let '(l, c2) := chip_read (N.land (p + len data) 255) n c1 in
             (inr l, set_chip c2 h1)
         end
  end.

(* a transport: how one register transaction is carried out.  Result None / inr = success. *)
Record transport : Type := mk_transport {
  t_write : N -> N -> hstate -> option BMA400Error * hstate;
  t_read : N -> N -> hstate -> (BMA400Error + list N) * hstate
}.

(* -- register level: one call per transaction; a failed transaction is not applied -- *)
Definition reg_write (a v : N) (h : hstate) : option BMA400Error * hstate :=
  let '(r, h1) := attempt (HReg true a v) h in
  match r with
  | Some t => (Some (BMA400Error_IOError t), h1)
  | None => (None, set_chip (chip_write a v (hchip h1)) h1)
  end.
Definition reg_read (a n : N) (h : hstate) : (BMA400Error + list N) * hstate :=
  let '(r, h1) := attempt (HReg false a n) h in
  match r with
  | Some t => (inl (BMA400Error_IOError t), h1)
  | None => let '(l, c) := chip_read a n (hchip h1) in (inr l, set_chip c h1)
  end.
Definition T_reg : transport := mk_transport reg_write reg_read.

(* -- I2C (hand model of i2c.rs): write(ADDR,[a,v]) / write_read(ADDR,[a],buf), errors as IOError -- *)
Definition i2c_write (dev a v : N) (h : hstate) : option BMA400Error * hstate :=
  let '(r, h1) := hal_i2c_write dev [a; v] h in
  (match r with Some t => Some (BMA400Error_IOError t) | None => None end, h1).
Definition i2c_read (dev a n : N) (h : hstate) : (BMA400Error + list N) * hstate :=
  let '(r, h1) := hal_i2c_write_read dev [a] n h in
  (match r with inl t => inl (BMA400Error_IOError t) | inr l => inr l end, h1).
Definition T_i2c (dev : N) : transport := mk_transport (i2c_write dev) (i2c_read dev).

(* -- SPI (hand model of spi.rs): chip-select window around the transfer; the pin is released
      even when a transfer fails and the transfer's error is reported first -- *)
Definition spi_write (a v : N) (h : hstate) : option BMA400Error * hstate :=
  let '(r0, h0) := hal_set_low h in
  match r0 with
  | Some t => (Some (BMA400Error_ChipSelectPinError t), h0)
  | None =>
    let '(r1, h1) := hal_spi_write [a; v] h0 in
    let '(r2, h2) := hal_set_high h1 in
    (match r1 with
     | Some t => Some (BMA400Error_IOError t)
     | None => match r2 with Some t => Some (BMA400Error_ChipSelectPinError t) | None => None end
     end, h2)
  end.
Definition spi_read (a n : N) (h : hstate) : (BMA400Error + list N) * hstate :=
  let '(r0, h0) := hal_set_low h in
  match r0 with
  | Some t => (inl (BMA400Error_ChipSelectPinError t), h0)
  | None =>
    let '(r1, h1) := hal_spi_transfer [N.lor a 128; 0] h0 in
    match r1 with
    | inl t =>
      let '(_, h2) := hal_set_high h1 in (inl (BMA400Error_IOError t), h2)
    | inr _ =>
      let '(r2, h2) := hal_spi_transfer (repeatN 0 n) h1 in
      let '(r3, h3) := hal_set_high h2 in
      (match r2 with
       | inl t => inl (BMA400Error_IOError t)
       | inr l => match r3 with Some t => inl (BMA400Error_ChipSelectPinError t) | None => inr l end
       end, h3)
    end
  end.
Definition T_spi : transport := mk_transport spi_write spi_read.

(* ------------------------------------------------------------------ worlds and the interpreter *)
Record world : Type := mk_world {
  shadow : Config;
  hst : hstate;
  journal : list event    (* register-level events attempted, in order *)
}.
Definition wchip (w : world) : chip := hchip (hst w).

Inductive outcome (A : Type) : Type :=
| Done (a : A) (w : world)
| Failed (e : BMA400Error) (w : world)
| Panicked (w : world)
| OutOfFuel (w : world).
Arguments Done {A} a w. Arguments Failed {A} e w. Arguments Panicked {A} w. Arguments OutOfFuel {A} w.

Definition world_of {A} (o : outcome A) : world :=
  match o with Done _ w => w | Failed _ w => w | Panicked w => w | OutOfFuel w => w end.

Definition log_ev (e : event) (h : hstate) (w : world) : world := mk_world (shadow w) h (journal w ++ [e]).

Fixpoint run {A} (T : transport) (p : prog A) (w : world) : outcome A :=
  match p with
  | Ret a => Done a w
  | Fail e => Failed e w
  | PanicP => Panicked w
  | FuelP => OutOfFuel w
  | Write a v k =>
      let '(r, h) := t_write T a v (hst w) in
      let w' := log_ev (EvWrite a v) h w in
      match r with None => run T k w' | Some e => Failed e w' end
  | Read a n k =>
      let '(r, h) := t_read T a n (hst w) in
      let w' := log_ev (EvRead a n) h w in
      match r with inr l => run T (k l) w' | inl e => Failed e w' end
  | Delay ms k =>
      let h := hst w in
      run T k (log_ev (EvDelay ms) (log_raw (HDelay ms) false h) w)
  | Get k => run T (k (shadow w)) w
  | Put c k => run T k (mk_world c (hst w) (journal w))
  end.

(* start of an API call: per-call journals, call counter and fault plan *)
Definition begin_call (fl : list N) (w : world) : world :=
  let h := hst w in
  mk_world (shadow w) (mk_hstate (hchip h) [] 0 fl (cs_low h) (win h) (strap h) (stray h)) [].
