(* Corr.v — comparison of model runs with the outputs recorded from the implementation
   (correspondence check).  Hand-written. *)
Require Import BMA.lib.Base.
Open Scope N_scope.

Fixpoint eq_listN (a b : list N) : bool :=
  match a, b with
  | [], [] => true
  | x :: a', y :: b' => N.eqb x y && eq_listN a' b'
  | _, _ => false
  end.
Fixpoint eq_listlistN (a b : list (list N)) : bool :=
  match a, b with
  | [], [] => true
  | x :: a', y :: b' => eq_listN x y && eq_listlistN a' b'
  | _, _ => false
  end.
(* identifiers of the cases whose model output differs from the recorded implementation output *)
Definition mismatches (cases : list (N * list (list N) * list (list N))) : list N :=
  flat_map (fun c => match c with (id, got, expected) => if eq_listlistN got expected then [] else [id] end) cases.
