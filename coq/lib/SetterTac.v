(* SetterTac.v — proof automation for the per-setter theorems (C02 / C09). *)
Require Import BMA.lib.Base BMA.lib.Reflect BMA.gen.GenTypes BMA.gen.GenPure BMA.gen.GenMeta BMA.spec.Datasheet.
From Coq Require Import Lia.
Open Scope N_scope.

Lemma sub_chk_ok a b : b <= a -> sub_chk a b = Ok (a - b).
Proof. intro H. unfold sub_chk. destruct (N.ltb_spec a b); [lia | reflexivity]. Qed.

Ltac head_of t := lazymatch t with ?f _ => head_of f | _ => t end.
Ltac unfold_head :=
  lazymatch goal with
  | |- ?L = _ => let h := head_of L in try unfold h
  end.

(* fails when the product of the ranged variables exceeds ~2^20 *)
Ltac small_domain :=
  lazymatch goal with
  | H1 : ?x < 65536, H2 : ?y < 256 |- _ => fail "large domain"
  | H1 : ?x < 65536, H2 : ?y < 65536 |- _ => fail "large domain"
  | H1 : (-32768 <= ?x < 32768)%Z, H2 : ?y < 256 |- _ => fail "large domain"
  | H1 : (-32768 <= ?x < 32768)%Z, H2 : (-32768 <= ?y < 32768)%Z |- _ => fail "large domain"
  | H1 : ?x < 256, H2 : ?y < 256, H3 : ?z < 256 |- _ => fail "large domain"
  | _ => idtac
  end.

Ltac setter_start f := unfold f; cbn; cbv beta iota zeta; cbv_records.
Ltac setter_start_res f :=
  unfold f; cbn; cbv_records;
  repeat match goal with
  | |- context [sub_chk ?a ?b] => rewrite (sub_chk_ok a b) by (unfold clampN; lia)
  end;
  cbn [rbind]; cbv_records.

(* a single field: `impl b args = fld mask code b` (or b itself) *)
(* evaluation is bounded: a changed setter must fail its lemma, not hang the build *)
Ltac field_leaf := clear_unused; small_domain; timeout 300 finite_reflect.
Ltac setter_field :=
  try reflexivity;
  unfold_head; clear_unused;
  first
    [ small_domain; timeout 300 finite_reflect
    | (* same top-level shape as the specification: split at the final `union` *)
      solve [ unfold union, difference, fld; f_equal; [ f_equal; field_leaf | field_leaf ] ]
    | solve [ unfold union, difference, fld; f_equal; field_leaf ]
    | timeout 300 finite_reflect ].
