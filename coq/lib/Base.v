(* Base.v — prelude of the generated model: Rust machine integers, bitflags 1.3.2
   operations, the panic/fuel result type, slices as lists.  Hand-written; its
   reading of the Rust operators is part of the trusted base and is validated by
   the correspondence check (DESIGN.md section 12). *)
From Coq Require Export NArith ZArith List Bool.
From Coq Require Import Lia.
Export ListNotations.
Open Scope N_scope.

(* ---------- outcome of pure code that may panic or loop ---------- *)
Inductive res (A : Type) : Type := Ok (a : A) | Panic | NoFuel.
Arguments Ok {A} a. Arguments Panic {A}. Arguments NoFuel {A}.
Definition rbind {A B} (r : res A) (f : A -> res B) : res B :=
  match r with Ok a => f a | Panic => Panic | NoFuel => NoFuel end.
Notation "x <-? r ;; k" := (rbind r (fun x => k)) (at level 61, r at next level, right associativity).
Notation "' p <-? r ;; k" := (rbind r (fun x => match x with p => k end))
  (at level 61, p pattern, r at next level, right associativity).
Definition is_ok {A} (r : res A) : bool := match r with Ok _ => true | _ => false end.

(* ---------- booleans ---------- *)
Definition neqb (a b : N) : bool := negb (N.eqb a b).
Definition zneqb (a b : Z) : bool := negb (Z.eqb a b).

(* ---------- unsigned machine integers (u8 / u16 / u32 as N, width explicit) ---------- *)
Definition pow2 (w : N) : N := N.shiftl 1 w.
Definition wrapN (w x : N) : N := N.land x (N.ones w).
(* `a << n` on a w-bit unsigned: bits shifted out are dropped; the shift amount must be < w *)
Definition shl (w a n : N) : N := wrapN w (N.shiftl a n).
Definition shr (a n : N) : N := N.shiftr a n.
(* checked arithmetic (debug builds panic on overflow) *)
Definition sub_chk (a b : N) : res N := if N.ltb a b then Panic else Ok (a - b).
Definition add_chk (w a b : N) : res N := if N.ltb (a + b) (pow2 w) then Ok (a + b) else Panic.
Definition mul_chk (w a b : N) : res N := if N.ltb (a * b) (pow2 w) then Ok (a * b) else Panic.
Definition shl_chk (w a n : N) : res N := if N.ltb n w then Ok (shl w a n) else Panic.
Definition clampN (x lo hi : N) : N := N.max lo (N.min hi x).
(* x.to_le_bytes()[i] for an unsigned value *)
Definition le_byte (i x : N) : N := N.land (N.shiftr x (8 * i)) 255.
Definition u16_from_le_bytes (l : list N) : N := nth 0 l 0 + 256 * nth 1 l 0.
Definition u32_from_le_bytes (l : list N) : N :=
  nth 0 l 0 + 256 * nth 1 l 0 + 65536 * nth 2 l 0 + 16777216 * nth 3 l 0.
Definition u16_to_le_bytes (x : N) : list N := [le_byte 0 x; le_byte 1 x].

(* ---------- signed machine integers (i8 / i16 as Z) ---------- *)
Definition to_signed (w x : N) : Z :=
  if N.ltb x (pow2 (w - 1)) then Z.of_N x else (Z.of_N x - Z.of_N (pow2 w))%Z.
Definition of_signed (w : N) (z : Z) : N := Z.to_N (z mod (Z.of_N (pow2 w)))%Z.
Definition in_signed (w : N) (z : Z) : bool :=
  ((- Z.of_N (pow2 (w - 1)) <=? z) && (z <? Z.of_N (pow2 (w - 1))))%Z.
Definition wrapZ (w : N) (z : Z) : Z := to_signed w (of_signed w z).
Definition clampZ (x lo hi : Z) : Z := Z.max lo (Z.min hi x).
Definition isub_chk (w : N) (a b : Z) : res Z := if in_signed w (a - b) then Ok (a - b)%Z else Panic.
Definition iadd_chk (w : N) (a b : Z) : res Z := if in_signed w (a + b) then Ok (a + b)%Z else Panic.
(* `a << n` on a w-bit signed integer: wraps, panics only when n >= w *)
Definition ishl (w : N) (a : Z) (n : N) : Z := wrapZ w (a * Z.of_N (pow2 n)).
Definition ishl_chk (w : N) (a : Z) (n : N) : res Z := if N.ltb n w then Ok (ishl w a n) else Panic.
Definition ile_byte (w i : N) (z : Z) : N := le_byte i (of_signed w z).
Definition i16_from_le_bytes (l : list N) : Z := to_signed 16 (u16_from_le_bytes l).
Definition i8_from_le_bytes (l : list N) : Z := to_signed 8 (nth 0 l 0).

(* ---------- bitflags 1.3.2 (a flags value is its `bits`) ---------- *)
Definition union (a b : N) : N := N.lor a b.
Definition difference (a b : N) : N := N.ldiff a b.
Definition intersection (a b : N) : N := N.land a b.
Definition intersects (a b : N) : bool := negb (N.eqb (N.land a b) 0).
Definition contains (a b : N) : bool := N.eqb (N.land a b) b.
Definition from_bits_truncate (all x : N) : N := N.land x all.
Definition bits (a : N) : N := a.

(* ---------- arrays and slices as lists ---------- *)
Definition len {A} (l : list A) : N := N.of_nat (length l).
(* statically in-bounds access to a fixed-size array (index literal < declared size) *)
Definition arr_get (l : list N) (i : N) : N := nth (N.to_nat i) l 0.
(* bounds-checked slice indexing *)
Definition idx (l : list N) (i : N) : res N :=
  match nth_error l (N.to_nat i) with Some v => Ok v | None => Panic end.
(* &l[a..b] *)
Definition slice_range {A} (l : list A) (a b : N) : res (list A) :=
  if (N.leb a b && N.leb b (len l))%bool
  then Ok (firstn (N.to_nat (b - a)) (skipn (N.to_nat a) l)) else Panic.
Definition repeatN (v n : N) : list N := repeat v (N.to_nat n).

(* ---------- `while` with explicit fuel ---------- *)
Fixpoint while_res {S} (fuel : nat) (cond : S -> bool) (body : S -> res S) (s : S) : res S :=
  if cond s then
    match fuel with
    | O => NoFuel
    | S f => s' <-? body s ;; while_res f cond body s'
    end
  else Ok s.
Definition LOOP_FUEL : nat := 300.

(* ---------- exhaustive evaluation over n-bit values, without materialising a list ---------- *)
Fixpoint forall_bits (n : nat) (f : N -> bool) (base : N) : bool :=
  match n with
  | O => f base
  | S m => forall_bits m f (2 * base) && forall_bits m f (2 * base + 1)
  end.

Lemma forall_bits_sound n : forall f base, forall_bits n f base = true ->
  forall x, x < 2 ^ N.of_nat n -> f (base * 2 ^ N.of_nat n + x) = true.
Proof.
  induction n as [|m IH]; intros f base H x Hx.
  - change (2 ^ N.of_nat 0) with 1 in *. replace x with 0 by lia.
    rewrite N.mul_1_r, N.add_0_r. exact H.
  - cbn [forall_bits] in H. apply andb_prop in H. destruct H as [H0 H1].
    rewrite Nat2N.inj_succ, N.pow_succ_r' in *.
    destruct (N.ltb x (2 ^ N.of_nat m)) eqn:E.
    + apply N.ltb_lt in E. specialize (IH f (2 * base) H0 x E).
      replace (base * (2 * 2 ^ N.of_nat m) + x) with (2 * base * 2 ^ N.of_nat m + x) by lia. exact IH.
    + apply N.ltb_ge in E. assert (Hx' : x - 2 ^ N.of_nat m < 2 ^ N.of_nat m) by lia.
      specialize (IH f (2 * base + 1) H1 _ Hx').
      replace (base * (2 * 2 ^ N.of_nat m) + x) with ((2 * base + 1) * 2 ^ N.of_nat m + (x - 2 ^ N.of_nat m)) by lia.
      exact IH.
Qed.

Lemma forall_bits_all n f : forall_bits n f 0 = true -> forall x, x < 2 ^ N.of_nat n -> f x = true.
Proof. intros H x Hx. pose proof (forall_bits_sound n f 0 H x Hx) as H'. rewrite N.mul_0_l, N.add_0_l in H'. exact H'. Qed.

Definition all_u8 (f : N -> bool) : bool := forall_bits 8 f 0.
Definition all_u16 (f : N -> bool) : bool := forall_bits 16 f 0.
Definition all_bool (f : bool -> bool) : bool := f false && f true.
Lemma all_u8_sound f : all_u8 f = true -> forall x, x < 256 -> f x = true.
Proof. unfold all_u8. intros H x Hx. refine (forall_bits_all 8 f H x _). change (2 ^ N.of_nat 8) with 256. exact Hx. Qed.
Lemma all_u16_sound f : all_u16 f = true -> forall x, x < 65536 -> f x = true.
Proof. unfold all_u16. intros H x Hx. refine (forall_bits_all 16 f H x _). change (2 ^ N.of_nat 16) with 65536. exact Hx. Qed.
Lemma all_bool_sound f : all_bool f = true -> forall b, f b = true.
Proof. unfold all_bool. intros H b. apply andb_prop in H. destruct H, b; assumption. Qed.
(* signed 16-bit / 8-bit values through their two's-complement encoding *)
Definition all_i16 (f : Z -> bool) : bool := all_u16 (fun x => f (to_signed 16 x)).
Definition all_i8 (f : Z -> bool) : bool := all_u8 (fun x => f (to_signed 8 x)).

Lemma to_signed_of_signed16 z : (-32768 <= z < 32768)%Z -> to_signed 16 (of_signed 16 z) = z.
Proof.
  intros H. unfold to_signed, of_signed. change (pow2 16) with 65536. change (pow2 (16 - 1)) with 32768.
  change (Z.of_N 65536) with 65536%Z.
  destruct (Z.ltb z 0) eqn:E; [apply Z.ltb_lt in E | apply Z.ltb_ge in E].
  - replace (z mod 65536)%Z with (z + 65536)%Z by (apply Z.mod_unique with (q := (-1)%Z); lia).
    destruct (N.ltb_spec (Z.to_N (z + 65536)) 32768); lia.
  - rewrite Z.mod_small by lia. destruct (N.ltb_spec (Z.to_N z) 32768); lia.
Qed.
Lemma of_signed16_range z : of_signed 16 z < 65536.
Proof. unfold of_signed. change (Z.of_N (pow2 16)) with 65536%Z. pose proof (Z.mod_pos_bound z 65536). lia. Qed.
Lemma all_i16_sound f : all_i16 f = true -> forall z, (-32768 <= z < 32768)%Z -> f z = true.
Proof.
  unfold all_i16. intros H z Hz. pose proof (all_u16_sound (fun x => f (to_signed 16 x)) H (of_signed 16 z) (of_signed16_range z)) as H'.
  cbv beta in H'. rewrite to_signed_of_signed16 in H' by exact Hz. exact H'.
Qed.
Lemma to_signed_of_signed8 z : (-128 <= z < 128)%Z -> to_signed 8 (of_signed 8 z) = z.
Proof.
  intros H. unfold to_signed, of_signed. change (pow2 8) with 256. change (pow2 (8 - 1)) with 128.
  change (Z.of_N 256) with 256%Z.
  destruct (Z.ltb z 0) eqn:E; [apply Z.ltb_lt in E | apply Z.ltb_ge in E].
  - replace (z mod 256)%Z with (z + 256)%Z by (apply Z.mod_unique with (q := (-1)%Z); lia).
    destruct (N.ltb_spec (Z.to_N (z + 256)) 128); lia.
  - rewrite Z.mod_small by lia. destruct (N.ltb_spec (Z.to_N z) 128); lia.
Qed.
Lemma of_signed8_range z : of_signed 8 z < 256.
Proof. unfold of_signed. change (Z.of_N (pow2 8)) with 256%Z. pose proof (Z.mod_pos_bound z 256). lia. Qed.
Lemma all_i8_sound f : all_i8 f = true -> forall z, (-128 <= z < 128)%Z -> f z = true.
Proof.
  unfold all_i8. intros H z Hz. pose proof (all_u8_sound (fun x => f (to_signed 8 x)) H (of_signed 8 z) (of_signed8_range z)) as H'.
  cbv beta in H'. rewrite to_signed_of_signed8 in H' by exact Hz. exact H'.
Qed.

(* keep bare `simpl`/`cbn` from unfolding binary arithmetic *)
Arguments N.add : simpl never. Arguments N.sub : simpl never. Arguments N.mul : simpl never.
Arguments N.eqb : simpl never. Arguments N.ltb : simpl never. Arguments N.leb : simpl never.
Arguments N.land : simpl never. Arguments N.lor : simpl never. Arguments N.ldiff : simpl never.
Arguments N.lxor : simpl never. Arguments N.shiftl : simpl never. Arguments N.shiftr : simpl never.
Arguments N.max : simpl never. Arguments N.min : simpl never.
Arguments Z.add : simpl never. Arguments Z.sub : simpl never. Arguments Z.mul : simpl never.
Arguments Z.eqb : simpl never. Arguments Z.ltb : simpl never. Arguments Z.leb : simpl never.
Arguments Z.gtb : simpl never. Arguments Z.geb : simpl never.
