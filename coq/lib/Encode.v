(* Encode.v — canonical encoding of API results as lists of numbers, shared (by
   construction of the two printers) with the Rust harness; used only by the
   correspondence check.  Hand-written. *)
Require Import BMA.lib.Base BMA.gen.GenTypes BMA.gen.GenPure BMA.lib.Prog.
Open Scope N_scope.

Definition encZ (z : Z) : N := Z.to_N (z + 100000).
Definition enc_bool (b : bool) : N := if b then 1 else 0.
Definition enc_optZ (o : option Z) : N := match o with None => 0 | Some z => encZ z end.
Definition enc_optN (o : option N) : N := match o with None => 0 | Some n => n + 1 end.
Definition enc_optB (o : option bool) : N := match o with None => 0 | Some false => 1 | Some true => 2 end.

Definition enc_frame (off : N) (f : Frame) : res (list N) :=
  t <-? Frame_frame_type f ;;
  x <-? Frame_x f ;; y <-? Frame_y f ;; z <-? Frame_z f ;;
  tm <-? Frame_time f ;;
  c1 <-? Frame_fifo_src_chg f ;; c2 <-? Frame_filt1_bw_chg f ;; c3 <-? Frame_acc1_chg f ;;
  Ok [1; off; len (Frame_slice f);
      match t with FrameType_Data => 0 | FrameType_Time => 1 | FrameType_Control => 2 end;
      enc_optZ x; enc_optZ y; enc_optZ z; enc_optN tm; enc_optB c1; enc_optB c2; enc_optB c3].

(* call next() `calls` times (the iterator is not fused), encoding every answer *)
Fixpoint enc_fifo_iter (calls : nat) (it : FifoFrames) : res (list N) :=
  match calls with
  | O => Ok []
  | S k =>
      '(it', o) <-? FifoFrames_next it ;;
      e <-? (match o with None => Ok [0] | Some f => enc_frame (FifoFrames_index it) f end) ;;
      rest <-? enc_fifo_iter k it' ;;
      Ok (e ++ rest)
  end.
Definition enc_fifo (it : FifoFrames) : res (list N) :=
  enc_fifo_iter (length (FifoFrames_bytes it) + 2) it.

Definition enc_event (e : event) : list N :=
  match e with EvWrite a v => [1; a; v] | EvRead a n => [2; a; n] | EvDelay ms => [3; ms] end.
