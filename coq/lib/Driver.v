(* Driver.v — runs whole programs (constructor + API calls with fault plans) on the model
   and prints them in the canonical form of the correspondence check.  Hand-written;
   contains the hand model of the three constructors of i2c.rs / spi.rs. *)
Require Import BMA.lib.Base BMA.gen.GenTypes BMA.gen.GenPure BMA.lib.Prog BMA.gen.GenProg BMA.gen.GenMeta
               BMA.lib.Encode BMA.gen.GenApi BMA.lib.Run.
Open Scope N_scope.

Definition enc_err (e : BMA400Error) : list N :=
  match e with
  | BMA400Error_IOError t => [1; t]
  | BMA400Error_ChipSelectPinError t => [2; t]
  | BMA400Error_ConfigBuildError c => [3; enc_ConfigError c]
  | BMA400Error_ChipIdReadFailed => [4]
  | BMA400Error_SelfTestFailedError => [5]
  end.

Definition enc_hcall (c : hcall) : list N :=
  match c with
  | HI2cWrite a bs => 10 :: a :: len bs :: bs
  | HI2cWriteRead a bs n => 11 :: a :: len bs :: bs ++ [n]
  | HSetLow => [12]
  | HSetHigh => [13]
  | HSpiWrite bs => 14 :: len bs :: bs
  | HSpiTransfer bs => 15 :: len bs :: bs
  | HReg w a x => [16; enc_bool w; a; x]
  | HDelay ms => [17; ms]
  end.

Definition enc_outcome (o : outcome (list N)) : list N :=
  match o with
  | Done l _ => 0 :: len l :: l
  | Failed e _ => enc_err e
  | Panicked _ => [9]
  | OutOfFuel _ => [8]
  end.

Definition enc_call (o : outcome (list N)) : list N :=
  let w := world_of o in
  enc_outcome o ++ len (raw (hst w)) :: flat_map enc_hcall (raw (hst w)).

(* ---- constructors (hand model of new_i2c / new_spi / new_spi_3wire) ---- *)
Inductive ctor : Type := C_i2c | C_spi | C_spi3.

Definition check_id (id : list N) : prog (list N) :=
  if N.eqb (nth 0 id 0) 144 then Ret [] else Fail BMA400Error_ChipIdReadFailed.

Definition ctor_prog (c : ctor) : prog (list N) :=
  match c with
  | C_i2c => id <- read_register ChipId_ADDR 1 ;; check_id id
  | C_spi => _ <- read_register ChipId_ADDR 1 ;; id <- read_register ChipId_ADDR 1 ;; check_id id
  | C_spi3 => _ <- read_register ChipId_ADDR 1 ;; id <- read_register ChipId_ADDR 1 ;;
              _ <- write_register InterfaceConfig_ADDR (InterfaceConfig_with_spi_3wire_mode InterfaceConfig_DEFAULT true) ;;
              check_id id
  end.

Definition transport_of (i2c_addr : N) (c : ctor) : transport :=
  match c with C_i2c => T_i2c i2c_addr | _ => T_spi end.

(* ---- one API call ---- *)
Definition chip_load (a v : N) (c : chip) : chip := mk_chip (upd a v (regs c)) (fifo c) (st_pos c) (st_neg c).

Definition run_op (T : transport) (op : api_op) (fl : list N) (w : world) : list N * world :=
  let w0 := begin_call fl w in
  let w0 := match op with
            | Op_load a v => mk_world (shadow w0) (set_chip (chip_load a v (wchip w0)) (hst w0)) (journal w0)
            | _ => w0
            end in
  let o := run T (step op) w0 in
  (enc_call o, world_of o).

Fixpoint run_ops (T : transport) (ops : list (api_op * list N)) (w : world) : list (list N) * world :=
  match ops with
  | [] => ([], w)
  | (op, fl) :: rest =>
      let '(e, w1) := run_op T op fl w in
      let '(es, w2) := run_ops T rest w1 in
      (e :: es, w2)
  end.

(* ---- final state dump ---- *)
Fixpoint seqN (a : N) (n : nat) : list N := match n with O => [] | S k => a :: seqN (a + 1) k end.
Definition dump_regs (c : chip) : list N := map (regs c) (seqN 0 128).
Definition dump_shadow (d : Config) : list N :=
  flat_map (fun a => match find (fun p => N.eqb (fst p) a) (Config_dump d) with Some p => [snd p] | None => [] end) (seqN 0 128).

(* ---- a whole program ---- *)
Record scenario : Type := mk_scenario {
  sc_ro : list N;           (* read-only registers 0x00 .. 0x18 (25 bytes) *)
  sc_fifo : list N;
  sc_pos : list N;
  sc_neg : list N
}.
Definition scenario_chip (s : scenario) : chip :=
  power_on (fun a => nth (N.to_nat a) (sc_ro s) 0) (sc_fifo s) (sc_pos s) (sc_neg s).

Definition init_world (i2c_addr : N) (s : scenario) : world :=
  mk_world Config_default (mk_hstate (scenario_chip s) [] 0 [] false WIdle i2c_addr 0) [].

Definition run_program (i2c_addr : N) (s : scenario) (c : ctor) (cfl : list N) (ops : list (api_op * list N))
  : list (list N) :=
  let T := transport_of i2c_addr c in
  let o := run T (ctor_prog c) (begin_call cfl (init_world i2c_addr s)) in
  let w := world_of o in
  match o with
  | Done _ _ =>
      let '(es, w') := run_ops T ops w in
      enc_call o :: es ++ [dump_regs (wchip w'); dump_shadow (shadow w'); [enc_bool (cs_low (hst w'))]; [stray (hst w')]]
  | _ => [enc_call o; dump_regs (wchip w); [enc_bool (cs_low (hst w))]; [stray (hst w)]]
  end.
