(* Reflect.v — kernel-checked exhaustive evaluation over machine-integer domains
   (DESIGN.md section 6.1): lifting lemmas and the `finite_reflect` tactic. *)
Require Import BMA.lib.Base.
From Coq Require Import Lia.
Open Scope N_scope.

Class BEq (A : Type) := { beq : A -> A -> bool; beq_eq : forall a b, beq a b = true -> a = b }.
Lemma beq_N_ok a b : N.eqb a b = true -> a = b. Proof. apply N.eqb_eq. Qed.
#[export] Instance BEq_N : BEq N := {| beq := N.eqb; beq_eq := beq_N_ok |}.
Lemma beq_Z_ok a b : Z.eqb a b = true -> a = b. Proof. apply Z.eqb_eq. Qed.
#[export] Instance BEq_Z : BEq Z := {| beq := Z.eqb; beq_eq := beq_Z_ok |}.
#[export] Instance BEq_bool : BEq bool := {| beq := Bool.eqb; beq_eq := Bool.eqb_prop |}.
Lemma beq_unit_ok (a b : unit) : true = true -> a = b. Proof. destruct a, b; reflexivity. Qed.
#[export] Instance BEq_unit : BEq unit := {| beq := fun _ _ => true; beq_eq := beq_unit_ok |}.
Definition option_beq {A} `{BEq A} (a b : option A) : bool :=
  match a with
  | Some x => match b with Some y => beq x y | None => false end
  | None => match b with Some _ => false | None => true end
  end.
Lemma option_beq_ok {A} `{BEq A} (a b : option A) : option_beq a b = true -> a = b.
Proof. destruct a, b; cbn; intro E; try discriminate; try reflexivity. f_equal. apply beq_eq; assumption. Qed.
#[export] Instance BEq_option {A} `{BEq A} : BEq (option A) := {| beq := option_beq; beq_eq := option_beq_ok |}.
Definition prod_beq {A B} `{BEq A} `{BEq B} (a b : A * B) : bool := beq (fst a) (fst b) && beq (snd a) (snd b).
Lemma prod_beq_ok {A B} `{BEq A} `{BEq B} (a b : A * B) : prod_beq a b = true -> a = b.
Proof. destruct a, b; unfold prod_beq; cbn. intro E. apply andb_prop in E. destruct E. f_equal; apply beq_eq; assumption. Qed.
#[export] Instance BEq_prod {A B} `{BEq A} `{BEq B} : BEq (A * B) := {| beq := prod_beq; beq_eq := prod_beq_ok |}.
Definition res_beq {A} `{BEq A} (a b : res A) : bool :=
  match a with
  | Ok x => match b with Ok y => beq x y | _ => false end
  | Panic => match b with Panic => true | _ => false end
  | NoFuel => match b with NoFuel => true | _ => false end
  end.
Lemma res_beq_ok {A} `{BEq A} (a b : res A) : res_beq a b = true -> a = b.
Proof. destruct a, b; cbn; intro E; try discriminate; try reflexivity. f_equal. apply beq_eq; assumption. Qed.
#[export] Instance BEq_res {A} `{BEq A} : BEq (res A) := {| beq := res_beq; beq_eq := res_beq_ok |}.
Fixpoint list_beq {A} `{BEq A} (l1 l2 : list A) : bool :=
  match l1 with
  | [] => match l2 with [] => true | _ => false end
  | x :: xs => match l2 with y :: ys => beq x y && list_beq xs ys | [] => false end
  end.
Lemma list_beq_ok {A} `{BEq A} (a b : list A) : list_beq a b = true -> a = b.
Proof.
  revert b. induction a as [|x xs IH]; intros [|y ys] E; cbn in E; try discriminate; try reflexivity.
  apply andb_prop in E. destruct E. f_equal; [apply beq_eq; assumption | apply IH; assumption].
Qed.
#[export] Instance BEq_list {A} `{BEq A} : BEq (list A) := {| beq := list_beq; beq_eq := list_beq_ok |}.

(* --- one variable --- *)
Lemma u8_eq {A} `{BEq A} (f g : N -> A) :
  all_u8 (fun x => beq (f x) (g x)) = true -> forall x, x < 256 -> f x = g x.
Proof. intros Hc x Hx. apply beq_eq. exact (all_u8_sound (fun x => beq (f x) (g x)) Hc x Hx). Qed.
Lemma u16_eq {A} `{BEq A} (f g : N -> A) :
  all_u16 (fun x => beq (f x) (g x)) = true -> forall x, x < 65536 -> f x = g x.
Proof. intros Hc x Hx. apply beq_eq. exact (all_u16_sound (fun x => beq (f x) (g x)) Hc x Hx). Qed.
Lemma i16_eq {A} `{BEq A} (f g : Z -> A) :
  all_i16 (fun x => beq (f x) (g x)) = true -> forall x, (-32768 <= x < 32768)%Z -> f x = g x.
Proof. intros Hc x Hx. apply beq_eq. exact (all_i16_sound (fun x => beq (f x) (g x)) Hc x Hx). Qed.
Lemma i8_eq {A} `{BEq A} (f g : Z -> A) :
  all_i8 (fun x => beq (f x) (g x)) = true -> forall x, (-128 <= x < 128)%Z -> f x = g x.
Proof. intros Hc x Hx. apply beq_eq. exact (all_i8_sound (fun x => beq (f x) (g x)) Hc x Hx). Qed.
Lemma bool_eq {A} `{BEq A} (f g : bool -> A) :
  all_bool (fun x => beq (f x) (g x)) = true -> forall x, f x = g x.
Proof. intros Hc x. apply beq_eq. exact (all_bool_sound (fun x => beq (f x) (g x)) Hc x). Qed.
(* boolean-valued predicates *)
Lemma u8_true (f : N -> bool) : all_u8 f = true -> forall x, x < 256 -> f x = true.
Proof. exact (all_u8_sound f). Qed.
Lemma u16_true (f : N -> bool) : all_u16 f = true -> forall x, x < 65536 -> f x = true.
Proof. exact (all_u16_sound f). Qed.
Lemma i16_true (f : Z -> bool) : all_i16 f = true -> forall x, (-32768 <= x < 32768)%Z -> f x = true.
Proof. exact (all_i16_sound f). Qed.
Lemma i8_true (f : Z -> bool) : all_i8 f = true -> forall x, (-128 <= x < 128)%Z -> f x = true.
Proof. exact (all_i8_sound f). Qed.
Lemma bool_true (f : bool -> bool) : all_bool f = true -> forall x, f x = true.
Proof. exact (all_bool_sound f). Qed.

(* --- turn a goal `L = R` over ranged variables into one boolean evaluation ---
   Usage: all ranged variables x with hypotheses `x < 256`, `x < 65536`,
   `(-32768 <= x < 32768)%Z`, `(-128 <= x < 128)%Z`, or of type bool, that occur in the
   goal are reverted one at a time (innermost first) and replaced by the exhaustive check;
   the final closed boolean is evaluated by the VM. *)
Ltac reflect_step :=
  match goal with
  | H : ?x < 256 |- _ => revert x H;
      match goal with
      | |- forall y, y < 256 -> @?f y = @?g y => refine (u8_eq f g _)
      | |- forall y, y < 256 -> @?f y = true => refine (u8_true f _)
      end
  | H : ?x < 65536 |- _ => revert x H;
      match goal with
      | |- forall y, y < 65536 -> @?f y = @?g y => refine (u16_eq f g _)
      | |- forall y, y < 65536 -> @?f y = true => refine (u16_true f _)
      end
  | H : (-32768 <= ?x < 32768)%Z |- _ => revert x H;
      match goal with
      | |- forall y, (-32768 <= y < 32768)%Z -> @?f y = @?g y => refine (i16_eq f g _)
      | |- forall y, (-32768 <= y < 32768)%Z -> @?f y = true => refine (i16_true f _)
      end
  | H : (-128 <= ?x < 128)%Z |- _ => revert x H;
      match goal with
      | |- forall y, (-128 <= y < 128)%Z -> @?f y = @?g y => refine (i8_eq f g _)
      | |- forall y, (-128 <= y < 128)%Z -> @?f y = true => refine (i8_true f _)
      end
  | x : bool |- _ => revert x;
      match goal with
      | |- forall y : bool, @?f y = @?g y => refine (bool_eq f g _)
      | |- forall y : bool, @?f y = true => refine (bool_true f _)
      end
  end.

(* drop ranged variables that do not occur in the goal (they would multiply the evaluation) *)
Ltac clear_unused :=
  repeat match goal with
  | H : ?x < _ |- _ => is_var x; clear H; clear x
  | H : (_ <= ?x < _)%Z |- _ => is_var x; clear H; clear x
  | x : bool |- _ => clear x
  end.

Ltac finite_reflect :=
  clear_unused;
  repeat reflect_step;
  vm_compute; reflexivity.

(* From a "defined mask" hypothesis to a range *)
Lemma land_le_r a m : N.land a m <= m.
Proof.
  destruct (N.leb_spec (N.land a m) m) as [H|H]; [exact H|]. exfalso.
  assert (E : N.land (N.land a m) m = N.land a m) by (rewrite <- N.land_assoc, N.land_diag; reflexivity).
  pose proof (N.ldiff_le (N.land a m) m) as Hl.
  assert (Hz : N.ldiff (N.land a m) m = 0).
  { apply N.bits_inj. intro n. rewrite N.ldiff_spec, N.land_spec, N.bits_0. destruct (N.testbit a n), (N.testbit m n); reflexivity. }
  apply Hl in Hz. lia.
Qed.
Lemma masked_lt a m : N.land a m = a -> m < 256 -> a < 256.
Proof. intros H Hm. pose proof (land_le_r a m). lia. Qed.
