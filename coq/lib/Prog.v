(* Prog.v — the free monad in which the generated model of the effectful code lives.
   A `prog A` is what a driver operation does at register level: acknowledged
   writes, burst reads, delays, reads and updates of the shadow configuration.
   `?` on an interface call is the absence of any handler: a continuation only
   ever receives a successful result (DESIGN.md section 4.1). Hand-written. *)
Require Import BMA.lib.Base BMA.gen.GenTypes.
Open Scope N_scope.

Inductive prog (A : Type) : Type :=
| Ret (a : A)
| Fail (e : BMA400Error)                       (* Err(..) produced by the driver itself *)
| PanicP                                       (* a Rust panic *)
| FuelP                                        (* loop fuel exhausted (excluded by theorem) *)
| Write (addr val : N) (k : prog A)            (* interface.write_register(r)?  *)
| Read (addr n : N) (k : list N -> prog A)     (* interface.read_register(R, buf)?  (n = buf.len()) *)
| Delay (ms : N) (k : prog A)                  (* timer.delay_ms(ms) *)
| Get (k : Config -> prog A)                   (* read the shadow *)
| Put (c : Config) (k : prog A).               (* replace the shadow *)
Arguments Ret {A} a. Arguments Fail {A} e. Arguments PanicP {A}. Arguments FuelP {A}.
Arguments Write {A} addr val k. Arguments Read {A} addr n k. Arguments Delay {A} ms k.
Arguments Get {A} k. Arguments Put {A} c k.

Fixpoint bind {A B} (p : prog A) (f : A -> prog B) : prog B :=
  match p with
  | Ret a => f a
  | Fail e => Fail e
  | PanicP => PanicP
  | FuelP => FuelP
  | Write a v k => Write a v (bind k f)
  | Read a n k => Read a n (fun l => bind (k l) f)
  | Delay ms k => Delay ms (bind k f)
  | Get k => Get (fun c => bind (k c) f)
  | Put c k => Put c (bind k f)
  end.

Notation "x <- p ;; k" := (bind p (fun x => k)) (at level 61, p at next level, right associativity).
Notation "' pat <- p ;; k" := (bind p (fun x => match x with pat => k end))
  (at level 61, pat pattern, p at next level, right associativity).

Definition write_register (a v : N) : prog unit := Write a v (Ret tt).
Definition read_register (a n : N) : prog (list N) := Read a n (fun l => Ret l).
Definition delay_ms (ms : N) : prog unit := Delay ms (Ret tt).
Definition get_shadow : prog Config := Get (fun c => Ret c).
Definition put_shadow (c : Config) : prog unit := Put c (Ret tt).
Definition modify (f : Config -> Config) : prog unit := Get (fun c => Put (f c) (Ret tt)).
Definition lift_res {A} (r : res A) : prog A :=
  match r with Ok a => Ret a | Panic => PanicP | NoFuel => FuelP end.

(* register-level events, as seen between lib.rs/config and interface.rs *)
Inductive event : Type :=
| EvWrite (addr val : N)
| EvRead (addr n : N)
| EvDelay (ms : N).
