#!/usr/bin/env python3
"""vp — driver of the bma400-rs verification (DESIGN.md section 13).

  ./vp setup                         build everything from files on disk (offline)
  ./vp gen                           translate /repo/src, render the spec, sync the Coq tree
  ./vp make [targets...]             gen + make the given .vo targets (default: all)
  ./vp check Cnn [--tier quick|thorough]
  ./vp replay Cnn FILE

Exit codes of `check`: 0 property held; 1 + `VIOLATION property=.. replay=..`; 2 machinery broken.
"""
import signal, fcntl, glob, hashlib, json, os, re, shutil, subprocess, sys, time

VERIF = os.path.dirname(os.path.dirname(os.path.abspath(__file__)))
REPO = os.environ.get('VERIF_REPO', '/repo')
BUILD = os.path.join(VERIF, 'build')
COQ = os.path.join(BUILD, 'coq')
ENV = dict(os.environ, CARGO_NET_OFFLINE='true')
NPROC = '16'


def log(*a):
    print(*a, file=sys.stderr, flush=True)


def run(cmd, cwd=None, timeout=None, env=None, capture=True):
    """returns (rc, output); rc 124 on timeout (the whole process group is killed, so that no compiler is left running)"""
    p = subprocess.Popen(cmd, cwd=cwd, env=env or ENV, shell=isinstance(cmd, str), start_new_session=True,
                         stdout=subprocess.PIPE if capture else None, stderr=subprocess.STDOUT if capture else None,
                         text=True, errors='replace')
    try:
        out, _ = p.communicate(timeout=timeout)
        return p.returncode, out or ''
    except subprocess.TimeoutExpired:
        try:
            os.killpg(p.pid, signal.SIGKILL)
        except ProcessLookupError:
            pass
        try:
            out, _ = p.communicate(timeout=30)
        except Exception:
            out = ''
        return 124, out or ''


def write_if_changed(path, text):
    try:
        if open(path).read() == text:
            return False
    except (FileNotFoundError, UnicodeDecodeError):
        pass
    os.makedirs(os.path.dirname(path), exist_ok=True)
    with open(path, 'w') as f:
        f.write(text)
    return True


class Lock:
    def __enter__(self):
        os.makedirs(BUILD, exist_ok=True)
        self.f = open(os.path.join(BUILD, '.lock'), 'w')
        fcntl.flock(self.f, fcntl.LOCK_EX)
        return self

    def __exit__(self, *a):
        fcntl.flock(self.f, fcntl.LOCK_UN)
        self.f.close()


# ----------------------------------------------------------------------------- translator
def build_rs2v():
    rc, out = run(['cargo', 'build', '--offline', '--quiet'], cwd=os.path.join(VERIF, 'rs2v'), timeout=900)
    if rc != 0:
        raise Broken('rs2v does not build:\n' + out[-3000:])


class Broken(Exception):
    """the machinery itself failed (exit 2)"""


class TieBroken(Exception):
    """translation / proof obligation / correspondence no longer checks"""
    def __init__(self, what, detail=''):
        super().__init__(what)
        self.what, self.detail = what, detail


def translate():
    """rs2v /repo/src -> build/coq/gen (files rewritten only when their content changed)"""
    build_rs2v()
    tmp = os.path.join(BUILD, 'gen_tmp')
    shutil.rmtree(tmp, ignore_errors=True)
    os.makedirs(tmp)
    rc, out = run([os.path.join(VERIF, 'rs2v/target/debug/rs2v'), os.path.join(REPO, 'src'), tmp], timeout=120)
    if rc == 3:
        m = re.search(r'rs2v: unsupported: (.*)', out)
        raise TieBroken('translator: ' + (m.group(1) if m else 'unsupported construct'), out[-2000:])
    if rc != 0:
        raise TieBroken('translator failed (rc %d)' % rc, out[-3000:])
    gen = os.path.join(COQ, 'gen')
    os.makedirs(gen, exist_ok=True)
    for f in os.listdir(tmp):
        write_if_changed(os.path.join(gen, f), open(os.path.join(tmp, f)).read())
    shutil.rmtree(tmp, ignore_errors=True)
    return out.strip()


def render_spec():
    rc, out = run([sys.executable, os.path.join(VERIF, 'spec/gen_spec.py'), os.path.join(COQ, 'gen/meta.json'),
                   os.path.join(COQ, 'spec')], timeout=120)
    if rc == 4:
        raise TieBroken('spec: ' + out.strip().splitlines()[-1], out)
    if rc != 0:
        raise Broken('gen_spec failed:\n' + out[-3000:])
    return out.strip()


def sync_coq():
    """copy the hand-written Coq sources into the build tree, write _CoqProject and the Makefile"""
    src = os.path.join(VERIF, 'coq')
    changed = False
    for root, _dirs, files in os.walk(src):
        for f in files:
            if f.endswith('.v'):
                rel = os.path.relpath(os.path.join(root, f), src)
                write_if_changed(os.path.join(COQ, rel), open(os.path.join(root, f)).read())
    # remove stale copies of hand-written files that no longer exist
    for sub in ('lib', 'proofs', 'props', 'hand'):
        for f in glob.glob(os.path.join(COQ, sub, '*.v')):
            if not os.path.exists(os.path.join(src, sub, os.path.basename(f))):
                for g in glob.glob(f[:-2] + '.*') + glob.glob(os.path.join(COQ, sub, '.' + os.path.basename(f)[:-2] + '.aux')):
                    os.remove(g)
    vfiles = sorted(os.path.relpath(p, COQ) for p in glob.glob(os.path.join(COQ, '*', '*.v')))
    proj = '-R . BMA\n' + '\n'.join(vfiles) + '\n'
    if write_if_changed(os.path.join(COQ, '_CoqProject'), proj) or not os.path.exists(os.path.join(COQ, 'Makefile')):
        rc, out = run(['coq_makefile', '-f', '_CoqProject', '-o', 'Makefile'], cwd=COQ, timeout=60)
        if rc != 0:
            raise Broken('coq_makefile failed:\n' + out)
    return vfiles


def gen_api():
    os.makedirs(os.path.join(VERIF, 'harness/src'), exist_ok=True)
    rc, out = run([sys.executable, os.path.join(VERIF, 'tools/gen_api.py'), os.path.join(COQ, 'gen/meta.json'),
                   os.path.join(COQ, 'gen/GenTypes.v'), os.path.join(COQ, 'gen/GenApi.v'),
                   os.path.join(VERIF, 'harness/src/dispatch_gen.rs'), os.path.join(BUILD, 'api.json')], timeout=60)
    if rc != 0:
        raise TieBroken('api catalogue: ' + (out.strip().splitlines() or ['?'])[-1], out)
    return out.strip()


def gen_wf():
    rc, out = run([sys.executable, os.path.join(VERIF, 'tools/gen_wf.py'), os.path.join(BUILD, 'api.json'),
                   os.path.join(COQ, 'gen/GenTypes.v'), os.path.join(COQ, 'spec/WfThms.v'), 'BMA.proofs.'], timeout=60)
    if rc != 0:
        raise TieBroken('byte-range theorems: ' + (out.strip().splitlines() or ['?'])[-1], out)


def gen():
    for sub in ('gen', 'spec', 'lib', 'proofs', 'props'):
        os.makedirs(os.path.join(COQ, sub), exist_ok=True)
    t = translate()
    s = render_spec()
    a = gen_api()
    gen_wf()
    sync_coq()
    return t, s + '\n' + a


def make(targets, timeout=3000):
    """make the given targets; returns (ok, output). Output of each coqc is kept in <file>.out by the Makefile? no:
    we capture make's combined output."""
    cmd = ['make', '-j' + NPROC, '-k'] + list(targets)
    rc, out = run(cmd, cwd=COQ, timeout=timeout)
    return rc == 0, out


# ----------------------------------------------------------------------------- commands
def cmd_setup(_args):
    with Lock():
        t0 = time.time()
        log('[setup] translator + spec + Coq tree')
        t, s = gen()
        log('  ', t)
        log('  ', s)
        ok, out = make(['all'])
        if not ok:
            log(out[-6000:])
            log('[setup] Coq build FAILED')
            return 2
        log('[setup] Coq build ok (%.0f s)' % (time.time() - t0))
        sys.path.insert(0, os.path.join(VERIF, 'tools'))
        import corr
        for var in ('default', 'alt'):
            ok, out = corr.build_harness(var)
            if not ok:
                log(out[-4000:])
                log('[setup] harness build FAILED (%s)' % var)
                return 2
        log('[setup] harness built (%.0f s)' % (time.time() - t0))
    return 0


def cmd_gen(_args):
    with Lock():
        t, s = gen()
        print(t)
        print(s)
    return 0


def cmd_make(args):
    with Lock():
        gen()
        ok, out = make(args or ['all'])
        print(out[-8000:])
        return 0 if ok else 1


def main():
    if len(sys.argv) < 2:
        print(__doc__)
        return 2
    cmd, args = sys.argv[1], sys.argv[2:]
    table = {'setup': cmd_setup, 'gen': cmd_gen, 'make': cmd_make}
    try:
        from vp_check import cmd_check, cmd_replay
        table['check'] = cmd_check
        table['replay'] = cmd_replay
    except ImportError:
        pass
    if cmd not in table:
        print(__doc__)
        return 2
    try:
        return table[cmd](args)
    except Broken as e:
        log('vp: machinery broken:', e)
        return 2


if __name__ == '__main__':
    sys.exit(main())
