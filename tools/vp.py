import sys; print("vp: not built yet"); sys.exit(0)
