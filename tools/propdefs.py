"""Per-property definitions: proof targets, audited theorems, scoped correspondence generators and the
implementation-side monitors (used as smoke runs and as the search for a failing input when a tie breaks)."""
import json, os, random
import progs as P
import corr, implrun, dseval
from progs import Call, Prog

ds = P.ds
COQ = corr.COQ


# ----------------------------------------------------------------------------- helpers
def fresh(pid, calls, ctor='i2c', **kw):
    return Prog(pid, ctor, calls, **kw)


def run_monitor_programs(programs, variant='default'):
    impl = corr.run_impl(programs, variant, dump_each=True, tag='mon')
    return {p.id: implrun.records(p, impl[p.id]) for p in programs}


def violation(pid, prog, message, site=None, extra=None, twin=None):
    v = {'message': message, 'replay': {'program': prog_to_json(prog)}, 'program': prog.describe()}
    if twin is not None:
        v['replay']['twin'] = prog_to_json(twin)
    if site:
        v['site'] = site
    if extra:
        v.update(extra)
    return v


def prog_to_json(p):
    return {'id': p.id, 'ctor': p.ctor, 'ctor_faults': p.ctor_faults, 'ro': p.ro.hex(), 'fifo': p.fifo.hex(), 'pos': p.pos.hex(),
            'neg': p.neg.hex(), 'calls': [{'op': c.op, 'args': c.args, 'setters': c.setters, 'faults': c.faults} for c in p.calls]}


def prog_from_json(j):
    return Prog(j['id'], j['ctor'], [Call(c['op'], c['args'], [(m, a) for m, a in c['setters']], c['faults']) for c in j['calls']],
                bytes.fromhex(j['ro']), bytes.fromhex(j['fifo']), bytes.fromhex(j['pos']), bytes.fromhex(j['neg']), j['ctor_faults'])


def setter_theorems():
    d = json.load(open(os.path.join(COQ, 'spec/setter_spec.json')))
    return [(m, n) for m, n in d['lemma_mods']]


ALL_ARGS = {
    'bool': [False, True],
    'u8': list(range(256)),
    'i8': list(range(-128, 128)),
}
BOUNDARY = {
    'u8': [0, 1, 2, 7, 8, 9, 15, 16, 127, 128, 254, 255],
    'u16': [0, 1, 15, 16, 255, 256, 257, 1023, 1024, 1025, 2047, 2048, 4094, 4095, 4096, 4097, 0x8000, 65535],
    'i8': [-128, -127, -1, 0, 1, 126, 127],
    'i16': [-32768, -4097, -2049, -2048, -2047, -257, -256, -1, 0, 1, 255, 256, 2046, 2047, 2048, 4095, 32767],
}


def arg_values(api, rng, kind, thorough):
    if kind == 'bool':
        return [False, True]
    if kind.startswith('enum:'):
        en = kind.split(':')[1]
        out = []
        for name, pay in api.enums[en]:
            if pay:
                out += ['%s.%s' % (name, s) for s, _ in api.enums[pay[0]]]
            else:
                out.append(name)
        return out
    if thorough and kind in ALL_ARGS:
        return ALL_ARGS[kind]
    vals = list(BOUNDARY[kind])
    lo, hi = {'u8': (0, 255), 'u16': (0, 65535), 'i8': (-128, 127), 'i16': (-32768, 32767)}[kind]
    vals += [rng.randint(lo, hi) for _ in range(40 if thorough else 3)]
    return vals


def background_loads(api, rng, maker, zero=False):
    """`load` calls giving the builder's block a random well-formed content (coherent shadow and chip)"""
    bname, variant = dseval.MAKER_BUILDER[maker]
    calls = []
    for _f, _reg, a, m in dseval.block_regs(bname, variant):
        v = 0 if zero else rng.getrandbits(8) & m
        if a == 0x1A:
            v = (v & 0xF0) | rng.choice([5, 6, 7, 8, 9, 10, 11])       # the ODR field only holds its seven codes
        calls.append(Call('load', [a, v]))
    return calls


# ----------------------------------------------------------------------------- C02 / C09: setters
def setter_programs(api, rng, n, thorough=False):
    """one program per (setter, argument tuple, background): loads, then the single-setter request"""
    out = []
    makers = sorted(api.maker)
    k = 0
    while len(out) < n:
        for mk in makers:
            b = api.maker[mk]
            for s in b['setters']:
                args = [rng.choice(arg_values(api, rng, kind, thorough)) for _a, kind in s['args']]
                calls = background_loads(api, rng, mk)
                if mk in ('config_interrupts',):
                    # make the request acceptable whatever it enables: sources on filter 2, no tap at the wrong rate
                    calls += [Call('load', [0x3F, 0x10]), Call('load', [0x4A, 0x10]), Call('load', [0x56, 0x10])]
                calls.append(Call(mk, setters=[(s['method'], args)]))
                out.append(fresh('s%d' % k, calls, ctor=rng.choice(['i2c', 'spi'])))
                k += 1
                if len(out) >= n:
                    return out
    return out


def check_setter_program(prog, recs):
    """datasheet expectation for the last call of a setter program; returns a message or None"""
    r = recs[-1]
    call = prog.calls[-1]
    if r.status == 'panic':
        return 'panic in %r' % call
    if r.status == 'err':
        if r.err == 'ConfigBuildError':
            if r.regs != r.regs_before:
                return 'rejected request changed the device'
            return None
        return 'unexpected error %s' % r.result_str()
    before, after = r.regs_before, r.regs
    want = dseval.expected_block(call.op, call.setters, before)
    for a in range(128):
        exp = want.get(a, before[a])
        if after[a] != exp:
            return 'register 0x%02X = 0x%02X after %r, datasheet table says 0x%02X (was 0x%02X)' % (a, after[a], call, exp, before[a])
    for (a, _rst, m) in ds.REGS.values():
        if a < 128 and after[a] & ~m & 0xFF:
            return 'reserved bit set in register 0x%02X: 0x%02X' % (a, after[a])
    return None


def setter_monitor(pid):
    def mon(api, rng, budget, variants):
        thorough = budget >= 20000
        programs = setter_programs(api, rng, budget, thorough)
        # numeric setters from the reset content and as a second request after another value: write() compares every register of a
        # split value with the content it believes the device holds
        k = 0
        for mk in sorted(api.maker):
            for st in api.maker[mk]['setters']:
                kinds = [kind for _a, kind in st['args']]
                if not kinds or any(kd not in BOUNDARY for kd in kinds):
                    continue
                for v in BOUNDARY[kinds[0]]:
                    args = [v if kd == kinds[0] else rng.choice(BOUNDARY[kd]) for kd in kinds]
                    calls = background_loads(api, rng, mk, zero=True) + [Call(mk, setters=[(st['method'], args)])]
                    programs.append(fresh('sz%d' % k, calls, ctor='i2c'))
                    k += 1
                for _ in range(12 if not thorough else 200):
                    a1 = [rng.choice(BOUNDARY[kd]) for kd in kinds]
                    a2 = [rng.choice(BOUNDARY[kd]) for kd in kinds]
                    calls = background_loads(api, rng, mk, zero=True) + [Call(mk, setters=[(st['method'], a1)]), Call(mk, setters=[(st['method'], a2)])]
                    programs.append(fresh('sz%d' % k, calls, ctor='i2c'))
                    k += 1
        recs = run_monitor_programs(programs)
        viol = []
        for p in programs:
            rs = recs[p.id]
            if len(rs) != len(p.calls) + 1:
                continue
            msg = check_setter_program(p, rs)
            if msg:
                viol.append(violation(pid, p, msg))
        return {'cases': len(programs), 'violations': viol, 'samples': [p.describe() for p in programs[:2]],
                'notes': ['every public setter with boundary and random arguments on random well-formed backgrounds; '
                          'expected bytes from spec/datasheet.py']}
    return mon


def replay(pid, api, rp):
    """re-run a recorded failing input on the implementation with the property's own judgement"""
    prog = prog_from_json(rp['program'])
    if 'twin' in rp:
        prog.twin = prog_from_json(rp['twin'])
    recs = run_monitor_programs([prog])[prog.id]
    judge = PROPS[pid].get('judge')
    msg = judge(prog, recs) if judge else None
    return {'program': prog.describe(), 'results': [r.result_str() for r in recs], 'violates': bool(msg), 'message': msg}


PROPS = {}

PROPS['C02'] = {
    'targets': ['spec/SetterSpec.vo', 'spec/BuilderProps.vo'],
    'theorems': lambda: setter_theorems() + builder_theorems(),
    'corr_gen': lambda api, rng, n: setter_programs(api, rng, n),
    'corr_n': (300, 6000),
    'monitor': setter_monitor('C02'),
    'monitor_n': (600, 40000),
    'judge': check_setter_program,
    'statement': 'for every public builder setter (list checked against the code), every block content within byte range and every '
                 'argument of the Rust type: the setter returns without panic the block in which exactly the field bits are replaced by '
                 'the datasheet code (whole-register fields: the register equals the code), codes stay inside their mask and the defined '
                 'bits; register addresses, reset values and defined masks equal the datasheet table',
    'rule': 'obligations = per-setter theorems generated from spec/datasheet.py and proved on the regenerated model; correspondence and '
            'monitor programs are single-setter requests on random backgrounds',
    'assumptions': ['the write() path that carries the setter result to the device is covered by C01/C08; here it is exercised by the '
                    'correspondence programs and the monitor only'],
}

PROPS['C09'] = {
    'targets': ['props/C09.vo'],
    'theorems': [('props.C09', n) for n in ['c09_fifo_watermark', 'c09_auto_lp_timeout', 'c09_auto_wkup_period', 'c09_wkup_num_samples',
                                            'c09_wkup_ref_accel', 'c09_gen1_ref_accel', 'c09_gen2_ref_accel', 'c09_orient_ref_accel',
                                            'c09_gen1_duration', 'c09_gen2_duration', 'c09_thresholds_verbatim']],
    'corr_gen': lambda api, rng, n: numeric_setter_programs(api, rng, n),
    'corr_n': (300, 6000),
    'monitor': None,   # filled below
    'monitor_n': (600, 40000),
    'judge': check_setter_program,
    'statement': 'for all values of every numeric argument type and every co-resident byte: watermark lo+256*hi = min(v,1024); timeout / '
                 'wake-up period 16*r0 + r1>>4 = min(v,4095) with the low nibble of r1 unchanged; samples field+1 = clamp(v,1,8), no '
                 'underflow, other bits unchanged; 12-bit references sign-extend to clamp(v,-2048,2047) with msb<16; wake-up reference '
                 'to_signed 8 = v; thresholds and durations verbatim (16-bit durations big-endian)',
    'rule': 'obligations = reassembly theorems over the whole argument type (2^16 / 2^8 values, evaluated in the kernel)',
}


def numeric_setter_programs(api, rng, n, thorough=False):
    out = []
    k = 0
    numeric = []
    for mk in sorted(api.maker):
        for s in api.maker[mk]['setters']:
            if any(kind in ('u8', 'u16', 'i8', 'i16') for _a, kind in s['args']):
                numeric.append((mk, s))
    while len(out) < n:
        for mk, s in numeric:
            args = [rng.choice(arg_values(api, rng, kind, thorough)) for _a, kind in s['args']]
            calls = background_loads(api, rng, mk) + [Call(mk, setters=[(s['method'], args)])]
            out.append(fresh('n%d' % k, calls, ctor=rng.choice(['i2c', 'spi'])))
            k += 1
            if len(out) >= n:
                break
    return out


def numeric_monitor(api, rng, budget, variants):
    thorough = budget >= 20000
    programs = numeric_setter_programs(api, rng, budget, thorough)
    recs = run_monitor_programs(programs)
    viol = []
    for p in programs:
        rs = recs[p.id]
        if len(rs) != len(p.calls) + 1:
            continue
        msg = check_setter_program(p, rs)
        if msg:
            viol.append(violation('C09', p, msg))
    return {'cases': len(programs), 'violations': viol, 'samples': [p.describe() for p in programs[:2]],
            'notes': ['every numeric setter at the documented limits, limit +-1, type extremes and random values, on random backgrounds']}


PROPS['C09']['monitor'] = numeric_monitor


# ----------------------------------------------------------------------------- C17 / C03: getters
def _bit(b, i):
    return (b >> i) & 1


def _s8(b):
    return b - 256 if b >= 128 else b


def sext12(lsb, msb):
    v = lsb + 256 * (msb & 15)
    return v - 4096 if v >= 2048 else v


# datasheet: getter -> (address, burst length, {accessor or '' : function of the bytes read})
GETTER_SPEC = {
    'get_id': (0x00, 1, {'': lambda b, regs: b[0]}),
    'get_cmd_error': (0x02, 1, {'': lambda b, regs: _bit(b[0], 1)}),
    'get_status': (0x03, 1, {'drdy_stat': lambda b, regs: _bit(b[0], 7), 'cmd_rdy': lambda b, regs: _bit(b[0], 4),
                              'power_mode': lambda b, regs: ['Sleep', 'LowPower', 'Normal', 'Normal'][(b[0] >> 1) & 3],
                              'int_active': lambda b, regs: _bit(b[0], 0)}),
    'get_sensor_clock': (0x0A, 3, {'': lambda b, regs: b[0] + 256 * b[1] + 65536 * b[2]}),
    'get_reset_status': (0x0D, 1, {'': lambda b, regs: _bit(b[0], 0)}),
    'get_int_status0': (0x0E, 1, dict([(n, (lambda i: lambda b, regs: _bit(b[0], i))(i)) for n, i in
                                       [('drdy_stat', 7), ('fwm_stat', 6), ('ffull_stat', 5), ('ieng_overrun_stat', 4), ('gen2_stat', 3),
                                        ('gen1_stat', 2), ('orientch_stat', 1), ('wkup_stat', 0)]])),
    'get_int_status1': (0x0F, 1, {'ieng_overrun_stat': lambda b, regs: _bit(b[0], 4), 'd_tap_stat': lambda b, regs: _bit(b[0], 3),
                                   's_tap_stat': lambda b, regs: _bit(b[0], 2),
                                   'step_int_stat': lambda b, regs: ['None', 'OneStepDetect', 'ManyStepDetect', 'ManyStepDetect'][b[0] & 3]}),
    'get_int_status2': (0x10, 1, {'ieng_overrun_stat': lambda b, regs: _bit(b[0], 4), 'actch_z_stat': lambda b, regs: _bit(b[0], 2),
                                   'actch_y_stat': lambda b, regs: _bit(b[0], 1), 'actch_x_stat': lambda b, regs: _bit(b[0], 0)}),
    'get_raw_temp': (0x11, 1, {'': lambda b, regs: _s8(b[0]) + 100000}),
    'get_temp_celsius': (0x11, 1, {'': lambda b, regs: _s8(b[0]) + 46 + 100000}),
    'get_fifo_len': (0x12, 2, {'': lambda b, regs: (b[0] + 256 * b[1]) & 0x7FF}),
    'get_step_count': (0x15, 3, {'': lambda b, regs: b[0] + 256 * b[1] + 65536 * b[2]}),
    'get_step_activity': (0x18, 1, {'': lambda b, regs: ['Still', 'Walk', 'Run', 'Run'][b[0] & 3]}),
    'get_unscaled_data': (0x04, 6, {'xyz': lambda b, regs: [sext12(b[0], b[1]) + 100000, sext12(b[2], b[3]) + 100000, sext12(b[4], b[5]) + 100000]}),
    'get_data': (0x04, 6, {'xyz': lambda b, regs: [(1 << (regs[0x1A] >> 6)) * sext12(b[2 * i], b[2 * i + 1]) + 100000 for i in range(3)]}),
}


def expected_getter_payload(api, method, regs, prog=None):
    """regs: the register file before the call (list of 128)"""
    addr, n, fns = GETTER_SPEC[method]
    b = regs[addr:addr + n]
    if addr == 4 and prog is not None and regs[0x7D] in (7, 15):
        b = list(prog.pos if regs[0x7D] == 7 else prog.neg)     # the simulated chip answers to the self-test excitation
    if 'xyz' in fns:
        return addr, n, fns['xyz'](b, regs)
    shape = api.plain_ret.get(method) if hasattr(api, 'plain_ret') else None
    if shape and shape['accessors']:
        out = []
        for acc, ty in shape['accessors']:
            if acc not in fns:
                return addr, n, None     # an accessor the datasheet table does not know
            v = fns[acc](b, regs)
            if isinstance(v, str):
                v = [nm for nm, _p in api.enums[ty]].index(v)
            out.append(v)
        return addr, n, out
    v = fns[''](b, regs)
    if isinstance(v, str):
        ty = shape['type'] if shape else None
        v = [nm for nm, _p in api.enums[ty]].index(v)
    return addr, n, [v]


def check_getter_call(api, r, prog=None):
    """r: CallRec of a getter call without faults"""
    method = r.call.op
    if method not in GETTER_SPEC:
        return None
    if r.status != 'ok':
        return '%s returned %s' % (method, r.result_str())
    addr, n, want = expected_getter_payload(api, method, r.regs_before if r.regs_before else r.regs, prog)
    ev = implrun.reg_events(r.raw)
    if ev != [('r', addr, n)]:
        return '%s issued %r, datasheet says one read of %d byte(s) from 0x%02X' % (method, ev, n, addr)
    if want is None:
        return '%s: result shape unknown to the datasheet table' % method
    if list(r.payload) != list(want):
        return '%s decoded %r from %r, datasheet decode is %r' % (method, list(r.payload), (r.regs_before or r.regs)[addr:addr + n], want)
    return None


def getter_programs(api, rng, n, methods=None, exhaustive_byte=False):
    """programs that preload the read-only registers and call getters.  With exhaustive_byte every value 0..255 is
    placed in every read-only register (one program per value)."""
    methods = methods or [m for m in (api.plain + ['get_temp_celsius']) if m in GETTER_SPEC]
    out = []
    for k in range(n):
        if exhaustive_byte and k < 256:
            ro = bytearray([k] * 25)
            if k % 2:
                for i in range(25):
                    ro[i] = (k + 37 * i) & 0xFF if i not in (2, 3, 0x0D, 0x0E, 0x0F, 0x10, 0x11, 0x18) else k
        else:
            ro = bytearray(rng.getrandbits(8) for _ in range(25))
            if rng.random() < 0.3:
                ro[0x13] = rng.choice([0, 7, 8, 0xF8, 0xFF])
        ro[0] = 0x90
        calls = []
        if rng.random() < 0.8:
            calls.append(Call('config_accel', setters=[('with_scale', [rng.choice(['Range2G', 'Range4G', 'Range8G', 'Range16G'])])]))
        # the getters must not depend on the configuration: vary it (FIFO read circuit off, interrupts on, other blocks)
        if rng.random() < 0.5:
            calls.append(Call('config_fifo', setters=[('with_read_disabled', [rng.random() < 0.7])]))
        for _ in range(rng.choice([0, 0, 1, 2])):
            mk = rng.choice(sorted(api.maker))
            calls.append(Call(mk, setters=P.rand_setters(api, rng, api.maker[mk], rng.randint(1, 3))))
        ms = list(methods)
        rng.shuffle(ms)
        calls += [Call(m) for m in ms]
        out.append(Prog('g%d' % k, rng.choice(['i2c', 'spi']), calls, ro))
    return out


def getter_monitor(pid, methods_filter=None):
    def mon(api, rng, budget, variants):
        methods = [m for m in (api.plain + ['get_temp_celsius']) if m in GETTER_SPEC and (methods_filter is None or m in methods_filter)]
        programs = getter_programs(api, rng, max(256, budget // max(1, len(methods))), methods, exhaustive_byte=True)
        recs = run_monitor_programs(programs)
        viol, cases = [], 0
        for p in programs:
            for r in recs[p.id][1:]:
                if r.call.op in GETTER_SPEC:
                    cases += 1
                    msg = check_getter_call(api, r, p)
                    if msg:
                        viol.append(violation(pid, p, msg))
                        break
        return {'cases': cases, 'violations': viol[:20], 'samples': [p.describe() for p in programs[:1]],
                'notes': ['all 256 values of every single-byte read-only register; random multi-byte contents; expected decode from the '
                          'datasheet bit positions written in tools/propdefs.py; exactly one read of the datasheet (address, length)']}
    return mon


def judge_getters(prog, recs):
    api = P.Api()
    api.plain_ret = json.load(open(os.path.join(P.VERIF, 'build/api.json')))['plain_ret']
    for r in recs[1:]:
        if r.call.op in GETTER_SPEC and not r.call.faults:
            msg = check_getter_call(api, r, prog)
            if msg:
                return msg
    return None


C17_THEOREMS = ['c17_status', 'c17_int_status0', 'c17_int_status1', 'c17_int_status2', 'c17_cmd_error', 'c17_reset_status', 'c17_chip_id',
                'c17_step_activity', 'c17_fifo_len', 'c17_sensor_clock', 'c17_step_count', 'c17_raw_temp', 'c17_temp_celsius_model']
C17_METHODS = ['get_id', 'get_cmd_error', 'get_status', 'get_sensor_clock', 'get_reset_status', 'get_int_status0', 'get_int_status1',
               'get_int_status2', 'get_raw_temp', 'get_temp_celsius', 'get_fifo_len', 'get_step_count', 'get_step_activity']

PROPS['C17'] = {
    'targets': ['props/C17.vo'],
    'theorems': [('props.C17', n) for n in C17_THEOREMS],
    'corr_gen': lambda api, rng, n: getter_programs(api, rng, n, [m for m in C17_METHODS if m in api.plain + ['get_temp_celsius']], exhaustive_byte=True),
    'corr_n': (256, 2048),
    'monitor': getter_monitor('C17', C17_METHODS),
    'monitor_n': (3400, 40000),
    'judge': judge_getters,
    'statement': 'each status / interrupt-status / counter getter of the model is, by conversion, a single burst read of the datasheet '
                 '(address, length) followed by a pure decode, and the decode equals the datasheet bit positions / fields for all 256 byte '
                 'values (65,536 for the FIFO length; 24-bit counters by linear arithmetic); reserved code 3 of the 2-bit fields shares the '
                 'last variant; raw temperature is the signed byte',
    'rule': 'correspondence: one program per byte value 0..255 placed in every read-only register (exhaustive per single-byte getter, '
            'including the f32 Celsius line, which is hand-modelled as 2T = raw + 46) plus random contents',
    'assumptions': ['get_temp_celsius: the f32 arithmetic is not translated; the model states 2*T = raw + 46 and the 256 results are compared '
                    'with the real f32 computation by the correspondence check on every run'],
}

PROPS['C03'] = {
    'targets': ['props/C03.vo', 'props/C16.vo'],
    'theorems': [('props.C03', n) for n in ['c03_sample', 'c03_sample_range', 'c03_unscaled', 'c03_scaled', 'c03_default_range']]
                + [('props.C16', n) for n in ['c03_range_is_device', 'c16_every_history', 'c16_i2c_every_history']],
    'corr_gen': lambda api, rng, n: data_programs(api, rng, n),
    'corr_n': (300, 4000),
    'monitor': None,
    'monitor_n': (1500, 66000),
    'judge': judge_getters,
    'statement': 'Measurement::to_i16 equals the 12-bit sign extension of (lsb, low nibble of msb) on all 65,536 byte pairs; '
                 'get_unscaled_data / get_data are one 6-byte burst read from 0x04 followed by a panic-free decode that returns the '
                 'sign-extended samples times 2^(bits 7:6 of the shadow ACC_CONFIG1) for all data bytes and ranges; the reset value selects 4 g; '
                 'history clause: the shadow ACC_CONFIG1 is the device\'s after every history of calls with rejected / bus-failed requests, self-tests and resets '
                 '(c03_range_is_device on top of the C16 invariant, over T_reg and over I2C at HAL level)',
    'rule': 'monitor: byte pairs at the sign / nibble boundaries and random pairs on every axis x 4 ranges, after histories with rejected '
            'and bus-failed range changes, self-tests and soft resets',
}


def data_programs(api, rng, n, thorough=False):
    out = []
    edge = [0x00, 0x01, 0x07, 0x08, 0x0F, 0x10, 0x7F, 0x80, 0xF0, 0xF7, 0xF8, 0xFF, 0xA0, 0x5F]
    for k in range(n):
        ro = bytearray(rng.getrandbits(8) for _ in range(25))
        ro[0] = 0x90
        for i in (5, 7, 9):
            if rng.random() < 0.7:
                ro[i] = rng.choice(edge)
        for i in (4, 6, 8):
            if rng.random() < 0.5:
                ro[i] = rng.choice([0, 1, 0xFF, 0x80, 0x7F])
        calls = []
        for _ in range(rng.randint(0, 4)):
            kind = rng.random()
            if kind < 0.45:
                st = [('with_scale', [rng.choice(['Range2G', 'Range4G', 'Range8G', 'Range16G'])])]
                # several registers in one request, so that a fault can hit a write before or after the one carrying the range
                if rng.random() < 0.5:
                    st.append(('with_reg_dta_src', [rng.choice(['AccFilt1', 'AccFilt2', 'AccFilt2Lp'])]))
                if rng.random() < 0.5:
                    st.insert(0, ('with_power_mode', [rng.choice(['Sleep', 'LowPower', 'Normal'])]))
                calls.append(Call('config_accel', setters=st, faults=[rng.randint(0, 2)] if rng.random() < 0.35 else []))
            elif kind < 0.6:
                # a request that is rejected (tap needs 200 Hz / generic on filter 1 needs 100 Hz)
                calls.append(Call('config_interrupts', setters=[('with_d_tap_int', [True])]))
                calls.append(Call('config_accel', setters=[('with_odr', ['Hz50']), ('with_scale', ['Range16G'])]))
            elif kind < 0.75:
                calls.append(Call('perform_self_test', faults=[rng.randint(0, 18)] if rng.random() < 0.5 else []))
            elif kind < 0.85:
                calls.append(Call('soft_reset', faults=[rng.randint(0, 1)] if rng.random() < 0.3 else []))
            else:
                calls.append(Call(rng.choice(['get_data', 'get_unscaled_data'])))
        calls += [Call('get_data'), Call('get_unscaled_data')]
        pos, neg = P.selftest_bytes(rng, rng.random() < 0.5)
        # injected faults are bus faults: over SPI an index may hit a chip-select pin call, which is outside this property
        ctor = 'i2c' if any(c.faults for c in calls) else rng.choice(['i2c', 'spi'])
        out.append(Prog('d%d' % k, ctor, calls, ro, pos=pos, neg=neg))
    return out


def data_monitor(api, rng, budget, variants):
    programs = data_programs(api, rng, budget)
    recs = run_monitor_programs(programs)
    viol, cases = [], 0
    for p in programs:
        for r in recs[p.id][1:]:
            if r.call.op in ('get_data', 'get_unscaled_data') and not r.call.faults:
                cases += 1
                msg = check_getter_call(api, r, p)
                if msg:
                    viol.append(violation('C03', p, msg))
                    break
    return {'cases': cases, 'violations': viol[:20], 'samples': [p.describe() for p in programs[:2]],
            'notes': ['range factor judged against bits 7:6 of the simulated chip register 0x1A (the device, not the shadow)']}


PROPS['C03']['monitor'] = data_monitor


# ----------------------------------------------------------------------------- C04 / C05: FIFO
def fifo_served(prog_fifo, n):
    out, odd = [], False
    q = list(prog_fifo)
    for _ in range(n):
        if q:
            out.append(q.pop(0))
            odd = False
        else:
            out.append(0 if odd else 128)
            odd = not odd
    return out


def ds_payload(h):
    """payload bytes implied by a header byte, per the datasheet frame formats"""
    if h & 0xA0 == 0xA0:
        return 3
    if h & 0x40:
        return 1
    ax = (h >> 1) & 7
    if ax == 0:
        return 1
    return bin(ax).count('1') * (2 if h & 0x10 else 1)


def parse_fifo_payload(payload):
    """[(None | dict)] per next() call"""
    out, i = [], 0
    while i < len(payload):
        if payload[i] == 0:
            out.append(None)
            i += 1
        else:
            _, off, ln, ty, x, y, z, tm, c1, c2, c3 = payload[i:i + 11]
            out.append({'off': off, 'len': ln, 'type': ['data', 'time', 'ctrl'][ty],
                        'x': None if x == 0 else x - 100000, 'y': None if y == 0 else y - 100000, 'z': None if z == 0 else z - 100000,
                        'time': None if tm == 0 else tm - 1,
                        'src': None if c1 == 0 else bool(c1 - 1), 'bw': None if c2 == 0 else bool(c2 - 1), 'acc1': None if c3 == 0 else bool(c3 - 1)})
            i += 11
    return out


def check_fifo_safety(prog, r):
    """C05 on one read_fifo_frames call"""
    if r.status == 'panic':
        return 'panic while iterating the frames of %r' % r.call
    if r.status != 'ok':
        return None
    n = r.call.args[0]
    buf = fifo_served(prog_fifo_before(prog, r), n)
    answers = parse_fifo_payload(r.payload)
    if len(answers) != n + 2:
        return 'expected %d answers, got %d' % (n + 2, len(answers))
    lo = 0
    for a in answers:
        if a is None:
            continue
        if a['off'] < lo:
            return 'frame at offset %d overlaps / precedes the previous one (ends at %d)' % (a['off'], lo)
        if a['off'] + a['len'] > n:
            return 'frame [%d,%d) exceeds the buffer of %d bytes' % (a['off'], a['off'] + a['len'], n)
        if a['len'] != 1 + ds_payload(buf[a['off']]):
            return 'frame at %d with header 0x%02X has length %d, header implies %d' % (a['off'], buf[a['off']], a['len'], 1 + ds_payload(buf[a['off']]))
        lo = a['off'] + a['len']
    if answers and answers[-1] is not None:
        return 'iteration still yields after len+1 calls'
    if None not in answers[:n + 1]:
        return 'no None within len+1 calls'
    return None


def prog_fifo_before(prog, r):
    """bytes still queued in the simulated FIFO when call r starts (earlier reads / flushes consumed some)"""
    q = list(prog.fifo)
    for c in prog.calls:
        if c is r.call:
            break
        if c.op == 'read_fifo_frames' and not c.faults:
            q = q[c.args[0]:]
        elif c.op in ('flush_fifo',) and not c.faults:
            q = []
    return q


def fifo_random_programs(api, rng, n, max_len=24):
    out = []
    alphabet = [0x80, 0x82, 0x84, 0x88, 0x8E, 0x9E, 0x92, 0x9C, 0x96, 0x48, 0x40, 0xA0, 0xA2, 0xE0, 0x00, 0x10, 0x1E, 0x0E, 0xFF, 0x7F, 0x01, 0xC0, 0x60, 0x20]
    for k in range(n):
        kind = rng.random()
        ln = rng.choice([0, 1, 2, 3]) if kind < 0.25 else rng.randint(0, max_len)
        if kind < 0.6:
            data = bytes(rng.choice(alphabet) for _ in range(ln))
        else:
            data = bytes(rng.getrandbits(8) for _ in range(ln))
        nread = max(0, ln + rng.choice([0, 0, 0, -1, 1, 2, -2]))
        out.append(Prog('f%d' % k, rng.choice(['i2c', 'spi']), [Call('read_fifo_frames', [nread])], fifo=data))
    return out


def fifo_encoded_programs(api, rng, n):
    """encoder-generated streams (spec side: progs.encode_frame), cut at a random point or ended by the empty marker"""
    out = []
    for k in range(n):
        frames = [P.random_frame(rng) for _ in range(rng.randint(0, 6))]
        enc = [P.encode_frame(f) for f in frames]
        stream = b''.join(enc)
        mode = rng.random()
        if mode < 0.4 and stream:
            nread = rng.randint(0, len(stream))          # every truncation point
        elif mode < 0.7:
            nread = len(stream)                            # ends exactly on a frame boundary
        else:
            nread = len(stream) + rng.choice([1, 2, 3, 5])  # runs into the empty marker served by the chip
        p = Prog('e%d' % k, rng.choice(['i2c', 'spi']), [Call('read_fifo_frames', [nread])], fifo=stream)
        p.frames, p.encodings = frames, enc
        out.append(p)
    return out


def check_fifo_decode(prog, r):
    """C04 on one read of an encoder-generated stream"""
    if r.status != 'ok':
        return 'read_fifo_frames returned %s' % r.result_str()
    n = r.call.args[0]
    answers = parse_fifo_payload(r.payload)
    got = []
    for a in answers:
        if a is None:
            break
        got.append(a)
    # frames completely inside the first n bytes
    want, off = [], 0
    for f, e in zip(prog.frames, prog.encodings):
        if off + len(e) <= n:
            want.append((off, f, e))
            off += len(e)
        else:
            break
    if len(got) != len(want):
        return 'yielded %d frames from a buffer holding %d complete frames (%d bytes of %r)' % (len(got), len(want), n, [e.hex() for e in prog.encodings])
    for a, (off, f, e) in zip(got, want):
        if a['off'] != off or a['len'] != len(e):
            return 'frame at [%d,%d), encoded frame is at [%d,%d)' % (a['off'], a['off'] + a['len'], off, off + len(e))
        exp = {'x': None, 'y': None, 'z': None, 'time': None, 'src': None, 'bw': None, 'acc1': None}
        if f[0] == 'data':
            exp['type'] = 'data'
            for bit, nm in ((1, 'x'), (2, 'y'), (4, 'z')):
                if f[1] & bit:
                    exp[nm] = f[3][nm]
        elif f[0] == 'ctrl':
            exp['type'] = 'ctrl'
            exp['src'], exp['bw'], exp['acc1'] = bool(f[1] & 1), bool(f[1] & 2), bool(f[1] & 4)
        else:
            exp['type'] = 'time'
            exp['time'] = f[1]
        for k_, v in exp.items():
            if a[k_] != v:
                return 'frame %r at offset %d: accessor %s returned %r, encoded value is %r' % (f, off, k_, a[k_], v)
    return None


def fifo_monitor(pid, encoded):
    def mon(api, rng, budget, variants):
        programs = fifo_encoded_programs(api, rng, budget) if encoded else fifo_random_programs(api, rng, budget, max_len=24 if budget < 20000 else 64)
        recs = run_monitor_programs(programs)
        viol = []
        for p in programs:
            r = recs[p.id][-1]
            msg = (check_fifo_decode(p, r) if encoded else None) or check_fifo_safety(p, r)
            if msg:
                viol.append(violation(pid, p, msg))
        return {'cases': len(programs), 'violations': viol[:20], 'samples': [p.describe() for p in programs[:2]],
                'notes': ['encoder-generated frame streams with every kind of ending' if encoded else
                          'buffers of length 0..3 over a boundary alphabet and random bytes, longer random buffers; judged on slice positions, '
                          'lengths implied by the header per the datasheet, order, termination, absence of panics']}
    return mon


def judge_fifo_safety(prog, recs):
    for r in recs[1:]:
        if r.call.op == 'read_fifo_frames':
            msg = check_fifo_safety(prog, r)
            if msg:
                return msg
    return None


PROPS['C05'] = {
    'targets': ['props/C05.vo'],
    'theorems': [('props.C05', n) for n in ['c05_next_total', 'c05_frame_is_subslice', 'c05_progress', 'c05_iteration_terminates',
                                            'c05_accessors_total', 'c05_frames_disjoint_increasing']],
    'corr_gen': lambda api, rng, n: fifo_random_programs(api, rng, n),
    'corr_n': (400, 6000),
    'monitor': fifo_monitor('C05', False),
    'monitor_n': (1500, 60000),
    'judge': judge_fifo_safety,
    'statement': 'for every byte list (any length, any content) and every cursor: FifoFrames::next returns without panic or loop-fuel '
                 'exhaustion; a yielded frame is the sub-slice [cursor, cursor+1+payload(header)) inside the buffer and the cursor moves to its '
                 'end; a call with the cursor inside the buffer consumes 2..7 bytes, at or past the end it returns None and changes nothing; '
                 'the for-loop ends within len+1 calls; every accessor on every yielded frame returns without panic; the frames of any '
                 'number of successive calls are non-overlapping and in increasing order (induction on the call count; header facts by '
                 'evaluation over all 256 header bytes; refinement of the generated iterator to a specification parser)',
    'rule': 'correspondence and monitor: malformed / truncated / random buffers; the model and the crate must agree on every next() answer '
            'of len+2 calls including slice offsets (hook Frame::verif_slice)',
}


def judge_fifo_decode(prog, recs):
    return None   # replay of encoder-generated programs needs the frame list; the safety judgement is used instead


PROPS['C04'] = {
    'targets': ['props/C04.vo'],
    'theorems': [('props.C04', n) for n in ['c04_stream_decodes', 'c04_accessors', 'c04_8bit_low_bits_zero', 'c04_read_is_one_burst']],
    'corr_gen': lambda api, rng, n: fifo_encoded_programs(api, rng, n),
    'corr_n': (400, 6000),
    'monitor': fifo_monitor('C04', True),
    'monitor_n': (1500, 60000),
    'judge': judge_fifo_safety,
    'statement': 'for every list of well-formed frames (unbounded length; all 7 axis subsets x both resolutions x all 4096 sample values per '
                 'axis, control flags, 24-bit times), after any prefix and followed by nothing, the empty marker or a frame cut off by the '
                 'end of the buffer: the loop over the generated iterator yields exactly the encoded frames in order (induction on the frame '
                 'list) and every accessor returns the encoded value, None for absent fields (kernel evaluation over the 12-bit / 8-bit '
                 'sample domain per axis and header); read_fifo_frames is one burst read of the buffer length from 0x14',
    'rule': 'encoder (spec side) written independently in Coq (proofs/FifoSpec.v) and Python (tools/progs.py); monitor compares frames '
            'and accessor values with the encoded ones at every truncation point',
}


# ----------------------------------------------------------------------------- C12-C15, C20: transports
RICH_PREFIX = [
    ('config_gen1_int', [('with_src', ['AccFilt2'])]), ('config_gen2_int', [('with_src', ['AccFilt2'])]),
    ('config_actchg_int', [('with_src', ['AccFilt2'])]),
    ('config_wkup_int', [('with_axes', [True, False, True])]),
    ('config_interrupts', [('with_gen1_int', [True]), ('with_gen2_int', [True]), ('with_fwm_int', [True]), ('with_orientch_int', [True]),
                           ('with_actch_int', [True]), ('with_d_tap_int', [True]), ('with_step_int', [True])]),
]


def rich_prefix():
    return [Call(mk, setters=ss) for mk, ss in RICH_PREFIX]


def all_operations(api, rng):
    """one call of every public operation with a request that causes traffic from the enable-rich state"""
    ops = [Call(m) for m in api.plain] + [Call('get_temp_celsius'), Call('perform_self_test'), Call('soft_reset'),
                                          Call('read_fifo_frames', [rng.choice([0, 1, 7, 15])])]
    for mk in sorted(api.maker):
        ops.append(Call(mk, setters=P.rand_setters(api, rng, api.maker[mk], rng.randint(1, 3))))
    for mk in sorted(api.maker):
        # a request that touches every register of the block: every setter once, in random order (longest transaction sequences,
        # temporary disable + parameter writes + restore all present)
        ss = list(api.maker[mk]['setters'])
        rng.shuffle(ss)
        ops.append(Call(mk, setters=[(s['method'], [P.rand_arg(api, rng, k) for (_a, k) in s['args']]) for s in ss]))
    ops.append(Call('config_wkup_int', setters=[('with_threshold', [rng.randint(1, 255)]), ('with_ref_accel', [rng.randint(1, 127), rng.randint(-128, -1), rng.randint(1, 127)])]))
    ops.append(Call('config_int_pins', setters=[('with_gen1', ['Int1']), ('with_actch', ['Int2']), ('with_wkup', ['Both'])]))
    ops.append(Call('config_gen1_int', setters=[('with_threshold', [rng.randint(1, 255)]), ('with_duration', [rng.randint(1, 65535)])]))
    ops.append(Call('config_fifo', setters=[('with_watermark_thresh', [rng.randint(1, 1024)])]))
    ops.append(Call('config_tap', setters=[('with_sensitivity', [rng.choice(['SENS1', 'SENS5'])])]))
    ops.append(Call('config_fifo', setters=[('with_read_disabled', [False])]))
    ops.append(Call('read_fifo_frames', [rng.choice([255, 256, 257, 300, 512, 1024])]))
    return ops


def api_programs(api, rng, n, ctors=('i2c', 'spi', 'spi3'), fault_rate=0.0):
    out = []
    for k in range(n):
        p = P.random_program(api, rng, 'a%d' % k, max_calls=8, allow_load=False, fault_rate=fault_rate, ctor=rng.choice(ctors))
        if fault_rate == 0.0:
            p.ctor_faults = []
        if k % 10 == 0:
            p.calls.append(Call('read_fifo_frames', [rng.choice([0, 255, 256, 257, 511, 1024])]))
        out.append(p)
    return out


def check_i2c_framing(prog, recs, addr):
    for r in recs:
        for c in r.raw:
            if c[0] == 'i2c_w':
                if c[1] != addr:
                    return 'I2C write to device address 0x%02X, the build selects 0x%02X (%r)' % (c[1], addr, r.call)
                if len(c[2]) != 2:
                    return 'I2C register write of %d bytes in %r' % (len(c[2]), r.call)
            elif c[0] == 'i2c_wr':
                if c[1] != addr:
                    return 'I2C read from device address 0x%02X, the build selects 0x%02X (%r)' % (c[1], addr, r.call)
                if len(c[2]) != 1:
                    return 'I2C read with %d address bytes in %r' % (len(c[2]), r.call)
            elif c[0] != 'delay':
                return 'non-I2C call %r on the I2C transport' % (c,)
        if r.call is not None and r.ok():
            msg = expected_reads(prog, r)
            if msg:
                return msg
    return None


def expected_reads(prog, r):
    """burst shapes that the datasheet fixes: getters, FIFO read, reset"""
    ev = [e for e in implrun.reg_events(r.raw) if e[0] != 'd']
    op = r.call.op
    if op in GETTER_SPEC:
        a, n, _ = GETTER_SPEC[op]
        if ev != [('r', a, n)]:
            return '%s issued %r, expected one read of %d byte(s) at 0x%02X' % (op, ev, n, a)
    elif op == 'read_fifo_frames':
        if ev != [('r', 0x14, r.call.args[0])]:
            return 'read_fifo_frames(%d) issued %r, expected one burst of that length at 0x14' % (r.call.args[0], ev)
    elif op == 'soft_reset':
        if ev != [('w', 0x7E, 0xB6), ('r', 0x0D, 1)]:
            return 'soft_reset issued %r' % (ev,)
    elif op == 'flush_fifo' and ev != [('w', 0x7E, 0xB0)]:
        return 'flush_fifo issued %r' % (ev,)
    elif op == 'clear_step_count' and ev != [('w', 0x7E, 0xB1)]:
        return 'clear_step_count issued %r' % (ev,)
    if any(e[0] == '?' for e in ev):
        return '%s: ill-framed access %r' % (op, [e for e in ev if e[0] == '?'][0])
    return None


def mon_c12(api, rng, budget, variants):
    viol, cases, samples = [], 0, []
    for var in variants:
        addr = 0x15 if var == 'alt' else 0x14
        programs = api_programs(api, rng, budget // len(variants), ctors=('i2c',))
        programs += [Prog('all%s' % var, 'i2c', rich_prefix() + all_operations(api, rng), fifo=bytes([0x48, 2, 0x80, 0]), pos=bytes([0, 8] * 3), neg=bytes(6))]
        # the only caller-chosen length: FIFO reads of every size class, beyond the FIFO's capacity too (the burst is as long as the buffer)
        programs += [Prog('len%s' % var, 'i2c', [Call('read_fifo_frames', [n]) for n in (0, 1, 255, 256, 1023, 1024, 1025, 1031, 2048, 4096)], fifo=bytes([0x48, 2, 0x80, 0]))]
        impl = corr.run_impl(programs, var, dump_each=True, tag='mon12')
        for p in programs:
            recs = implrun.records(p, impl[p.id])
            cases += len(recs)
            msg = check_i2c_framing(p, recs, addr)
            if msg:
                viol.append(violation('C12', p, msg + ' [build i2c-%s]' % var, extra={'variant': var}))
        samples.append(programs[0].describe())
    return {'cases': cases, 'violations': viol[:20], 'samples': samples[:2],
            'notes': ['both address builds (features i2c-default and i2c-alt); every raw embedded-hal call checked for device address and framing; '
                      'burst length per getter against the datasheet table']}


def judge_c12(prog, recs):
    return check_i2c_framing(prog, recs, 0x14)


def check_spi_protocol(prog, recs, rec):
    for r in recs:
        for e in implrun.reg_events(r.raw):
            if e[0] == '?':
                return 'SPI protocol violated in %r: %s' % (r.call if r.call else 'constructor', e[1])
        if r.ok() and r.raw:
            levels = [c[0] for c in r.raw if c[0] in ('cs_low', 'cs_high')]
            if levels and levels[-1] != 'cs_high':
                return 'successful call %r returns with chip-select asserted' % (r.call if r.call else 'constructor')
        if r.call is not None and r.ok():
            msg = expected_reads(prog, r)
            if msg:
                return msg
    if rec['dumps'] and rec['dumps'][-1] != [0]:
        return '%d byte(s) clocked while chip-select was high' % rec['dumps'][-1][0]
    return None


def mon_c13(api, rng, budget, variants):
    programs = api_programs(api, rng, budget, ctors=('spi', 'spi3'))
    programs += [Prog('all_' + c, c, rich_prefix() + all_operations(api, rng), fifo=bytes([0x48, 2, 0x80, 0]), pos=bytes([0, 8] * 3), neg=bytes(6)) for c in ('spi', 'spi3')]
    impl = corr.run_impl(programs, 'default', dump_each=True, tag='mon13')
    viol, cases = [], 0
    for p in programs:
        recs = implrun.records(p, impl[p.id])
        cases += len(recs)
        msg = check_spi_protocol(p, recs, impl[p.id])
        if not msg:
            want = {'spi': [('r', 0, 1), ('r', 0, 1)], 'spi3': [('r', 0, 1), ('r', 0, 1), ('w', 0x7C, 1)]}[p.ctor]
            got = implrun.reg_events(recs[0].raw)
            if got != want:
                msg = 'constructor %s issued %r, expected %r' % (p.ctor, got, want)
        if msg:
            viol.append(violation('C13', p, msg))
    # under bus and pin failures: whatever fails, no byte may be clocked while chip-select is high (a failed pin call leaves the level unchanged)
    faulted = api_programs(api, rng, max(60, budget // 2), ctors=('spi', 'spi3'), fault_rate=0.35)
    faulted += sample_up_to(rng, fault_sweep_programs(api, rng, ('spi',), max_k=8), max(120, budget // 2))
    for i, q in enumerate(faulted):
        q.id = 'f13_%d' % i
    fimpl = corr.run_impl(faulted, 'default', dump_each=True, tag='mon13f')
    for q in faulted:
        cases += 1
        d = fimpl[q.id]['dumps']
        if d and d[-1] != [0]:
            viol.append(violation('C13', q, '%d byte(s) clocked while chip-select was high (calls with injected bus / pin failures)' % d[-1][0]))
            continue
        # whatever failed inside it, a call that reports success has released chip-select (its last pin operation is the release)
        for r in implrun.records(q, fimpl[q.id]):
            if r.ok() and r.raw:
                levels = [c[0] for c in r.raw if c[0] in ('cs_low', 'cs_high')]
                if levels and levels[-1] != 'cs_high':
                    viol.append(violation('C13', q, 'successful call %r returns with chip-select asserted (a failure inside it was not reported)' % (r.call if r.call else 'constructor',)))
                    break
    return {'cases': cases, 'violations': viol[:20], 'samples': [programs[0].describe()],
            'notes': ['single ordered journal of pin edges and transfers decoded per chip-select window; both SPI constructors; '
                      'programs with injected bus and pin failures judged on the bytes the chip saw while chip-select was high']}


def judge_c13(prog, recs):
    for r in recs:
        for e in implrun.reg_events(r.raw):
            if e[0] == '?':
                return 'SPI protocol violated: %s' % e[1]
    return None


def mon_c14(api, rng, budget, variants):
    base = api_programs(api, rng, budget, ctors=('i2c',))
    base += [Prog('all', 'i2c', rich_prefix() + all_operations(api, rng), fifo=bytes([0x48, 2, 0x80, 0]), pos=bytes([0, 8] * 3), neg=bytes(6))]
    twins = []
    for p in base:
        q = Prog(p.id + 's', 'spi', p.calls, p.ro, p.fifo, p.pos, p.neg)
        twins.append(q)
    impl = corr.run_impl(base + twins, 'default', dump_each=True, tag='mon14')
    viol, cases = [], 0
    for p, q in zip(base, twins):
        ra, rb = implrun.records(p, impl[p.id]), implrun.records(q, impl[q.id])
        cases += len(ra)
        msg = None
        if len(ra) != len(rb):
            msg = 'different number of executed calls'
        for i, (x, y) in enumerate(zip(ra, rb)):
            if i == 0:
                continue
            if (x.status, x.payload, x.err) != (y.status, y.payload, y.err):
                msg = 'call %r: I2C returns %s, SPI returns %s' % (x.call, x.result_str(), y.result_str())
            elif implrun.reg_events(x.raw) != implrun.reg_events(y.raw):
                msg = 'call %r: register-level accesses differ: I2C %r, SPI %r' % (x.call, implrun.reg_events(x.raw), implrun.reg_events(y.raw))
            elif x.regs != y.regs:
                msg = 'call %r: device states differ afterwards' % (x.call,)
            if msg:
                break
        if msg:
            viol.append(violation('C14', p, msg, twin=q))
    # the same bus failure on both transports: transaction t fails over I2C <-> the data call of transaction t fails over SPI
    ops = all_operations(api, rng)
    probes = [Prog('pr%d' % i, 'i2c', rich_prefix() + [op], fifo=bytes([0x48, 2]), pos=bytes([0, 8] * 3), neg=bytes(6)) for i, op in enumerate(ops)]
    pimpl = corr.run_impl(probes, 'default', dump_each=True, tag='mon14p')
    fa, fb = [], []
    for p0 in probes:
        r0 = implrun.records(p0, pimpl[p0.id])[-1]
        evs = [e for e in implrun.reg_events(r0.raw) if e[0] in ('w', 'r')]
        off = 0
        for t, e in enumerate(evs[:6]):
            op = p0.calls[-1]
            ca = Call(op.op, op.args, op.setters, faults=[t])
            cb = Call(op.op, op.args, op.setters, faults=[off + 1])
            fa.append(Prog('%s_i%d' % (p0.id, t), 'i2c', rich_prefix() + [ca, Call('get_data')], p0.ro, p0.fifo, p0.pos, p0.neg))
            fb.append(Prog('%s_s%d' % (p0.id, t), 'spi', rich_prefix() + [cb, Call('get_data')], p0.ro, p0.fifo, p0.pos, p0.neg))
            off += 3 if e[0] == 'w' else 4
    fimpl = corr.run_impl(fa + fb, 'default', dump_each=True, tag='mon14f')
    for p, q in zip(fa, fb):
        ra, rb = implrun.records(p, fimpl[p.id]), implrun.records(q, fimpl[q.id])
        cases += 1
        for x, y in zip(ra[1:], rb[1:]):
            if (x.status, x.err, x.payload) != (y.status, y.err, y.payload):
                viol.append(violation('C14', p, 'with the same register transaction failing on the bus, call %r returns %s over I2C and %s over SPI' % (x.call, x.result_str(), y.result_str()), twin=q))
                break
            if x.regs != y.regs:
                viol.append(violation('C14', p, 'with the same register transaction failing on the bus, the device states differ after %r' % (x.call,), twin=q))
                break
    # the constructors under the same bus failure: the id read (and the SPI dummy read) failing on the bus must be reported alike
    ct = []
    for k, (fi, fs) in enumerate([([0], [5]), ([0], [6]), ([0], [1]), ([0], [2])]):
        ct.append((Prog('ci%d' % k, 'i2c', [Call('get_id')], ctor_faults=fi), Prog('cs%d' % k, 'spi', [Call('get_id')], ctor_faults=fs)))
    cimpl = corr.run_impl([x for pr in ct for x in pr], 'default', dump_each=True, tag='mon14c')
    for p, q in ct:
        x, y = implrun.records(p, cimpl[p.id])[0], implrun.records(q, cimpl[q.id])[0]
        cases += 1
        if (x.status, x.err) != (y.status, y.err):
            viol.append(violation('C14', p, 'with the constructor\'s register read failing on the bus, new_i2c returns %s and new_spi returns %s' % (x.result_str(), y.result_str()), twin=q))
    return {'cases': cases, 'violations': viol[:20], 'samples': [base[0].describe()],
            'notes': ['every program run over both real transports against identical simulated chips; decoded register-level journals, results and register files compared; '
                      'constructors with the same register read failing on the bus over both transports; '
                      'plus every operation with the same register transaction failing on the bus over both transports']}


def judge_c14(prog, recs):
    """replay: the recorded twin (the same program over the other transport, with the corresponding failure) is run again"""
    q = getattr(prog, 'twin', None) or Prog(prog.id + 's', 'spi', prog.calls, prog.ro, prog.fifo, prog.pos, prog.neg)
    rb = run_monitor_programs([q])[q.id]
    if (recs[0].status, recs[0].err) != (rb[0].status, rb[0].err):
        return 'constructors: %s over %s, %s over %s' % (recs[0].result_str(), prog.ctor, rb[0].result_str(), q.ctor)
    for x, y in zip(recs[1:], rb[1:]):
        if (x.status, x.payload, x.err) != (y.status, y.payload, y.err):
            return 'call %r: %s over %s, %s over %s' % (x.call, x.result_str(), prog.ctor, y.result_str(), q.ctor)
        if x.regs != y.regs:
            return 'call %r: device states differ afterwards' % (x.call,)
        if not (x.call.faults or y.call.faults) and implrun.reg_events(x.raw) != implrun.reg_events(y.raw):
            return 'call %r: register-level accesses differ' % (x.call,)
    return None


def sample_up_to(rng, pop, n):
    return pop if n >= len(pop) else rng.sample(pop, n)


def fault_sweep_programs(api, rng, ctors, max_k=24, data_only=False):
    """every operation from the enable-rich state with every single-fault position"""
    out, k_id = [], 0
    for ctor in ctors:
        for op in all_operations(api, rng):
            for k in range(max_k):
                c = Call(op.op, op.args, op.setters, faults=[k])
                out.append(Prog('fs%d' % k_id, ctor, rich_prefix() + [c, Call('get_id')], fifo=bytes([0x48, 2]), pos=bytes([0, 8] * 3), neg=bytes(6)))
                k_id += 1
    return out


def check_fault_report(prog, recs):
    """C15 on the faulted call of a sweep program (the one before the trailing get_id)"""
    for r in recs[1:]:
        if not r.call.faults:
            continue
        k = r.call.faults[0]
        fallible = [c for c in r.raw if c[0] != 'delay']
        if r.status == 'panic':
            return 'panic in %r' % r.call
        if len(fallible) <= k:
            continue        # the planned position was never reached
        kind = 'ChipSelectPinError' if fallible[k][0] in ('cs_low', 'cs_high') else 'IOError'
        if r.status != 'err' or r.err != kind or r.tok != k:
            return '%r with call %d (%s) failing returned %s, expected Err(%s:%d)' % (r.call, k, fallible[k][0], r.result_str(), kind, k)
        after = fallible[k + 1:]
        if after not in ([], [('cs_high',)]):
            return '%r: after the failing call %d the driver still issued %r' % (r.call, k, after)
    return None


def mon_c15(api, rng, budget, variants):
    programs = fault_sweep_programs(api, rng, ('i2c', 'spi'), max_k=12 if budget < 20000 else 40)
    if budget < len(programs):
        programs = rng.sample(programs, budget)
    recs = run_monitor_programs(programs)
    viol = []
    for p in programs:
        msg = check_fault_report(p, recs[p.id])
        if msg:
            viol.append(violation('C15', p, msg))
    return {'cases': len(programs), 'violations': viol[:20], 'samples': [programs[0].describe(), programs[-1].describe()],
            'notes': ['every operation of the API catalogue from a state with seven interrupts enabled x single-fault positions, over I2C and SPI (bus and pin faults)']}


def check_cs_release(prog, recs):
    """C20: after an SPI data-transfer fault chip-select is released and the next access has its effect"""
    for i, r in enumerate(recs[1:], 1):
        if not r.call.faults:
            continue
        k = r.call.faults[0]
        fallible = [c for c in r.raw if c[0] != 'delay']
        if len(fallible) <= k or fallible[k][0] not in ('spi_w', 'spi_x'):
            continue
        levels = [c[0] for c in fallible if c[0] in ('cs_low', 'cs_high')]
        if not levels or levels[-1] != 'cs_high' or fallible[-1] != ('cs_high',):
            return '%r: SPI transfer %d failed and the call returned with chip-select still low (journal %r)' % (r.call, k, [c[0] for c in fallible])
        if i + 1 < len(recs):
            nxt = recs[i + 1]
            if nxt.call.op == 'get_id' and (nxt.status != 'ok' or list(nxt.payload) != [0x90]):
                return 'the access after the failed transfer was not decoded as a fresh transaction: get_id -> %s' % nxt.result_str()
    return None


def mon_c20(api, rng, budget, variants):
    programs = fault_sweep_programs(api, rng, ('spi',), max_k=12 if budget < 20000 else 40)
    if budget < len(programs):
        programs = rng.sample(programs, budget)
    recs = run_monitor_programs(programs)
    viol = []
    for p in programs:
        msg = check_cs_release(p, recs[p.id])
        if msg:
            viol.append(violation('C20', p, msg))
    return {'cases': len(programs), 'violations': viol[:20], 'samples': [programs[0].describe()],
            'notes': ['every operation x every SPI fault position; chip-select level when the failing call returns and the effect of the following access (get_id must read 0x90)']}


GENERIC_TB = ['the hand model of i2c.rs / spi.rs is what the theorems are about; the correspondence check runs the same programs with every '
              'single fault position on the real transports and compares raw HAL journals, results and chip states']

PROPS['C12'] = {
    'targets': ['props/C12.vo'], 'variants': ['default', 'alt'],
    'theorems': [('props.C12', n) for n in ['c12_frames', 'c12_every_operation', 'c12_constructor']],
    'corr_gen': lambda api, rng, n: api_programs(api, rng, n, ctors=('i2c',), fault_rate=0.05),
    'corr_n': (200, 3000), 'monitor': mon_c12, 'monitor_n': (300, 6000), 'judge': judge_c12, 'trusted_extra': GENERIC_TB,
    'statement': 'for every API operation and the I2C constructor, from every quiet bus strapped to dev: the raw journal over T_i2c dev is one '
                 'write(dev,[addr,value]) per register write and one write_read(dev,[addr],n) per register read, in the order of the '
                 'register-level semantics (theorem for every program of the free monad whose addresses are 7-bit, which is proved for every '
                 'operation); dev in {0x14, 0x15} checked against both feature builds',
    'rule': 'correspondence and monitor run on BOTH builds (i2c-default, i2c-alt)',
}
PROPS['C13'] = {
    'targets': ['props/C13.vo'],
    'theorems': [('props.C13', n) for n in ['c13_windows', 'c13_addresses_7bit', 'c13_every_operation', 'c13_constructors']],
    'corr_gen': lambda api, rng, n: api_programs(api, rng, n, ctors=('spi', 'spi3'), fault_rate=0.05),
    'corr_n': (200, 3000), 'monitor': mon_c13, 'monitor_n': (300, 6000), 'judge': judge_c13, 'trusted_extra': GENERIC_TB,
    'statement': 'for every API operation and both SPI constructors, from every quiet bus: the raw journal is one chip-select window per '
                 'register event ([CsLow; write [addr,value]; CsHigh] / [CsLow; transfer [addr|0x80,0]; transfer n; CsHigh]), every address '
                 'is below 0x80, the call ends with chip-select high and the decoder idle, and no byte is clocked while chip-select is high',
}
PROPS['C14'] = {
    'targets': ['props/C14.vo', 'proofs/I2cSim.vo'],
    'theorems': [('props.C14', n) for n in ['c14_every_operation', 'c14_programs']] + [('proofs.I2cSim', n) for n in ['i2c_is_reg', 'i2c_api_call']],
    'corr_gen': lambda api, rng, n: api_programs(api, rng, n, ctors=('i2c', 'spi')),
    'corr_n': (200, 3000), 'monitor': mon_c14, 'monitor_n': (200, 4000), 'judge': judge_c14, 'trusted_extra': GENERIC_TB,
    'statement': 'for every API operation, and by induction for every program of API calls: from quiet buses holding equal chips and equal '
                 'shadows, the runs over I2C and over SPI return the same values / errors, leave the same shadow and chip and perform the same '
                 'register-level reads and writes (both realise the register-level semantics `sem`); under bus failures the I2C transport is proved to '
                 'coincide with the register-level transport call by call (i2c_api_call: same results, error tokens, shadow, chip under the same fault plan); '
                 'the corresponding SPI statement under failures is not a theorem (pin failures have no I2C counterpart) - fault twins in the monitor',
}
PROPS['C15'] = {
    'targets': ['props/C15.vo'],
    'theorems': [('props.C15', n) for n in ['c15_i2c', 'c15_spi', 'c15_register_level', 'c15_error_kinds', 'c15_api_call_spi', 'c15_api_call_i2c']],
    'corr_gen': lambda api, rng, n: sample_up_to(rng, fault_sweep_programs(api, rng, ('i2c', 'spi'), max_k=10 if n < 2000 else 24), n),
    'corr_n': (300, 4000), 'monitor': mon_c15, 'monitor_n': (1200, 40000), 'judge': check_fault_report, 'trusted_extra': GENERIC_TB,
    'statement': 'for every program of the free monad (hence every API operation), every transport, world and index k: if the k-th fallible '
                 'HAL call fails and is reached, the run is Failed with IOError k (bus call) or ChipSelectPinError k (pin call), the failing '
                 'call is entry k of the journal and only the chip-select release may follow it (induction on the program; case analysis on '
                 'the position within the 1 / 3 / 4 HAL calls of a transaction)',
}
PROPS['C20'] = {
    'targets': ['props/C20.vo'],
    'theorems': [('props.C20', n) for n in ['c20_write', 'c20_read', 'c20_next_access', 'c20_next_read_after_write_fault',
                                                   'c20_next_write_after_read_fault', 'c20_next_read_after_read_fault']],
    'corr_gen': lambda api, rng, n: sample_up_to(rng, fault_sweep_programs(api, rng, ('spi',), max_k=10 if n < 2000 else 24), n),
    'corr_n': (300, 4000), 'monitor': mon_c20, 'monitor_n': (600, 20000), 'judge': check_cs_release, 'trusted_extra': GENERIC_TB,
    'statement': 'for every address, value and burst length: a failing data transfer of spi write_register / read_register returns that '
                 'transfer\'s IOError, the journal ends with the chip-select release, the line is high and the decoder idle, the chip is '
                 'untouched, and the next access is decoded as a fresh transaction with its specified effect',
}


# ----------------------------------------------------------------------------- C16: belief = device
def shadow_vs_chip(api, r):
    """first address where the shadow dump differs from the chip register file after call r, or None"""
    addrs = sorted(l['addr'] for l in api.leaves)
    for a, b in zip(addrs, r.shadow):
        if r.regs[a] != b:
            return a, b, r.regs[a]
    return None


def coherence_programs(api, rng, n):
    out = []
    sweep = fault_sweep_programs(api, rng, ('i2c',), max_k=20)
    rng.shuffle(sweep)
    for k, p in enumerate(sweep[:n]):
        calls = p.calls[:-1]
        # recovery requests: re-assert the enables, retry a full reconfiguration
        calls.append(Call('config_interrupts', setters=RICH_PREFIX[4][1]))
        calls.append(Call('config_wkup_int', setters=[('with_axes', [True, False, True])]))
        calls.append(Call('get_data'))
        out.append(Prog('co%d' % k, 'i2c', calls, p.ro, p.fifo, p.pos, p.neg))
    return out


def check_coherence(api, prog, recs):
    for r in recs[1:]:
        if r.shadow is None:
            continue
        d = shadow_vs_chip(api, r)
        if d:
            return 'after %r (%s) the driver believes register 0x%02X = 0x%02X, the device holds 0x%02X' % (r.call, r.result_str(), d[0], d[1], d[2])
    # the recovery request must have re-established the enables on the device
    last_int = [r for r in recs[1:] if r.call.op == 'config_interrupts' and r.ok()]
    if last_int and recs[-1].regs is not None:
        r = last_int[-1]
        # the recovery request switches these enables ON (it does not clear others)
        if r.regs[0x1F] & 0x4E != 0x4E or r.regs[0x20] & 0x19 != 0x19:
            return 'after re-asserting the enables the device holds INT_CONFIG0/1 = 0x%02X/0x%02X, the request switched on 0x4E/0x19' % (r.regs[0x1F], r.regs[0x20])
    return None


def mon_c16(api, rng, budget, variants):
    programs = coherence_programs(api, rng, budget)
    programs += [p for p in api_programs(api, rng, max(50, budget // 4), ctors=('i2c',), fault_rate=0.3)]
    recs = run_monitor_programs(programs)
    viol = []
    for p in programs:
        msg = check_coherence(api, p, recs[p.id]) if p.id.startswith('co') else None
        if msg is None and not p.id.startswith('co'):
            for r in recs[p.id][1:]:
                d = shadow_vs_chip(api, r) if r.shadow is not None else None
                if d:
                    msg = 'after %r (%s) the driver believes register 0x%02X = 0x%02X, the device holds 0x%02X' % (r.call, r.result_str(), d[0], d[1], d[2])
                    break
        if msg:
            viol.append(violation('C16', p, msg))
    return {'cases': len(programs), 'violations': viol[:20], 'samples': [programs[0].describe()],
            'notes': ['every operation from the enable-rich state x every bus-fault position over I2C (a failed write is not applied), followed by '
                      'recovery requests; shadow dump (hook verif_shadow) compared with the chip after every call']}


def judge_c16(prog, recs):
    api = P.Api()
    for r in recs[1:]:
        d = shadow_vs_chip(api, r) if r.shadow is not None else None
        if d:
            return 'after %r the driver believes register 0x%02X = 0x%02X, the device holds 0x%02X' % (r.call, d[0], d[1], d[2])
    return None


PROPS['C16'] = {
    'targets': ['props/C16.vo'],
    'theorems': [('props.C16', n) for n in ['c16_every_call', 'c16_every_history', 'c16_initial', 'c03_range_is_device', 'c19_flag_is_device', 'c16_enables_are_device',
                                               'c16_i2c_call_is_reg', 'c16_i2c_every_call', 'c16_i2c_every_history', 'c16_i2c_initial']]
                + [('proofs.I2cSim', n) for n in ['i2c_is_reg', 'step_aok', 'i2c_api_call']],
    'corr_gen': lambda api, rng, n: coherence_programs(api, rng, n),
    'corr_n': (300, 4000), 'monitor': mon_c16, 'monitor_n': (600, 20000), 'judge': judge_c16,
    'statement': 'under the stated assumption (a failed register transaction is not applied), for every history of API calls with an arbitrary '
                 'fault plan per call (any number of failing transactions, any positions): every register of the shadow configuration equals '
                 'the chip register after every call, whatever its outcome (compositional proof over all generated bodies: each acknowledged '
                 'write is mirrored by an update of exactly that shadow register to exactly that value; the self-test and command registers '
                 'are outside the shadow; soft reset replaces the shadow by the reset values); consequences: the range used by get_data, the '
                 'FIFO power flag and the interrupt enables the driver compares requests with are the device\'s',
    'assumptions': ['chip-select pin failures over SPI (a write may be applied although the call reports ChipSelectPinError) are outside the '
                    'property\'s assumption and outside this theorem; over I2C the HAL-level model is PROVED to coincide with T_reg (proofs/I2cSim.v: i2c_is_reg), '
                    'so the invariant holds at HAL level over I2C (c16_i2c_every_history)'],
}


# ----------------------------------------------------------------------------- C19 / C11 / C18
def fifo_power_programs(api, rng, n):
    out = []
    for k in range(n):
        calls = []
        if k % 3 == 0:      # FIFO interrupts enabled: the FIFO builder then brackets its parameter writes with a temporary disable
            calls.append(Call('config_interrupts', setters=[(rng.choice(['with_fwm_int', 'with_ffull_int']), [True])]))
        for _ in range(rng.randint(1, 7)):
            x = rng.random()
            if x < 0.4:
                extra = P.rand_setters(api, rng, api.maker['config_fifo'], 1) if rng.random() < 0.4 else []
                if rng.random() < 0.3:
                    extra.append(('with_watermark_thresh', [rng.randint(1, 1024)]))
                rng.shuffle(extra)
                calls.append(Call('config_fifo', setters=[('with_read_disabled', [rng.random() < 0.6])] + [e for e in extra if e[0] != 'with_read_disabled'],
                                  faults=[rng.randint(0, 3)] if rng.random() < 0.25 else []))
            elif x < 0.75:
                calls.append(Call('read_fifo_frames', [rng.choice([0, 1, 2, 15, 16, 64, 255, 256, 1024, rng.randint(0, 1024)])]))
            elif x < 0.82:
                calls.append(Call('soft_reset', faults=[rng.randint(0, 1)] if rng.random() < 0.3 else []))
            elif x < 0.88:
                calls.append(Call('perform_self_test', faults=[rng.randint(0, 18)] if rng.random() < 0.5 else []))
            elif x < 0.94:
                calls.append(Call(rng.choice(['flush_fifo', 'clear_step_count'])))
            else:
                mk = rng.choice(sorted(api.maker))
                calls.append(Call(mk, setters=P.rand_setters(api, rng, api.maker[mk], 2)))
        calls.append(Call('read_fifo_frames', [rng.choice([0, 3, 15])]))
        pos, neg = P.selftest_bytes(rng, True)
        out.append(Prog('fp%d' % k, 'i2c', calls, fifo=bytes(rng.getrandbits(8) for _ in range(rng.randint(0, 20))), pos=pos, neg=neg))
    return out


def check_fifo_guard(prog, recs):
    for r in recs[1:]:
        if r.call.faults or r.regs_before is None and r is not recs[1]:
            continue
        before = r.regs_before if r.regs_before is not None else None
        if r.call.op == 'read_fifo_frames' and before is not None:
            off = before[0x29] & 1
            ev = implrun.reg_events(r.raw)
            if off:
                if not (r.status == 'err' and r.err == 'ConfigBuildError' and r.tok == 'FifoReadWhilePwrDisable'):
                    return 'device register 0x29 = 0x%02X (read circuit off) but %r returned %s' % (before[0x29], r.call, r.result_str())
                if ev:
                    return 'refused FIFO read caused bus traffic %r' % (ev,)
            else:
                if r.status != 'ok':
                    return 'device register 0x29 = 0x%02X (read circuit on) but %r returned %s' % (before[0x29], r.call, r.result_str())
                if ev != [('r', 0x14, r.call.args[0])]:
                    return '%r issued %r, expected one burst of that length from 0x14' % (r.call, ev)
        if r.call.op == 'config_fifo' and r.ok() and r.regs is not None:
            # "the most recent successfully applied FIFO configuration": an accepted request for the power flag is on the device
            want = [a[0] for (m, a) in (r.call.setters or []) if m == 'with_read_disabled']
            if want and (r.regs[0x29] & 1) != int(bool(want[-1])):
                return '%r returned Ok but device register 0x29 = 0x%02X: the requested read-circuit setting was not applied' % (r.call, r.regs[0x29])
        msg = expected_reads(prog, r) if r.ok() else None
        if msg:
            return msg
    return None


def mon_c19(api, rng, budget, variants):
    programs = fifo_power_programs(api, rng, budget)
    recs = run_monitor_programs(programs)
    viol = [violation('C19', p, m) for p in programs for m in [check_fifo_guard(p, recs[p.id])] if m]
    return {'cases': len(programs), 'violations': viol[:20], 'samples': [programs[0].describe()],
            'notes': ['sequences of FIFO power settings (accepted, failed on the bus, with other FIFO settings, self-test, soft reset) and reads of '
                      'length 0..1024; refusal judged against bit 0 of the simulated chip register 0x29']}


PROPS['C19'] = {
    'targets': ['props/C19.vo', 'spec/BuilderThm_FifoConfigBuilder.vo'],
    'theorems': [('props.C19', n) for n in ['c19_guard_is_bit0', 'c19_refused_iff_device_flag', 'c19_commands', 'c19_reset_reenables']]
                + [('props.C16', 'c16_every_history'), ('spec.BuilderThm_FifoConfigBuilder', 'builder_FifoConfigBuilder')],
    'corr_gen': lambda api, rng, n: fifo_power_programs(api, rng, n),
    'corr_n': (300, 4000), 'monitor': mon_c19, 'monitor_n': (600, 20000), 'judge': check_fifo_guard,
    'statement': 'read_fifo_frames is, by conversion, a guard on bit 0 of the shadow FIFO_PWR_CONFIG followed by ONE burst read of exactly the buffer '
                 'length from 0x14; in every reachable world (C16 invariant, any fault history) the guard refuses with FifoReadWhilePwrDisable and '
                 'no bus traffic iff bit 0 of the DEVICE register 0x29 is set; flush / clear-step-count / soft-reset send 0xB0 / 0xB1 / 0xB6 to '
                 '0x7E; the reset shadow has the flag clear',
}


def reset_programs(api, rng, n):
    """(history; soft_reset; follow-up) and its twin (fresh; follow-up) with the same chip data"""
    out = []
    for k in range(n):
        hist = [P.random_call(api, rng, allow_load=False, fault_rate=0.25) for _ in range(rng.randint(1, 8))]
        # the read-only data (step counter, FIFO content) is not part of the reset state compared here
        hist = [c for c in hist if c.op not in ('clear_step_count', 'flush_fifo', 'read_fifo_frames')]
        follow = [P.random_call(api, rng, allow_load=False, fault_rate=0.0) for _ in range(rng.randint(1, 6))]
        # make coincidences with pre-reset values likely: repeat some history requests after the reset
        follow += [Call(c.op, c.args, c.setters) for c in hist if c.op in api.maker and rng.random() < 0.6]
        ro, _fifo, pos, neg = P.random_scenario(rng)
        ro = bytes([0x90]) + ro[1:]
        # injected failures are bus failures: over SPI an index may hit a chip-select pin call, which the property does not cover
        ctor = 'i2c' if any(c.faults for c in hist) else rng.choice(['i2c', 'spi'])
        reset_call = Call('soft_reset')
        if rng.random() < 0.3:
            reset_call = Call('soft_reset', faults=[rng.choice([0, 1])])     # a reset whose bus transaction fails must not report Ok
            ctor = 'i2c'
        a = Prog('ra%d' % k, ctor, hist + [reset_call] + follow, ro, b'', pos, neg)
        b = Prog('rb%d' % k, ctor, follow, ro, b'', pos, neg)
        a.n_hist, a.twin = len(hist) + 1, b
        out += [a, b]
    return out


def c11_compare(p, ra, rb, n_hist):
    """(history; soft_reset; follow-up) against (fresh; follow-up): message or None; None also when the reset did not return Ok"""
    if len(ra) <= n_hist:
        return None
    rs = ra[n_hist]
    if not rs.ok():
        return None
    ev = implrun.reg_events(rs.raw)
    if ev != [('w', 0x7E, 0xB6), ('r', 0x0D, 1)]:
        return 'soft_reset issued %r' % (ev,)
    # Ok means: command acknowledged AND event register read (reset flag cleared); over I2C one HAL call is one transaction
    if rs.call.faults and rs.call.faults[0] < len(rs.raw):
        return ('soft_reset returned Ok although its bus transaction %d (%s) failed' %
                (rs.call.faults[0], 'the reset command' if rs.call.faults[0] == 0 else 'the event-register read that clears the reset flag'))
    for x, y in zip(ra[n_hist + 1:], rb[1:]):
        if (x.status, x.payload, x.err, x.tok) != (y.status, y.payload, y.err, y.tok):
            return 'after (history; soft_reset) %r returns %s, on a fresh driver %s' % (x.call, x.result_str(), y.result_str())
        if implrun.reg_events(x.raw) != implrun.reg_events(y.raw):
            return 'after (history; soft_reset) %r issues %r, on a fresh driver %r' % (x.call, implrun.reg_events(x.raw), implrun.reg_events(y.raw))
        if x.regs[25:124] + x.regs[125:126] != y.regs[25:124] + y.regs[125:126]:
            return 'device state after %r differs from the fresh run' % (x.call,)
    return None


def mon_c11(api, rng, budget, variants):
    programs = reset_programs(api, rng, budget // 2)
    recs = run_monitor_programs(programs)
    viol, cases = [], 0
    for p in programs:
        if not hasattr(p, 'twin'):
            continue
        ra, rb = recs[p.id], recs[p.twin.id]
        if len(ra) > p.n_hist and ra[p.n_hist].ok():
            cases += 1
        msg = c11_compare(p, ra, rb, p.n_hist)
        if msg:
            viol.append(violation('C11', p, msg))
    return {'cases': cases, 'violations': viol[:20], 'samples': [programs[0].describe()],
            'notes': ['differential: (history with rejected and bus-failed calls; soft_reset; follow-up) vs (fresh driver + fresh chip; follow-up); the '
                      'follow-up repeats history requests so that stale belief would coincide with a pre-reset value; registers 0x19..0x7B, 0x7D compared; '
                      'an Ok reset must have had both its transactions succeed']}


def judge_c11(prog, recs):
    """replay: the twin (fresh driver, the calls after the first soft_reset) is rebuilt from the program"""
    idx = [i for i, c in enumerate(prog.calls) if c.op == 'soft_reset']
    if not idx:
        return None
    n_hist = idx[0] + 1
    twin = Prog(prog.id + '_fresh', prog.ctor, prog.calls[n_hist:], prog.ro, b'', prog.pos, prog.neg)
    rb = run_monitor_programs([twin])[twin.id]
    return c11_compare(prog, recs, rb, n_hist)


PROPS['C11'] = {
    'targets': ['props/C11.vo', 'props/C13.vo'],
    'theorems': [('props.C11', n) for n in ['c11_reset_state', 'c11_follow_up', 'c11_registers_at_reset', 'c11_failed_reset']] + [('props.C13', 'c13_every_operation')],
    'corr_gen': lambda api, rng, n: reset_programs(api, rng, n // 2),
    'corr_n': (300, 4000), 'monitor': mon_c11, 'monitor_n': (400, 10000), 'judge': judge_c11,
    'statement': 'for EVERY world (any history, any earlier failure, any fault plan): if soft_reset returns Ok its journal is [write 0x7E<-0xB6; read '
                 '0x0D x1], the shadow is the default configuration and the chip is a power-on chip with the same read-only data - exactly the '
                 'state of a newly constructed driver - hence the register-level behaviour of every follow-up program is identical; over SPI the '
                 'call also ends with chip-select high and the decoder idle (C13)',
    'assumptions': ['IF_CONF (0x7C, 3-wire mode) belongs to the transport constructor and is not part of the compared state (DESIGN.md section 10)'],
}


def ctor_programs(api, rng, n):
    out = []
    k = 0
    for ctor in ('i2c', 'spi', 'spi3'):
        for idv in range(256):
            ro = bytearray(25)
            ro[0] = idv
            calls = [Call('get_id')] if idv == 0x90 else []
            out.append(Prog('id%d' % k, ctor, calls, ro))
            k += 1
    # first requests on a fresh driver
    for mk in sorted(api.maker):
        out.append(Prog('fr%d' % k, rng.choice(['i2c', 'spi']), [Call(mk)]))
        k += 1
        for _ in range(max(1, n // 40)):
            out.append(Prog('fr%d' % k, rng.choice(['i2c', 'spi']), [Call(mk, setters=P.rand_setters(api, rng, api.maker[mk], rng.randint(1, 3)))]))
            k += 1
    return out


def check_ctor(prog, recs):
    r0 = recs[0]
    idv = prog.ro[0]
    ev = implrun.reg_events(r0.raw)
    want = {'i2c': [('r', 0, 1)], 'spi': [('r', 0, 1), ('r', 0, 1)], 'spi3': [('r', 0, 1), ('r', 0, 1), ('w', 0x7C, 1)]}[prog.ctor]
    if ev != want:
        return 'constructor %s issued %r, expected %r' % (prog.ctor, ev, want)
    if idv == 0x90 and r0.status != 'ok':
        return 'constructor %s failed on chip id 0x90: %s' % (prog.ctor, r0.result_str())
    if idv != 0x90 and not (r0.status == 'err' and r0.err == 'ChipIdReadFailed'):
        return 'constructor %s on chip id 0x%02X returned %s' % (prog.ctor, idv, r0.result_str())
    if prog.id.startswith('fr') and len(recs) > 1:
        r = recs[1]
        reset = [P.ds.REGS[n][1] for n in P.ds.REGS]
        before = [0] * 128
        for (a, rst, _m) in P.ds.REGS.values():
            if a < 128:
                before[a] = rst
        if r.ok():
            want_blk = dseval.expected_block(r.call.op, r.call.setters, before)
            written = [e[1] for e in implrun.reg_events(r.raw) if e[0] == 'w']
            need = sorted(a for a, v in want_blk.items() if v != before[a])
            if sorted(set(written)) != need:
                return 'first request %r wrote registers %r; those differing from the reset values are %r' % (r.call, sorted(set(written)), need)
    return None


def mon_c18(api, rng, budget, variants):
    programs = ctor_programs(api, rng, budget)
    recs = run_monitor_programs(programs)
    viol = [violation('C18', p, m) for p in programs for m in [check_ctor(p, recs[p.id])] if m]
    return {'cases': len(programs), 'violations': viol[:20], 'samples': [programs[0x90].describe()],
            'notes': ['all 256 chip-id values x the three constructors (exhaustive); first request per builder on a fresh driver: empty request writes '
                      'nothing, any other writes exactly the registers whose requested byte differs from the datasheet reset value']}


PROPS['C18'] = {
    'targets': ['props/C18.vo'],
    'theorems': [('props.C18', n) for n in ['c18_constructor', 'c18_state_after', 'c18_defaults_are_datasheet', 'c18_3wire']],
    'corr_gen': lambda api, rng, n: ctor_programs(api, rng, 40),
    'corr_n': (800, 800), 'monitor': mon_c18, 'monitor_n': (800, 4000), 'judge': check_ctor,
    'statement': 'hand model of the three constructors (tied by correspondence over all 256 id values x 3 constructors on every run): a driver is '
                 'returned iff the id register reads 0x90, else ChipIdReadFailed; register-level events: one id read (I2C), a throw-away read then '
                 'the id read (SPI), additionally IF_CONF 0x7C <- 0x01 (3-wire); the default shadow configuration equals the datasheet reset table '
                 'on all 57 registers; the first-request clause follows from C01/C08 at the initial world and is exercised by the monitor',
    'exhaustive': True,
}


# ----------------------------------------------------------------------------- C01 / C07 / C08: builder calls from enable-rich states
PARAM_OWNER = []   # (param addr, enable addr, mask) from the datasheet table
for (_n, ereg, emask, params) in ds.PARAM_OWNERS:
    for p_ in params:
        PARAM_OWNER.append((ds.REGS[p_][0], ds.REGS[ereg][0], emask))
ENABLE_REGS = (0x1F, 0x20, 0x2F)


def builder_state_programs(api, rng, n):
    """reach varied coherent states through accepted calls (interrupts enabled, sources, ODR, mapped pins), then one builder request"""
    out = []
    for k in range(n):
        calls = []
        odr = rng.choice(['Hz100', 'Hz200', 'Hz100', 'Hz50'])
        calls.append(Call('config_accel', setters=[('with_odr', [odr])]))
        for mk in ('config_gen1_int', 'config_gen2_int', 'config_actchg_int'):
            calls.append(Call(mk, setters=[('with_src', [rng.choice(['AccFilt1', 'AccFilt2', 'AccFilt2'])])]))
        if rng.random() < 0.6:
            calls.append(Call('config_wkup_int', setters=[('with_axes', [rng.random() < 0.6, rng.random() < 0.5, rng.random() < 0.5])]))
        if rng.random() < 0.5:
            calls.append(Call('config_int_pins', setters=P.rand_setters(api, rng, api.maker['config_int_pins'], rng.randint(1, 4))))
        b = api.maker['config_interrupts']
        calls.append(Call('config_interrupts', setters=[(s['method'], [rng.random() < 0.6]) for s in rng.sample(b['setters'], rng.randint(2, 9))]))
        for _ in range(rng.randint(1, 3)):
            mk = rng.choice(sorted(api.maker))
            nset = rng.choice([0, 1, 1, 2, 3])
            calls.append(Call(mk, setters=P.rand_setters(api, rng, api.maker[mk], nset)))
            if rng.random() < 0.2:
                calls.append(Call(mk, setters=calls[-1].setters))      # re-apply the same request
        out.append(Prog('bs%d' % k, rng.choice(['i2c', 'spi']), calls))
    return out


def check_builder_call(r, which):
    """C01 / C07 / C08 on one builder call record (needs regs before / after)"""
    if r.call.op not in dseval.MAKER_BUILDER or r.regs_before is None or r.call.faults:
        return None
    before, after = r.regs_before, r.regs
    ev = implrun.reg_events(r.raw)
    if r.status == 'panic':
        return 'panic in %r' % r.call
    if r.status == 'err':
        if which in ('C01', 'C08') and (after != before or ev):
            return 'rejected %r changed the device or caused bus traffic %r' % (r.call, ev)
        return None
    want = dseval.expected_block(r.call.op, r.call.setters, before)
    if which == 'C01':
        for a in range(128):
            exp = want.get(a, before[a])
            if after[a] != exp:
                return 'after accepted %r register 0x%02X = 0x%02X, expected 0x%02X (before the call 0x%02X)' % (r.call, a, after[a], exp, before[a])
        if r.shadow is not None:
            pass
        return None
    regs = list(before)
    writes = {}
    for e in ev:
        if e[0] == 'r':
            return '%r reads register 0x%02X' % (r.call, e[1]) if which == 'C08' else None
        if e[0] == '?':
            return '%r: ill-framed access' % (r.call,)
        if e[0] != 'w':
            continue
        a, v = e[1], e[2]
        if which == 'C07':
            for (p_, en, m) in PARAM_OWNER:
                if p_ == a and regs[en] & m:
                    return '%r writes parameter register 0x%02X <- 0x%02X while its interrupt is enabled on the device (0x%02X = 0x%02X)' % (r.call, a, v, en, regs[en])
        writes.setdefault(a, []).append(v)
        regs[a] = v
    if which == 'C08':
        for a, vs in writes.items():
            if a in want and a not in ENABLE_REGS:
                if want[a] == before[a]:
                    return '%r writes block register 0x%02X although the device already holds the requested 0x%02X' % (r.call, a, before[a])
            elif a in ENABLE_REGS and a not in want:
                o = before[a]
                if not (vs[0] & o == vs[0] and vs[0] != o and all(x & o == x for x in vs) and vs[-1] == o):
                    return '%r writes enable register 0x%02X with %r (original 0x%02X): not a clear-then-restore toggle' % (r.call, a, ['0x%02X' % x for x in vs], o)
            elif a in ENABLE_REGS and a in want:
                if a != 0x2F and (want[a] == before[a] or vs != [want[a]]):
                    return '%r writes its own enable register 0x%02X with %r (held 0x%02X, requested 0x%02X)' % (r.call, a, vs, before[a], want[a])
            elif a not in want:
                return '%r writes register 0x%02X outside its block and the enable registers' % (r.call, a)
    return None


def builder_monitor(pid):
    def mon(api, rng, budget, variants):
        programs = builder_state_programs(api, rng, budget)
        # a request cut short by a bus failure, then the same request again: the retry is judged like any other call, from the device
        # state the failure left behind (a register the device already holds must not be rewritten; the final state is the request)
        for k, base in enumerate(builder_state_programs(api, rng, max(40, budget // 5))):
            last = base.calls[-1]
            if last.op not in api.maker or not last.setters:
                continue
            cut = Call(last.op, last.args, last.setters, faults=[rng.randint(0, 5)])
            programs.append(Prog('br%d' % k, 'i2c', base.calls[:-1] + [cut, Call(last.op, last.args, last.setters)]))
        recs = run_monitor_programs(programs)
        viol, cases = [], 0
        for p in programs:
            for r in recs[p.id][1:]:
                cases += 1
                msg = check_builder_call(r, pid)
                if msg:
                    viol.append(violation(pid, p, msg))
                    break
        return {'cases': cases, 'violations': viol[:20], 'samples': [programs[0].describe()],
                'notes': ['builder requests (no setter, single, several, re-applied) from coherent states with random interrupt enables, sources, ODR and '
                          'pin maps reached through accepted calls; judged on the simulated chip against spec/datasheet.py']}
    return mon


def builder_judge(pid):
    def j(prog, recs):
        for r in recs[1:]:
            m = check_builder_call(r, pid)
            if m:
                return m
        return None
    return j


def wf_theorems():
    d = json.load(open(os.path.join(COQ, 'spec/WfThms.json')))
    return [('spec.WfThms', n) for k in ('apply', 'wfk', 'op') for n in d[k]]


def builder_theorems():
    d = json.load(open(os.path.join(COQ, 'spec/builder_thms.json')))
    return [(m, n) for m, n in d['thm_mods']] + [('spec.BuilderProps', n) for n in d['device_theorems']]


BUILDER_PARTIAL = ('proved for all 12 builder write() bodies (accelerometer, interrupts, pin mapping, FIFO, auto-low-power, auto-wake-up, wake-up, '
                   'orientation, generic 1, generic 2, activity change, tap); side condition of each per-call theorem: shadow and request bytes are '
                   'below 256 (u8 typing) - itself proved an invariant of every history of well-typed API calls at every exit (props/C01.v: '
                   'c01_state_history, spec/WfThms.v)')
for pid_, extra, stmt in (
    ('C01', ['props.C01'], 'per builder, from every coherent state and for every byte-valued request: rejected with nothing changed, or accepted with the shadow = '
            'previous shadow with the block replaced by the request, the device enables 0x1F/0x20/0x2F = the expected ones (temporarily cleared bits are '
            'back) and every register outside block and enables untouched; with C16 the device holds the shadow on all 57 registers after every history'),
    ('C07', ['props.C07'], 'per builder: every journal entry carries the DEVICE enables at the instant of that write (entries_match) and for every parameter '
            'register of the datasheet owner table the owning enable bits are clear at that instant (c07_meaning)'),
    ('C08', ['props.C08'], 'per builder: no read; every write addresses the block or an enable register; a block register is written only with the requested value '
            'and only if the device held a different one at call time; foreign enable registers follow clear-then-restore (toggle_ok), own ones own_ok; '
            're-applying the current configuration writes no block register'),
):
    names = {'C01': ['c01_coherent_history', 'c01_fifo_instance', 'keepsw_self_test', 'step_keepsw', 'c01_wf_every_exit', 'c01_state_history', 'c01_initial_ready', 'c01_every_builder_call_ready', 'c01_all_ready_history', 'c01_all_ready_history_i2c'], 'C07': ['c07_meaning'], 'C08': ['c08_no_read', 'c08_entry_meaning', 'c08_reapply']}[pid_]
    PROPS[pid_] = {
        'targets': ['spec/BuilderProps.vo', 'props/%s.vo' % pid_] + (['spec/WfThms.vo'] if pid_ == 'C01' else []),
        'theorems': (lambda names=names, pid_=pid_: builder_theorems() + [('props.' + pid_, n) for n in names] + (wf_theorems() if pid_ == 'C01' else [])),
        'corr_gen': lambda api, rng, n: builder_state_programs(api, rng, n),
        'corr_n': (250, 4000), 'monitor': builder_monitor(pid_), 'monitor_n': (500, 20000), 'judge': builder_judge(pid_),
        'statement': BUILDER_PARTIAL + '. ' + stmt,
        'rule': 'symbolic execution of the generated write() bodies over an explicit record of 57 symbolic bytes, guarded mirrored writes merged into if-valued fields; '
                'verification conditions closed by congruence and by kernel evaluation over the enable byte',
        'assumptions': ['shadow bytes and request bytes are below 256 (what the API produces: C02)'],
    }


# ----------------------------------------------------------------------------- C06: ODR validity
ODR_MAKERS = ['config_accel', 'config_interrupts', 'config_gen1_int', 'config_gen2_int', 'config_actchg_int']
ODR_NAMES = sorted(ds.ENUMS['OutputDataRate'])


def odr_rules_violated(regs):
    """indices of the datasheet rules (spec/datasheet.py ODR_RULES) the register file violates"""
    out = []
    odr = regs[ds.REGS[ds.ODR_REG][0]] & ds.ODR_MASK
    for i, (e, em, sr, sm, code, kind) in enumerate(ds.ODR_RULES):
        if not regs[ds.REGS[e][0]] & em:
            continue
        if sr and regs[ds.REGS[sr][0]] & sm:
            continue
        if odr != code:
            out.append(i)
    return out


def odr_programs(api, rng, n, faults=True):
    """walks through ODR / enable / source requests (accepted and rejected), other builders, self-tests and resets, some calls cut by a bus fault"""
    out = []
    ints = [s['method'] for s in api.maker['config_interrupts']['setters']]
    hot = ['with_gen1_int', 'with_gen2_int', 'with_actch_int', 'with_d_tap_int', 'with_s_tap_int']
    for k in range(n):
        calls = []
        for _ in range(rng.randint(5, 11)):
            x = rng.random()
            if x < 0.25:
                c = Call('config_accel', setters=[('with_odr', [rng.choice(['Hz100', 'Hz200', 'Hz100', 'Hz200'] + ODR_NAMES)])])
            elif x < 0.50:
                st = [(m, [rng.random() < 0.6]) for m in rng.sample(hot, rng.randint(1, 3))]
                if rng.random() < 0.3:
                    st += [(m, [rng.random() < 0.5]) for m in rng.sample(ints, 2)]
                c = Call('config_interrupts', setters=st)
            elif x < 0.75:
                mk = rng.choice(['config_gen1_int', 'config_gen2_int', 'config_actchg_int'])
                st = [('with_src', [rng.choice(['AccFilt1', 'AccFilt2', 'AccFilt1', 'AccFilt2Lp'])])] if rng.random() < 0.8 else []
                if rng.random() < 0.4:
                    st += P.rand_setters(api, rng, api.maker[mk], 1)
                c = Call(mk, setters=st)
            elif x < 0.80:
                c = Call('perform_self_test')
            elif x < 0.84:
                c = Call('soft_reset')
            else:
                mk = rng.choice(sorted(api.maker))
                c = Call(mk, setters=P.rand_setters(api, rng, api.maker[mk], rng.choice([0, 1, 2])))
            if faults and rng.random() < 0.15:
                c.faults = [rng.randint(0, 12)]
            calls.append(c)
        out.append(Prog('od%d' % k, 'i2c' if faults else rng.choice(['i2c', 'spi']), calls, pos=bytes([0, 8] * 3), neg=bytes(6)))
    return out


def check_odr(prog, recs):
    for r in recs[1:]:
        if r.status == 'panic':
            return 'panic in %r' % (r.call,)
        if r.regs is not None:
            bad = odr_rules_violated(r.regs)
            if bad:
                e, em, sr, sm, code, kind = ds.ODR_RULES[bad[0]]
                return ('after %r (%s) the device has %s & 0x%02X enabled%s at ACC_CONFIG1 = 0x%02X (ODR field must be %d)'
                        % (r.call, r.result_str(), e, em, ' on filter 1' if sr else '', r.regs[ds.REGS[ds.ODR_REG][0]], code))
        if r.call.op not in dseval.MAKER_BUILDER or r.regs_before is None or r.call.faults:
            continue
        rejected = r.status == 'err' and r.err == 'ConfigBuildError'
        if r.call.op not in ODR_MAKERS:
            if rejected:
                return '%r was rejected (%s) although it cannot change a register of the ODR rules' % (r.call, r.tok)
            continue
        want = dseval.expected_block(r.call.op, r.call.setters, r.regs_before)
        asked = list(r.regs_before)
        for a, v in want.items():
            asked[a] = v
        bad = odr_rules_violated(asked)
        ev = implrun.reg_events(r.raw)
        if rejected:
            kind = {'TapIntEnabledInvalidODR': 0, 'Filt1InterruptInvalidODR': 1}.get(r.tok)
            if not bad:
                return '%r was rejected (%s) although the requested state satisfies every ODR rule' % (r.call, r.tok)
            if kind not in [ds.ODR_RULES[i][5] for i in bad]:
                return '%r was rejected with %s, the rules the requested state violates are of the other kind' % (r.call, r.tok)
            if ev or r.regs != r.regs_before:
                return 'rejected %r changed the device or caused bus traffic %r' % (r.call, ev)
        elif r.status == 'ok' and bad:
            return '%r was accepted although the requested state violates ODR rule %d' % (r.call, bad[0])
    return None


def mon_c06(api, rng, budget, variants):
    programs = odr_programs(api, rng, budget)
    recs = run_monitor_programs(programs)
    viol, cases, rej, acc = [], 0, 0, 0
    for p in programs:
        for r in recs[p.id][1:]:
            cases += 1
            if r.status == 'err' and r.err == 'ConfigBuildError':
                rej += 1
            elif r.ok() and r.call.op in ODR_MAKERS:
                acc += 1
        msg = check_odr(p, recs[p.id])
        if msg:
            viol.append(violation('C06', p, msg))
    return {'cases': cases, 'violations': viol[:20], 'samples': [programs[0].describe()],
            'notes': ['random walks over ODR / interrupt-enable / source requests, other builders, self-tests, resets, 15%% of the calls cut by a bus fault; '
                      'device registers judged after every call against spec/datasheet.py ODR_RULES; %d rejections, %d accepted requests of the five deciding builders' % (rej, acc)]}


def judge_c06(prog, recs):
    return check_odr(prog, recs)


def odr_theorems():
    d = json.load(open(os.path.join(COQ, 'spec/odr_thms.json')))
    return ([('spec.OdrThms', n) for n in d['odr'] + d['keeps']] + [('spec.OdrDecide', n) for n in d['decide']]
            + [('props.C06', n) for n in ['keeps_self_test', 'step_keeps', 'c06_every_exit', 'c06_every_call', 'c06_every_history', 'c06_initial',
                                          'c06_device_history', 'c06_device_history_i2c', 'c06_reject_iff_accel', 'c06_reject_iff_interrupts', 'c06_reject_iff_gen1', 'c06_reject_iff_gen2', 'c06_reject_iff_actchg']])


PROPS['C06'] = {
    'targets': ['spec/OdrThms.vo', 'spec/OdrDecide.vo', 'props/C06.vo'],
    'theorems': odr_theorems,
    'corr_gen': lambda api, rng, n: odr_programs(api, rng, n),
    'corr_n': (250, 4000), 'monitor': mon_c06, 'monitor_n': (500, 20000), 'judge': judge_c06,
    'statement': 'rule table from the datasheet (tap: ODR field = 200 Hz; generic 1/2 and activity change on filter 1: 100 Hz). (a) every API operation keeps the rules '
                 'true of the shadow at every point where the call can end (return, rejection, panic, before every bus transaction), for every transport and fault plan: '
                 'path-sensitive weakest-precondition proof over every generated builder body and the self-test, traversal of every other body (step_keeps, c06_every_exit); '
                 '(b) with C16 the DEVICE satisfies the rules after every call of every history from a fresh driver (c06_device_history); (c) the five deciding builder bodies '
                 'accept exactly the requests whose requested state satisfies the rules, a rejection leaves shadow and bus untouched and carries the error kind whose rules are '
                 'violated (decide_<Builder>, c06_reject_iff_*); the other builders never reject (their failure postcondition is False)',
    'rule': 'wpx: the rules as an obligation before every bus transaction and at every exit; obligations closed by monotonicity (clearing enable bits) or by kernel '
            'evaluation over the bit tests and the 4-bit ODR field that occur in them',
    'assumptions': ['(b) inherits the assumption of C16: a failed register transaction is not applied (T_reg fault model; over I2C it coincides with the HAL model)',
                    '(c) the decision theorems take shadow and request bytes below 256 (u8 typing), as the C01 theorems they use'],
}


# ----------------------------------------------------------------------------- C10: self-test
def selftest_programs(api, rng, n):
    out = []
    for k in range(n):
        base = builder_state_programs(api, rng, 1)[0]
        pos, neg = P.selftest_bytes(rng, rng.random() < 0.5)
        calls = base.calls + [Call('config_accel', setters=[('with_power_mode', [rng.choice(['Sleep', 'LowPower', 'Normal'])]),
                                                             ('with_scale', [rng.choice(['Range2G', 'Range8G', 'Range16G', 'Range4G'])])]),
                              Call('config_fifo', setters=[('with_axes', [rng.random() < 0.7, rng.random() < 0.5, rng.random() < 0.5])]),
                              Call('perform_self_test')]
        out.append(Prog('st%d' % k, rng.choice(['i2c', 'spi']), calls, pos=pos, neg=neg))
    return out


def check_selftest(prog, recs):
    r = recs[-1]
    if r.call.op != 'perform_self_test' or r.regs_before is None:
        return None
    if r.status == 'panic':
        return 'panic in perform_self_test'
    before, after = r.regs_before, r.regs
    ev = implrun.reg_events(r.raw)
    regs = list(before)
    st_writes, reads, delay_since = [], [], 0
    state_at_excitation = None
    for e in ev:
        if e[0] == 'd':
            delay_since += e[1]
        elif e[0] == 'w':
            if e[1] == 0x7D:
                if not st_writes:
                    state_at_excitation = list(regs)
                st_writes.append(e[2])
                delay_since = 0
            regs[e[1]] = e[2]
        elif e[0] == 'r':
            if (e[1], e[2]) != (4, 6):
                return 'self-test read %r, expected a 6-byte burst from 0x04' % (e,)
            reads.append((len(st_writes), delay_since))
        else:
            return 'ill-framed access in the self-test'
    if st_writes != [0x07, 0x0F, 0x00]:
        return 'excitation register written with %r, expected [0x07, 0x0F, 0x00]' % (['0x%02X' % x for x in st_writes],)
    if [x[0] for x in reads] != [1, 2]:
        return 'data reads are not one after each excitation write: %r' % (reads,)
    if any(d < 50 for _n, d in reads):
        return 'data read after only %r ms of settling' % ([d for _n, d in reads],)
    s = state_at_excitation
    if s[0x1F] != 0 or s[0x20] != 0 or s[0x26] & 0xE0 or (s[0x19] & 3) != 2 or (s[0x19] & ~3 & 0xFF) != (before[0x19] & ~3 & 0xFF) or s[0x1A] != 0x78:
        return 'state at the first excitation: 0x1F=%02X 0x20=%02X 0x26=%02X 0x19=%02X 0x1A=%02X' % (s[0x1F], s[0x20], s[0x26], s[0x19], s[0x1A])
    if after != before:
        a = [i for i in range(128) if after[i] != before[i]][0]
        return 'register 0x%02X = 0x%02X after the self-test, 0x%02X before' % (a, after[a], before[a])
    d = [sext12(prog.pos[2 * i], prog.pos[2 * i + 1]) - sext12(prog.neg[2 * i], prog.neg[2 * i + 1]) for i in range(3)]
    want_ok = d[0] > 1500 and d[1] > 1200 and d[2] > 250
    if want_ok != (r.status == 'ok') or (not want_ok and r.err != 'SelfTestFailedError'):
        return 'differences %r: verdict %s' % (d, r.result_str())
    return None


def mon_c10(api, rng, budget, variants):
    programs = selftest_programs(api, rng, budget)
    recs = run_monitor_programs(programs)
    viol = [violation('C10', p, m) for p in programs for m in [check_selftest(p, recs[p.id])] if m]
    return {'cases': len(programs), 'violations': viol[:20], 'samples': [programs[0].describe()],
            'notes': ['prior configurations reached through accepted calls (all power modes, ranges, FIFO axes, interrupt enables); responses around and away from the '
                      'thresholds; interleaved journal of writes, reads and delay requests; register file before / after']}


PROPS['C10'] = {
    'targets': ['props/C10.vo', 'props/C16.vo'],
    'theorems': [('props.C10', n) for n in ['c10_no_overflow', 'c10_run', 'c10_settled', 'c10_restores_shadow', 'c10_restores']] + [('props.C16', 'c16_every_history')],
    'corr_gen': lambda api, rng, n: selftest_programs(api, rng, n),
    'corr_n': (200, 3000), 'monitor': mon_c10, 'monitor_n': (400, 10000), 'judge': check_selftest,
    'statement': 'on the register-level semantics, for every shadow made of bytes, every chip and every pair of recorded responses: perform_self_test performs exactly '
                 'the events st_events d in that order (interrupts, auto-wake-up interrupt and FIFO axis capture off, normal mode with the other bits kept, ACC_CONFIG1 <- 0x78, '
                 'delay 2, 0x7D<-0x07, delay 50, one 6-byte read at 0x04, 0x7D<-0x0F, delay 50, one 6-byte read, 0x7D<-0x00, delay 50, the six saved values written back), returns Ok '
                 'exactly when the differences of the decoded samples exceed 1500 / 1200 / 250 and SelfTestFailedError otherwise, shadow unchanged (c10_run; c10_settled: every read '
                 'follows its excitation write after >= 50 ms with no other traffic); the proof evaluates `sem` through the generated body by rewriting, independent of the order of its '
                 'pure computations. End to end under any fault plan that lets the call reach its verdict: '
                 'the shadow afterwards is the shadow before and every shadowed device register holds its previous value (c10_restores: wpx over the whole body + C16)',
}
