"""Per-property definitions: proof targets, audited theorems, scoped correspondence generators and the
implementation-side monitors (used as smoke runs and as the search for a failing input when a tie breaks)."""
import json, os, random
import progs as P
import corr, implrun, dseval
from progs import Call, Prog

ds = P.ds
COQ = corr.COQ


# ----------------------------------------------------------------------------- helpers
def fresh(pid, calls, ctor='i2c', **kw):
    return Prog(pid, ctor, calls, **kw)


def run_monitor_programs(programs, variant='default'):
    impl = corr.run_impl(programs, variant, dump_each=True, tag='mon')
    return {p.id: implrun.records(p, impl[p.id]) for p in programs}


def violation(pid, prog, message, site=None, extra=None):
    v = {'message': message, 'replay': {'program': prog_to_json(prog)}, 'program': prog.describe()}
    if site:
        v['site'] = site
    if extra:
        v.update(extra)
    return v


def prog_to_json(p):
    return {'id': p.id, 'ctor': p.ctor, 'ctor_faults': p.ctor_faults, 'ro': p.ro.hex(), 'fifo': p.fifo.hex(), 'pos': p.pos.hex(),
            'neg': p.neg.hex(), 'calls': [{'op': c.op, 'args': c.args, 'setters': c.setters, 'faults': c.faults} for c in p.calls]}


def prog_from_json(j):
    return Prog(j['id'], j['ctor'], [Call(c['op'], c['args'], [(m, a) for m, a in c['setters']], c['faults']) for c in j['calls']],
                bytes.fromhex(j['ro']), bytes.fromhex(j['fifo']), bytes.fromhex(j['pos']), bytes.fromhex(j['neg']), j['ctor_faults'])


def setter_theorems():
    d = json.load(open(os.path.join(COQ, 'spec/setter_spec.json')))
    return [(m, n) for m, n in d['lemma_mods']]


ALL_ARGS = {
    'bool': [False, True],
    'u8': list(range(256)),
    'i8': list(range(-128, 128)),
}
BOUNDARY = {
    'u8': [0, 1, 2, 7, 8, 9, 15, 16, 127, 128, 254, 255],
    'u16': [0, 1, 15, 16, 255, 256, 257, 1023, 1024, 1025, 2047, 2048, 4094, 4095, 4096, 4097, 0x8000, 65535],
    'i8': [-128, -127, -1, 0, 1, 126, 127],
    'i16': [-32768, -4097, -2049, -2048, -2047, -257, -256, -1, 0, 1, 255, 256, 2046, 2047, 2048, 4095, 32767],
}


def arg_values(api, rng, kind, thorough):
    if kind == 'bool':
        return [False, True]
    if kind.startswith('enum:'):
        en = kind.split(':')[1]
        out = []
        for name, pay in api.enums[en]:
            if pay:
                out += ['%s.%s' % (name, s) for s, _ in api.enums[pay[0]]]
            else:
                out.append(name)
        return out
    if thorough and kind in ALL_ARGS:
        return ALL_ARGS[kind]
    vals = list(BOUNDARY[kind])
    lo, hi = {'u8': (0, 255), 'u16': (0, 65535), 'i8': (-128, 127), 'i16': (-32768, 32767)}[kind]
    vals += [rng.randint(lo, hi) for _ in range(40 if thorough else 3)]
    return vals


def background_loads(api, rng, maker, zero=False):
    """`load` calls giving the builder's block a random well-formed content (coherent shadow and chip)"""
    bname, variant = dseval.MAKER_BUILDER[maker]
    calls = []
    for _f, _reg, a, m in dseval.block_regs(bname, variant):
        v = 0 if zero else rng.getrandbits(8) & m
        if a == 0x1A:
            v = (v & 0xF0) | rng.choice([5, 6, 7, 8, 9, 10, 11])       # the ODR field only holds its seven codes
        calls.append(Call('load', [a, v]))
    return calls


# ----------------------------------------------------------------------------- C02 / C09: setters
def setter_programs(api, rng, n, thorough=False):
    """one program per (setter, argument tuple, background): loads, then the single-setter request"""
    out = []
    makers = sorted(api.maker)
    k = 0
    while len(out) < n:
        for mk in makers:
            b = api.maker[mk]
            for s in b['setters']:
                args = [rng.choice(arg_values(api, rng, kind, thorough)) for _a, kind in s['args']]
                calls = background_loads(api, rng, mk)
                if mk in ('config_interrupts',):
                    # make the request acceptable whatever it enables: sources on filter 2, no tap at the wrong rate
                    calls += [Call('load', [0x3F, 0x10]), Call('load', [0x4A, 0x10]), Call('load', [0x56, 0x10])]
                calls.append(Call(mk, setters=[(s['method'], args)]))
                out.append(fresh('s%d' % k, calls, ctor=rng.choice(['i2c', 'spi'])))
                k += 1
                if len(out) >= n:
                    return out
    return out


def check_setter_program(prog, recs):
    """datasheet expectation for the last call of a setter program; returns a message or None"""
    r = recs[-1]
    call = prog.calls[-1]
    if r.status == 'panic':
        return 'panic in %r' % call
    if r.status == 'err':
        if r.err == 'ConfigBuildError':
            if r.regs != r.regs_before:
                return 'rejected request changed the device'
            return None
        return 'unexpected error %s' % r.result_str()
    before, after = r.regs_before, r.regs
    want = dseval.expected_block(call.op, call.setters, before)
    for a in range(128):
        exp = want.get(a, before[a])
        if after[a] != exp:
            return 'register 0x%02X = 0x%02X after %r, datasheet table says 0x%02X (was 0x%02X)' % (a, after[a], call, exp, before[a])
    for (a, _rst, m) in ds.REGS.values():
        if a < 128 and after[a] & ~m & 0xFF:
            return 'reserved bit set in register 0x%02X: 0x%02X' % (a, after[a])
    return None


def setter_monitor(pid):
    def mon(api, rng, budget, variants):
        thorough = budget >= 20000
        programs = setter_programs(api, rng, budget, thorough)
        recs = run_monitor_programs(programs)
        viol = []
        for p in programs:
            rs = recs[p.id]
            if len(rs) != len(p.calls) + 1:
                continue
            msg = check_setter_program(p, rs)
            if msg:
                viol.append(violation(pid, p, msg))
        return {'cases': len(programs), 'violations': viol, 'samples': [p.describe() for p in programs[:2]],
                'notes': ['every public setter with boundary and random arguments on random well-formed backgrounds; '
                          'expected bytes from spec/datasheet.py']}
    return mon


def replay(pid, api, rp):
    """re-run a recorded failing input on the implementation with the property's own judgement"""
    prog = prog_from_json(rp['program'])
    recs = run_monitor_programs([prog])[prog.id]
    judge = PROPS[pid].get('judge')
    msg = judge(prog, recs) if judge else None
    return {'program': prog.describe(), 'results': [r.result_str() for r in recs], 'violates': bool(msg), 'message': msg}


PROPS = {}

PROPS['C02'] = {
    'targets': ['spec/SetterSpec.vo'],
    'theorems': setter_theorems,
    'corr_gen': lambda api, rng, n: setter_programs(api, rng, n),
    'corr_n': (300, 6000),
    'monitor': setter_monitor('C02'),
    'monitor_n': (600, 40000),
    'judge': check_setter_program,
    'statement': 'for every public builder setter (list checked against the code), every block content within byte range and every '
                 'argument of the Rust type: the setter returns without panic the block in which exactly the field bits are replaced by '
                 'the datasheet code (whole-register fields: the register equals the code), codes stay inside their mask and the defined '
                 'bits; register addresses, reset values and defined masks equal the datasheet table',
    'rule': 'obligations = per-setter theorems generated from spec/datasheet.py and proved on the regenerated model; correspondence and '
            'monitor programs are single-setter requests on random backgrounds',
    'assumptions': ['the write() path that carries the setter result to the device is covered by C01/C08; here it is exercised by the '
                    'correspondence programs and the monitor only'],
}

PROPS['C09'] = {
    'targets': ['props/C09.vo'],
    'theorems': [('props.C09', n) for n in ['c09_fifo_watermark', 'c09_auto_lp_timeout', 'c09_auto_wkup_period', 'c09_wkup_num_samples',
                                            'c09_wkup_ref_accel', 'c09_gen1_ref_accel', 'c09_gen2_ref_accel', 'c09_orient_ref_accel',
                                            'c09_gen1_duration', 'c09_gen2_duration', 'c09_thresholds_verbatim']],
    'corr_gen': lambda api, rng, n: numeric_setter_programs(api, rng, n),
    'corr_n': (300, 6000),
    'monitor': None,   # filled below
    'monitor_n': (600, 40000),
    'judge': check_setter_program,
    'statement': 'for all values of every numeric argument type and every co-resident byte: watermark lo+256*hi = min(v,1024); timeout / '
                 'wake-up period 16*r0 + r1>>4 = min(v,4095) with the low nibble of r1 unchanged; samples field+1 = clamp(v,1,8), no '
                 'underflow, other bits unchanged; 12-bit references sign-extend to clamp(v,-2048,2047) with msb<16; wake-up reference '
                 'to_signed 8 = v; thresholds and durations verbatim (16-bit durations big-endian)',
    'rule': 'obligations = reassembly theorems over the whole argument type (2^16 / 2^8 values, evaluated in the kernel)',
}


def numeric_setter_programs(api, rng, n, thorough=False):
    out = []
    k = 0
    numeric = []
    for mk in sorted(api.maker):
        for s in api.maker[mk]['setters']:
            if any(kind in ('u8', 'u16', 'i8', 'i16') for _a, kind in s['args']):
                numeric.append((mk, s))
    while len(out) < n:
        for mk, s in numeric:
            args = [rng.choice(arg_values(api, rng, kind, thorough)) for _a, kind in s['args']]
            calls = background_loads(api, rng, mk) + [Call(mk, setters=[(s['method'], args)])]
            out.append(fresh('n%d' % k, calls, ctor=rng.choice(['i2c', 'spi'])))
            k += 1
            if len(out) >= n:
                break
    return out


def numeric_monitor(api, rng, budget, variants):
    thorough = budget >= 20000
    programs = numeric_setter_programs(api, rng, budget, thorough)
    recs = run_monitor_programs(programs)
    viol = []
    for p in programs:
        rs = recs[p.id]
        if len(rs) != len(p.calls) + 1:
            continue
        msg = check_setter_program(p, rs)
        if msg:
            viol.append(violation('C09', p, msg))
    return {'cases': len(programs), 'violations': viol, 'samples': [p.describe() for p in programs[:2]],
            'notes': ['every numeric setter at the documented limits, limit +-1, type extremes and random values, on random backgrounds']}


PROPS['C09']['monitor'] = numeric_monitor
