"""Evaluation of the datasheet table (spec/datasheet.py) in Python, for the implementation-side monitors:
the expected register bytes after a setter, independent of the Coq model and of the driver's code."""
import re
import progs as P
ds = P.ds

FUNS = {
    'N.land': (2, lambda a, b: a & b), 'N.lor': (2, lambda a, b: a | b),
    'N.shiftr': (2, lambda a, b: a >> b), 'N.shiftl': (2, lambda a, b: a << b),
    'N.min': (2, min), 'N.max': (2, max), 'Z.min': (2, min), 'Z.max': (2, max),
    'of_signed': (2, lambda w, z: z % (1 << w)),
}


def tokenize(s):
    return re.findall(r'[A-Za-z_][\w.]*|\d+|[()\-]', s)


def evaluate(expr, env):
    toks = tokenize(expr)
    pos = [0]

    def peek():
        return toks[pos[0]] if pos[0] < len(toks) else None

    def take():
        t = toks[pos[0]]
        pos[0] += 1
        return t

    def atom():
        t = take()
        if t == '(':
            if peek() == '-':
                take()
                v = -atom()
            else:
                v = expr_()
            assert take() == ')'
            return v
        if t.isdigit():
            return int(t)
        if t in FUNS:
            n, f = FUNS[t]
            args = [atom() for _ in range(n)]
            return f(*args)
        return env[t]

    def expr_():
        v = atom()
        while peek() == '-':
            take()
            v = v - atom()
        return v

    v = expr_()
    assert pos[0] == len(toks), (expr, toks[pos[0]:])
    return v


def code_value(code, argvals):
    """argvals: {arg name: python value (bool / int / enum variant name)}"""
    k = code[0]
    if k == 'enum':
        _, arg, _enum, table, shift = code
        return table[argvals[arg]] << shift
    if k == 'bool':
        return code[2] if argvals[code[1]] else 0
    if k == 'expr':
        return evaluate(code[1], argvals)
    if k == 'pincfg':
        _, arg, od, lv = code
        kind, level = argvals[arg].split('.')
        return (od if kind == 'OpenDrain' else 0) | (lv if level == 'ActiveHigh' else 0)
    raise ValueError(k)


def builder_table(bname):
    return ds.BUILDERS[bname]


def field_reg(bname, field, variant=None):
    b = ds.BUILDERS[bname]
    reg = dict(b['fields']).get(field)
    if reg is None:
        rec = dict(b['variants'])[variant]          # Gen1IntConfig / Gen2IntConfig
        reg = rec + field.replace('config', '')
    return reg


def block_regs(bname, variant=None):
    """[(field, register name, address, defined mask)] of a builder's block"""
    b = ds.BUILDERS[bname]
    out = []
    for f, _r in b['fields']:
        reg = field_reg(bname, f, variant)
        a, _rst, m = ds.REGS[reg]
        out.append((f, reg, a, m))
    return out


def apply_setter(bname, method, args, block, variant=None):
    """block: {field: byte} -> new block after the setter, per the datasheet table"""
    b = ds.BUILDERS[bname]
    argspec, updates = b['setters'][method]
    argvals = {n: v for (n, _t), v in zip(argspec, args)}
    new = dict(block)
    for (field, mask, code) in updates:
        c = code_value(code, argvals)
        if mask == 0xFF:
            new[field] = c
        else:
            new[field] = (new[field] & ~mask & 0xFF) | c
    return new


MAKER_BUILDER = {
    'config_accel': ('AccConfigBuilder', None), 'config_interrupts': ('IntConfigBuilder', None),
    'config_int_pins': ('IntPinConfigBuilder', None), 'config_fifo': ('FifoConfigBuilder', None),
    'config_auto_lp': ('AutoLpConfigBuilder', None), 'config_autowkup': ('AutoWakeupConfigBuilder', None),
    'config_wkup_int': ('WakeupIntConfigBuilder', None), 'config_orientchg_int': ('OrientChgConfigBuilder', None),
    'config_gen1_int': ('GenIntConfigBuilder', 'Gen1Int'), 'config_gen2_int': ('GenIntConfigBuilder', 'Gen2Int'),
    'config_actchg_int': ('ActChgConfigBuilder', None), 'config_tap': ('TapConfigBuilder', None),
}


def expected_block(maker, setters, regs):
    """registers {addr: byte} of the builder's block after the request, given the current register file"""
    bname, variant = MAKER_BUILDER[maker]
    blk = block_regs(bname, variant)
    block = {f: regs[a] for f, _r, a, _m in blk}
    for (m, args) in setters:
        block = apply_setter(bname, m, args, block, variant)
    return {a: block[f] for f, _r, a, _m in blk}
