"""`vp check Cnn` / `vp replay Cnn FILE` — the per-property pipeline (DESIGN.md sections 8 and 13)."""
import glob, hashlib, json, os, random, re, subprocess, sys, time
import vp as V
import progs as P
import corr
import implrun

VERIF = V.VERIF
BUILD = V.BUILD
COQ = V.COQ

FORBIDDEN = re.compile(r'\b(Admitted|admit|Axiom|Axioms|Parameter|Parameters|Conjecture|Hypothesis|Variable|Variables|Hypotheses)\b'
                       r'|Unset\s+Guard|bypass_check|type-in-type|impredicative-set|Admit\s+Obligations|native_compute')
ALLOWED_AXIOMS = set()     # the development uses none; anything Print Assumptions reports is a failure of the audit


def log(*a):
    print(*a, file=sys.stderr, flush=True)


# ----------------------------------------------------------------------------- audit
def strip_comments(text):
    out, depth, i = [], 0, 0
    while i < len(text):
        if text.startswith('(*', i):
            depth += 1
            i += 2
        elif text.startswith('*)', i) and depth > 0:
            depth -= 1
            i += 2
        else:
            if depth == 0:
                out.append(text[i])
            i += 1
    return ''.join(out)


def audit_sources():
    """no Admitted/admit/Axiom/... anywhere in the development (comments excluded; Section Variables allowed
    only inside a Section, which the development does not use at all)"""
    bad = []
    for path in sorted(glob.glob(os.path.join(COQ, '*', '*.v'))):
        text = strip_comments(open(path).read())
        for m in FORBIDDEN.finditer(text):
            line = text.count('\n', 0, m.start()) + 1
            bad.append('%s:%d: %s' % (os.path.relpath(path, COQ), line, m.group(0)))
    return bad


def audit_assumptions(pid, theorems):
    """Print Assumptions for every theorem (module, name); returns (n_closed, problems, raw output)"""
    mods = sorted({m for m, _ in theorems})
    lines = ['Require Import %s.' % ' '.join('BMA.' + m for m in mods)]
    for m, n in theorems:
        lines.append('Print Assumptions BMA.%s.%s.' % (m, n))
    path = os.path.join(BUILD, 'audit', 'Audit_%s.v' % pid)
    os.makedirs(os.path.dirname(path), exist_ok=True)
    open(path, 'w').write('\n'.join(lines) + '\n')
    rc, out = V.run(['coqc', '-noglob', '-R', COQ, 'BMA', path], cwd=os.path.dirname(path), timeout=600)
    if rc != 0:
        return 0, ['audit file does not compile: ' + out[-1500:]], out
    closed = out.count('Closed under the global context')
    problems = []
    if 'Axioms:' in out:
        for blk in out.split('Axioms:')[1:]:
            for l in blk.splitlines():
                l = l.strip()
                m = re.match(r'([\w.]+)\s*:', l)
                if m and m.group(1) not in ALLOWED_AXIOMS:
                    problems.append('axiom used: ' + m.group(1))
    if closed + out.count('Axioms:') != len(theorems):
        problems.append('expected %d Print Assumptions answers, got %d' % (len(theorems), closed + out.count('Axioms:')))
    return closed, problems, out


# ----------------------------------------------------------------------------- result plumbing
class Violation(Exception):
    def __init__(self, replay_path, found_input):
        super().__init__(replay_path)
        self.replay_path, self.found_input = replay_path, found_input


def write_replay(pid, payload):
    d = os.path.join(BUILD, 'replay')
    os.makedirs(d, exist_ok=True)
    txt = json.dumps(payload, indent=1, default=str)
    path = os.path.join(d, '%s-%s.json' % (pid, hashlib.sha1(txt.encode()).hexdigest()[:10]))
    open(path, 'w').write(txt)
    return path


def known_findings():
    known = []
    try:
        for l in open(os.path.join(VERIF, 'known_findings.txt')):
            l = l.strip()
            if l.startswith('known:'):
                m = re.match(r'known:\s*property=(\w+)\s+site=(\S+)\s+(.*)', l)
                if m:
                    known.append({'property': m.group(1), 'site': m.group(2), 'what': m.group(3)})
    except FileNotFoundError:
        pass
    return known


def write_evidence(pid, tier, seed, coverage, assumptions, wall, violations):
    d = os.path.join(VERIF, 'evidence')
    os.makedirs(d, exist_ok=True)
    ev = {'property_id': pid, 'tier': tier, 'seed': seed, 'level': 'proof', 'coverage': coverage,
          'assumptions': assumptions, 'wall_s': round(wall, 2), 'violations': violations}
    open(os.path.join(d, pid + '.json'), 'w').write(json.dumps(ev, indent=1, default=str) + '\n')


TRUSTED_BASE = [
    'Coq 8.16.1 kernel and its VM (vm_compute casts re-checked at Qed); no native_compute',
    'axioms: none (Print Assumptions of every property theorem: Closed under the global context)',
    'rs2v translator (/verif/rs2v, Rust+syn) and the prelude semantics of Rust integers / bitflags 1.3.2 in coq/lib/Base.v',
    'hand model of i2c.rs / spi.rs and of the three constructors (coq/lib/Run.v, Driver.v), tied by the correspondence check',
    'simulated chip (coq/lib/Run.v = harness/src/sim.rs); assumption: a failed bus call is not applied by the chip',
    'datasheet table spec/datasheet.py (transcribed by hand; no PDF offline)',
    'correspondence harness (harness/, tools/corr.py): differential testing, validates the translator, never the proof',
]


# ----------------------------------------------------------------------------- the pipeline
def run_check(pid, tier, seed):
    import propdefs
    prop = propdefs.PROPS[pid]
    t0 = time.time()
    rng = random.Random('%s-%s-%d' % (pid, tier, seed))
    info = {'steps': []}
    tie_failures = []      # (kind, what, detail)

    # 1. regenerate the model from /repo's working tree
    try:
        t, s = V.gen()
        info['translator'] = t
        info['spec'] = s
    except V.TieBroken as e:
        tie_failures.append(('translator', e.what, e.detail))

    # 2. the proof obligations of this property
    targets = prop['targets'] + ['lib/Driver.vo', 'lib/Corr.vo']
    n_thm = 0
    if not tie_failures:
        ok, out = V.make(targets)
        info['steps'].append('make %s: %s' % (' '.join(targets), 'ok' if ok else 'FAILED'))
        if not ok:
            m = re.findall(r'File "([^"]+)", line (\d+), characters [\d-]+:\n(Error:(?:.|\n)*?)(?=\nmake|\Z)', out)
            detail = '\n'.join('%s:%s: %s' % (os.path.relpath(f, COQ) if f.startswith('/') else f, l, e.strip()[:600]) for f, l, e in m[:5]) or out[-2500:]
            failing = sorted({(os.path.relpath(f, COQ) if f.startswith('/') else f) for f, _l, _e in m})
            tie_failures.append(('proof', 'proof obligation no longer checks in ' + (', '.join(failing) or '?'), detail))
        else:
            # 3. audit: forbidden vernacular, assumptions
            bad = audit_sources()
            if bad:
                raise V.Broken('forbidden vernacular in the development:\n' + '\n'.join(bad[:20]))
            theorems = prop['theorems']() if callable(prop['theorems']) else prop['theorems']
            n_thm = len(theorems)
            closed, problems, _out = audit_assumptions(pid, theorems)
            if problems:
                raise V.Broken('assumption audit failed: ' + '; '.join(problems[:10]))
            info['steps'].append('Print Assumptions: %d/%d closed under the global context' % (closed, n_thm))
            if tier == 'thorough':
                # independent re-check of the compiled closure of the property's modules
                mods = ['BMA.' + t[:-3].replace('/', '.') for t in prop['targets']]
                rc, cout = V.run(['coqchk', '-o', '-silent', '-R', COQ, 'BMA'] + mods, cwd=COQ, timeout=int(os.environ.get('VERIF_COQCHK_TIMEOUT', '1500')))
                ax = re.search(r'\* Axioms:\s*(.*?)\n\s*\n', cout, re.S)
                axioms = ax.group(1).strip() if ax else '?'
                if rc == 124:
                    # coqchk re-evaluates the vm_compute casts with its own (non-VM) reduction: the large enumerations do not finish in time
                    info['steps'].append('coqchk -o %s: not finished within the time limit (it re-evaluates the exhaustive evaluations without the VM); '
                                         'the coqc kernel check and Print Assumptions stand' % ' '.join(mods))
                elif rc != 0 or axioms != '<none>' or 'type-in-type: <none>' not in cout or 'unsafe (co)fixpoints: <none>' not in cout or 'positivity is assumed: <none>' not in cout:
                    raise V.Broken('coqchk does not accept the compiled development (rc=%d, axioms=%s):\n%s' % (rc, axioms, cout[-1500:]))
                else:
                    info['steps'].append('coqchk -o %s: accepted, axioms: <none>' % ' '.join(mods))

    # 4. the implementation, built from the working tree with the hooks on
    variants = prop.get('variants', ['default'])
    for var in variants:
        ok, out = corr.build_harness(var)
        if not ok:
            if tie_failures:
                break
            raise V.Broken('harness does not build against /repo (%s):\n%s' % (var, out[-3000:]))
    api = P.Api()

    # 5. correspondence on the operations this property's theorems are about
    n_prog = 0
    disagreements = []
    dist = {}
    samples = []
    if not tie_failures:
        n = prop['corr_n'][0 if tier == 'quick' else 1]
        for var in variants:
            programs = prop['corr_gen'](api, rng, n)
            n_prog += len(programs)
            impl = corr.run_impl(programs, var, tag=pid)
            bad, _dt = corr.compare(api, programs, impl, i2c_addr=(21 if var == 'alt' else 20), tag=pid)
            for p in programs:
                for c in p.calls:
                    dist[c.op] = dist.get(c.op, 0) + 1
                    if c.faults:
                        dist['(calls with a fault)'] = dist.get('(calls with a fault)', 0) + 1
            samples += [p.describe() for p in programs[:2]]
            if bad:
                byid = {p.id: p for p in programs}
                shown = byid[bad[0]]
                mo = corr.model_outputs(api, [shown], i2c_addr=(21 if var == 'alt' else 20), tag=pid)[shown.id]
                ex = corr.expected_lists(impl[shown.id])
                diff = None
                if not isinstance(mo, str):
                    for i, (a, b) in enumerate(zip(mo, ex)):
                        if a != b:
                            diff = {'call_index': i, 'model': a, 'implementation': b}
                            break
                disagreements.append({'variant': var, 'count': len(bad), 'program': shown.describe(), 'first_difference': diff})
        info['steps'].append('correspondence: %d programs, %d disagreeing' % (n_prog, sum(d['count'] for d in disagreements)))
        if disagreements:
            tie_failures.append(('correspondence', 'model and implementation disagree on %d of %d programs'
                                 % (sum(d['count'] for d in disagreements), n_prog), json.dumps(disagreements[0], indent=1, default=str)))

    # 6. property monitor on the implementation (smoke run when all is well, search when a tie broke)
    budget = prop['monitor_n'][0 if tier == 'quick' else 1]
    if tie_failures:
        budget = max(budget, prop['monitor_n'][1])
    mon = {'cases': 0, 'violations': [], 'notes': []}
    if os.path.exists(corr.harness_bin(variants[0])):
        mon = prop['monitor'](api, rng, budget, variants)
    info['steps'].append('monitor: %d cases, %d violations' % (mon['cases'], len(mon['violations'])))

    known = [k for k in known_findings() if k['property'] == pid]
    new_viol = [v for v in mon['violations'] if not any(k['site'] == v.get('site') for k in known)]
    for k in known:
        print('KNOWN-FINDING: property=%s %s' % (pid, k['what']))

    wall = time.time() - t0
    coverage = {
        'obligations': max(n_thm, 1) if not tie_failures else max(n_thm, 1),
        'discharged': n_thm if not tie_failures else 0,
        'checker_cmd': 'cd /verif/build/coq && make -j16 %s  (coqc 8.16.1, full .vo build) ; coqc build/audit/Audit_%s.v (Print Assumptions)%s' % (' '.join(targets), pid, ' ; coqchk -o -silent on the targets' if tier == 'thorough' else ''),
        'trusted_base': TRUSTED_BASE + prop.get('trusted_extra', []),
        'theorems': [n for _m, n in (prop['theorems']() if callable(prop['theorems']) else prop['theorems'])][:400] if not tie_failures else [],
        'tie': 'model regenerated from /repo/src by rs2v on this run; correspondence check on %d programs' % n_prog,
        'programs': n_prog, 'disagreements_checked': n_prog,
        'operation_distribution': dist,
        'samples': samples[:3] + mon.get('samples', [])[:3],
        'monitor_cases': mon['cases'], 'monitor_notes': mon.get('notes', []),
        'evaluations': n_prog + mon['cases'],
        'rule': prop.get('rule', ''),
        'steps': info['steps'],
        'what_is_proved': prop.get('statement', ''),
    }
    if tie_failures or new_viol:
        payload = {'property': pid, 'tie_failures': [{'kind': k, 'what': w, 'detail': d} for k, w, d in tie_failures],
                   'violations': new_viol[:5], 'seed': seed, 'tier': tier}
        path = write_replay(pid, payload)
        coverage['discharged'] = 0
        write_evidence(pid, tier, seed, coverage, prop.get('assumptions', []), wall, max(1, len(new_viol)))
        if new_viol:
            print('VIOLATION property=%s replay=%s' % (pid, path))
        else:
            print('VIOLATION property=%s replay=%s no-failing-input-found' % (pid, path))
        for k, w, _d in tie_failures:
            log('  broken tie (%s): %s' % (k, w))
        for v in new_viol[:3]:
            log('  failing input: %s' % v.get('message'))
        return 1
    write_evidence(pid, tier, seed, coverage, prop.get('assumptions', []), wall, 0)
    log('[%s] held: %d theorems, %d programs in correspondence, %d monitor cases (%.1f s)' % (pid, n_thm, n_prog, mon['cases'], wall))
    return 0


def cmd_check(args):
    pid = args[0]
    tier = os.environ.get('VERIF_TIER', 'quick')
    if '--tier' in args:
        tier = args[args.index('--tier') + 1]
    if tier not in ('quick', 'thorough'):
        tier = 'quick'
    seed = int(os.environ.get('VERIF_SEED', '0') or 0)
    with V.Lock():
        return run_check(pid, tier, seed)


def cmd_replay(args):
    import propdefs
    pid, path = args[0], args[1]
    payload = json.load(open(path))
    with V.Lock():
        try:
            V.gen()
        except V.TieBroken as e:
            print('translator: ' + e.what)
        ok, out = corr.build_harness('default')
        if not ok:
            print(out)
            return 2
        api = P.Api()
        n = 0
        for v in payload.get('violations', []):
            if 'replay' in v:
                res = propdefs.replay(pid, api, v['replay'])
                print(json.dumps(res, indent=1, default=str))
                n += 1 if res.get('violates') else 0
        for t in payload.get('tie_failures', []):
            print('tie failure recorded: %s: %s' % (t['kind'], t['what']))
        print('replayed: %d violating input(s)' % n)
        return 1 if n else 0
