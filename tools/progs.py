"""Programs of API calls: data structure, serialisation for the Rust harness (text) and for the Coq model
(a Gallina term), the FIFO frame encoder (specification side) and seeded random generators."""
import json, os, random

import sys
VERIF = os.path.dirname(os.path.dirname(os.path.abspath(__file__)))
sys.path.insert(0, os.path.join(VERIF, 'spec'))
import datasheet as ds
DEFINED = {a: m for (a, _r, m) in ds.REGS.values()}


class Api:
    def __init__(self, path=None):
        cat = json.load(open(path or os.path.join(VERIF, 'build/api.json')))
        self.plain = cat['plain']
        self.plain_ret = cat.get('plain_ret', {})
        self.builders = cat['builders']
        self.enums = cat['enums']
        self.leaves = cat['leaves']
        self.maker = {}  # config_accel -> builder dict
        for b in self.builders:
            for mk in b['makers']:
                self.maker[mk] = b


class Call:
    def __init__(self, op, args=None, setters=None, faults=None):
        self.op, self.args, self.setters, self.faults = op, list(args or []), list(setters or []), list(faults or [])

    def __repr__(self):
        s = self.op
        if self.args:
            s += ' ' + ' '.join(str(a) for a in self.args)
        for (m, a) in self.setters:
            s += ' .%s(%s)' % (m, ', '.join(str(x) for x in a))
        if self.faults:
            s += ' !fault@%s' % ','.join(map(str, self.faults))
        return s


class Prog:
    def __init__(self, pid, ctor='i2c', calls=None, ro=None, fifo=b'', pos=None, neg=None, ctor_faults=None):
        self.id, self.ctor, self.calls = pid, ctor, list(calls or [])
        self.ro = bytes(ro) if ro is not None else bytes([0x90] + [0] * 24)
        self.fifo = bytes(fifo)
        self.pos = bytes(pos) if pos is not None else bytes(6)
        self.neg = bytes(neg) if neg is not None else bytes(6)
        self.ctor_faults = list(ctor_faults or [])

    def describe(self):
        return {'id': self.id, 'ctor': self.ctor + ('!fault@%s' % self.ctor_faults if self.ctor_faults else ''),
                'chip': {'ro': self.ro.hex(), 'fifo': self.fifo.hex(), 'st_pos': self.pos.hex(), 'st_neg': self.neg.hex()},
                'calls': [repr(c) for c in self.calls]}


# ----------------------------------------------------------------------------- serialisation
def _rust_arg(v):
    if isinstance(v, bool):
        return 'true' if v else 'false'
    return str(v)


def to_rust(p, dump_each=False):
    out = ['P %s %s %d' % (p.id, p.ctor, 1 if dump_each else 0),
           'S ro=%s fifo=%s pos=%s neg=%s' % (p.ro.hex(), p.fifo.hex(), p.pos.hex(), p.neg.hex())]
    if p.ctor_faults:
        out.append('CF ' + ','.join(map(str, p.ctor_faults)))
    for c in p.calls:
        if c.faults:
            out.append('F ' + ','.join(map(str, c.faults)))
        toks = ['O', c.op] + [str(a) for a in c.args]
        for (m, a) in c.setters:
            toks.append('%s:%s' % (m, ','.join(_rust_arg(x) for x in a)))
        out.append(' '.join(toks))
    out.append('E')
    return '\n'.join(out) + '\n'


def _coq_list(xs):
    return '[' + '; '.join(str(x) for x in xs) + ']'


def _coq_arg(api, kind, v):
    if kind == 'bool':
        return 'true' if v else 'false'
    if kind in ('u8', 'u16'):
        return str(v)
    if kind in ('i8', 'i16'):
        return '(%d)%%Z' % v
    en = kind.split(':')[1]
    if '.' in str(v):
        a, b = v.split('.')
        pay = [p for n, p in api.enums[en] if n == a][0][0]
        return '(%s_%s %s_%s)' % (en, a, pay, b)
    return '%s_%s' % (en, v)


def coq_op(api, c):
    if c.op in api.maker:
        b = api.maker[c.op]
        sd = {s['method']: s for s in b['setters']}
        items = []
        for (m, a) in c.setters:
            s = sd[m]
            items.append('%s %s' % (s['coq'], ' '.join(_coq_arg(api, k, v) for (_n, k), v in zip(s['args'], a))))
        return '(Op_%s [%s])' % (c.op, '; '.join(items))
    if c.args:
        return '(Op_%s %s)' % (c.op, ' '.join(str(a) for a in c.args))
    return 'Op_' + c.op


def to_coq(api, p, i2c_addr=20):
    ctor = {'i2c': 'C_i2c', 'spi': 'C_spi', 'spi3': 'C_spi3'}[p.ctor]
    ops = '; '.join('(%s, %s)' % (coq_op(api, c), _coq_list(c.faults)) for c in p.calls)
    return 'run_program %d (mk_scenario %s %s %s %s) %s %s [%s]' % (
        i2c_addr, _coq_list(p.ro), _coq_list(p.fifo), _coq_list(p.pos), _coq_list(p.neg), ctor, _coq_list(p.ctor_faults), ops)


# ----------------------------------------------------------------------------- FIFO frame encoder (datasheet)
def enc_sample12(v):           # 12-bit two's complement
    return v & 0xFFF


def encode_frame(fr):
    """fr = ('data', axes_mask(1..7: x=1,y=2,z=4), is12, {axis: value}) | ('ctrl', flags(3 bits: src,bw,acc1)) | ('time', t24)"""
    if fr[0] == 'data':
        _, axes, is12, vals = fr
        hdr = 0x80 | (0x10 if is12 else 0) | (axes << 1)
        out = [hdr]
        for bit, name in ((1, 'x'), (2, 'y'), (4, 'z')):
            if axes & bit:
                s = enc_sample12(vals[name])
                if is12:
                    out += [s & 0xF, s >> 4]
                else:
                    out += [s >> 4]
        return bytes(out)
    if fr[0] == 'ctrl':
        return bytes([0x48, (fr[1] & 7) << 1])
    if fr[0] == 'time':
        t = fr[1]
        return bytes([0xA0, t & 0xFF, (t >> 8) & 0xFF, (t >> 16) & 0xFF])
    raise ValueError(fr)


def random_frame(rng):
    k = rng.random()
    if k < 0.7:
        axes = rng.randint(1, 7)
        is12 = rng.random() < 0.5
        vals = {}
        for n in 'xyz':
            v = rng.choice([rng.randint(-2048, 2047), -2048, 2047, -1, 0, 1, 15, -16, 0x7F0 - 2048])
            if not is12:
                v = (v >> 4) << 4
            vals[n] = v
        return ('data', axes, is12, vals)
    if k < 0.85:
        return ('ctrl', rng.randint(0, 7))
    return ('time', rng.choice([0, 1, 0xFFFFFF, rng.randint(0, 0xFFFFFF)]))


# ----------------------------------------------------------------------------- random values
def rand_arg(api, rng, kind):
    if kind == 'bool':
        return rng.random() < 0.5
    if kind == 'u8':
        return rng.choice([0, 1, 7, 8, 9, 127, 128, 254, 255, rng.randint(0, 255)])
    if kind == 'u16':
        return rng.choice([0, 1, 255, 256, 1023, 1024, 1025, 2047, 2048, 4094, 4095, 4096, 65535, rng.randint(0, 65535)])
    if kind == 'i8':
        return rng.choice([-128, -1, 0, 1, 127, rng.randint(-128, 127)])
    if kind == 'i16':
        return rng.choice([-32768, -2049, -2048, -2047, -1, 0, 1, 2046, 2047, 2048, 32767, rng.randint(-32768, 32767)])
    en = kind.split(':')[1]
    name, pay = rng.choice(api.enums[en])
    if pay:
        sub = rng.choice(api.enums[pay[0]])[0]
        return '%s.%s' % (name, sub)
    return name


def rand_setters(api, rng, b, n):
    out = []
    for _ in range(n):
        s = rng.choice(b['setters'])
        out.append((s['method'], [rand_arg(api, rng, k) for (_a, k) in s['args']]))
    return out


def selftest_bytes(rng, passing):
    """six data bytes for positive and negative excitation"""
    def enc(v):
        v &= 0xFFF
        return [v & 0xFF, (v >> 8) | (rng.choice([0, 0xF0, 0x50]))]
    pos, neg = [], []
    for thr in (1500, 1200, 250):
        if passing:
            d = rng.choice([thr + 1, thr + 2, 2000, 4095])
        else:
            d = rng.choice([thr, thr - 1, 0, -5, thr + 1, -(thr + 1), -2000, -4095, thr + 1])   # inverted responses included
        n = rng.randint(-2048, 2047 - max(d, 0)) if d >= 0 else rng.randint(-2048 - d, 2047)
        n = max(-2048, min(2047, n))
        p = max(-2048, min(2047, n + d))
        pos += enc(p)
        neg += enc(n)
    return bytes(pos), bytes(neg)


def random_scenario(rng):
    ro = bytearray(rng.getrandbits(8) for _ in range(25))
    ro[0] = 0x90 if rng.random() < 0.96 else rng.choice([0x00, 0x91, 0x10, 0xFF])
    if rng.random() < 0.7:
        fifo = b''.join(encode_frame(random_frame(rng)) for _ in range(rng.randint(0, 6)))
        if rng.random() < 0.3 and fifo:
            fifo = fifo[:rng.randint(0, len(fifo))]
    else:
        fifo = bytes(rng.choice([0x80, 0x48, 0xA0, 0x9E, 0x8E, 0x00, 0xFF, 0x40, 0x92, rng.getrandbits(8)]) for _ in range(rng.randint(0, 12)))
    pos, neg = selftest_bytes(rng, rng.random() < 0.6)
    return bytes(ro), fifo, pos, neg


GETTERS_EXTRA = ['get_temp_celsius']


def random_call(api, rng, allow_load=True, fault_rate=0.08):
    k = rng.random()
    faults = []
    if rng.random() < fault_rate:
        faults = [rng.randint(0, 7)]
        if rng.random() < 0.1:
            faults.append(rng.randint(0, 12))
    if k < 0.50:
        mk = rng.choice(sorted(api.maker))
        b = api.maker[mk]
        return Call(mk, setters=rand_setters(api, rng, b, rng.choice([0, 1, 1, 1, 2, 2, 3, 5])), faults=faults)
    if k < 0.62:
        # a request that switches interrupts on (and the ODR they need), to reach the interesting paths
        which = rng.random()
        if which < 0.35:
            return Call('config_accel', setters=[('with_odr', [rng.choice(['Hz100', 'Hz200', 'Hz100', 'Hz50'])])], faults=faults)
        b = api.maker['config_interrupts']
        ss = []
        for s in rng.sample(b['setters'], rng.randint(1, 5)):
            ss.append((s['method'], [rng.random() < 0.75]))
        return Call('config_interrupts', setters=ss, faults=faults)
    if k < 0.70 and allow_load:
        leaf = rng.choice(api.leaves)
        return Call('load', args=[leaf['addr'], rng.getrandbits(8) & DEFINED.get(leaf['addr'], 0xFF)])
    if k < 0.86:
        return Call(rng.choice(api.plain + GETTERS_EXTRA), faults=faults)
    if k < 0.91:
        return Call('perform_self_test', faults=[rng.randint(0, 20)] if faults else [])
    if k < 0.94:
        return Call('soft_reset', faults=faults)
    return Call('read_fifo_frames', args=[rng.choice([0, 1, 2, 3, 4, 7, 15, 16, rng.randint(0, 40)])], faults=faults)


def random_program(api, rng, pid, max_calls=12, allow_load=True, fault_rate=0.08, ctor=None):
    ro, fifo, pos, neg = random_scenario(rng)
    ctor = ctor or rng.choice(['i2c', 'i2c', 'i2c', 'spi', 'spi', 'spi', 'spi3'])
    cf = [rng.randint(0, 9)] if rng.random() < 0.03 else []
    calls = [random_call(api, rng, allow_load, fault_rate) for _ in range(rng.randint(1, max_calls))]
    return Prog(pid, ctor, calls, ro, fifo, pos, neg, cf)
