import random, time, json, sys
import progs as P, corr
api = P.Api()
seed = int(sys.argv[1]) if len(sys.argv) > 1 else 1
n = int(sys.argv[2]) if len(sys.argv) > 2 else 200
rng = random.Random(seed)
ok, out = corr.build_harness()
if not ok: print(out); sys.exit(1)
ps = [P.random_program(api, rng, 'p%d' % i) for i in range(n)]
t=time.time()
impl = corr.run_impl(ps)
print('impl', time.time()-t, len(impl))
bad, dt = corr.compare(api, ps, impl)
print('coq', dt, 'bad', len(bad), bad[:10])
for b in bad[:2]:
    p = [x for x in ps if x.id == b][0]
    print(json.dumps(p.describe(), indent=1))
    mo = corr.model_outputs(api, [p])[p.id]
    ex = corr.expected_lists(impl[p.id])
    if isinstance(mo, str): print(mo)
    else:
        for i,(a,b) in enumerate(zip(mo, ex)):
            if a!=b:
                print('call', i, 'model', a[:80]); print('     impl ', b[:80]); break
        print(len(mo), len(ex))
