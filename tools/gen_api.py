#!/usr/bin/env python3
"""gen_api.py <meta.json> <GenTypes.v> <out GenApi.v> <out dispatch_gen.rs> <out api.json>

From the translator's function table (meta.json) and the generated type definitions, emit
  * GenApi.v        — `api_op` (every public operation with its arguments; builders as lists of setter calls),
                      `step : api_op -> prog (list N)` (the operation with its result encoded), enum encoders;
  * dispatch_gen.rs — the same dispatch for the real crate (a macro body used by the harness);
  * api.json        — the catalogue (operations, setters, argument types, enum variants) for the generators.
Everything is derived from the code's own public API, so a renamed / added / removed method shows up as a change of
the catalogue rather than being silently skipped.
"""
import json, os, re, sys


def parse_inductives(text):
    """name -> list of (constructor, [payload types])"""
    out = {}
    for m in re.finditer(r'Inductive (\w+) : Type :=\n((?:\|.*\n?)+)', text):
        name, body = m.group(1), m.group(2)
        ctors = []
        for line in body.strip().rstrip('.').split('\n'):
            line = line.strip().lstrip('|').strip().rstrip('.')
            mm = re.match(r'(\w+)((?:\s*\([^)]*\))*)$', line)
            cname = mm.group(1)
            pay = re.findall(r'\(\w+ : ([^)]+)\)', mm.group(2))
            ctors.append((cname, pay))
        out[name] = ctors
    return out


def main():
    meta = json.load(open(sys.argv[1]))
    inds = parse_inductives(open(sys.argv[2]).read())
    fns = meta['functions']
    by_name = {f['name']: f for f in fns}
    enums = {n: c for n, c in inds.items()}

    def short(enum, ctor):  # OutputDataRate_Hz100 -> Hz100
        return ctor[len(enum) + 1:]

    # ---- argument kinds -------------------------------------------------------------
    def arg_kind(rt):
        if rt in ('Bool',):
            return 'bool'
        if rt in ('U8', 'U16', 'I8', 'I16'):
            return rt.lower()
        m = re.match(r"Named\('(\w+)'\)", rt)
        if m and m.group(1) in enums:
            return 'enum:' + m.group(1)
        raise SystemExit('gen_api: unsupported argument type %s' % rt)

    COQ_ARG = {'bool': 'bool', 'u8': 'N', 'u16': 'N', 'i8': 'Z', 'i16': 'Z'}

    def coq_arg_type(k):
        return COQ_ARG.get(k) or k.split(':')[1]

    # ---- builders -------------------------------------------------------------------
    builders = []
    for b in meta['builders']:
        bname, cfg = b['name'], b['config']
        setters = [f for f in fns if f['owner'] == bname and f['pub'] and f['method'].startswith('with_')]
        # constructor functions on BMA400 returning this builder
        makers = [f for f in fns if f['owner'] == 'BMA400' and f['pub'] and f['kind'] == 'Pure'
                  and f['ret'] == '(Config * %s)' % cfg]
        wr = by_name.get(bname + '_write')
        if not wr or not makers:
            raise SystemExit('gen_api: builder %s lacks write() or a constructor' % bname)
        builders.append({'name': bname, 'config': cfg,
                         'setters': [{'name': f['name'], 'method': f['method'], 'kind': f['kind'],
                                      'args': [(p[0], arg_kind(p[1])) for p in f['rust_params']]} for f in setters],
                         'makers': [f['method'] for f in makers]})

    # ---- plain operations on BMA400 ---------------------------------------------------
    special = {'read_fifo_frames', 'perform_self_test'}
    plain = [f for f in fns if f['owner'] == 'BMA400' and f['pub'] and f['kind'] == 'Prog' and not f['rust_params']
             and f['method'] not in special]
    for s in special:
        if ('BMA400_' + s) not in by_name:
            raise SystemExit('gen_api: BMA400::%s is missing' % s)

    # result encoders by Coq return type
    def accessors(struct):
        return [f for f in fns if f['owner'] == struct and f['pub'] and not f['rust_params'] and f['kind'] == 'Pure'
                and f['method'] != 'new']

    def enc_scalar(ty, e):
        if ty == 'N':
            return e
        if ty == 'bool':
            return 'enc_bool (%s)' % e
        if ty == 'Z':
            return 'encZ (%s)' % e
        if ty in enums and all(not p for _, p in enums[ty]):
            return 'enc_%s (%s)' % (ty, e)
        raise SystemExit('gen_api: cannot encode result type %s' % ty)

    def enc_result(ty, e):
        if ty == 'unit':
            return '[]'
        if ty == 'Measurement':
            return '[encZ (Measurement_x %s); encZ (Measurement_y %s); encZ (Measurement_z %s)]' % (e, e, e)
        acc = accessors(ty)
        if acc:
            return '[' + '; '.join(enc_scalar(a['ret'], '%s %s' % (a['name'], e)) for a in acc) + ']'
        return '[' + enc_scalar(ty, e) + ']'

    def rust_enc_scalar(ty, e):
        if ty == 'N':
            return '(%s) as i64' % e
        if ty == 'bool':
            return '(%s) as i64' % e
        if ty == 'Z':
            return '(%s) as i64 + 100000' % e
        return 'enc_%s(&(%s))' % (ty, e)

    def rust_enc_result(ty, e):
        if ty == 'unit':
            return 'vec![]'
        if ty == 'Measurement':
            return 'vec![%s.x as i64 + 100000, %s.y as i64 + 100000, %s.z as i64 + 100000]' % (e, e, e)
        acc = accessors(ty)
        if acc:
            return 'vec![' + ', '.join(rust_enc_scalar(a['ret'], '%s.%s()' % (e, a['method'])) for a in acc) + ']'
        return 'vec![' + rust_enc_scalar(ty, e) + ']'

    # =================================================================== GenApi.v
    v = ['(* generated by tools/gen_api.py from the translator\'s function table — do not edit *)',
         'Require Import BMA.lib.Base BMA.lib.Reflect BMA.gen.GenTypes BMA.gen.GenPure BMA.lib.Prog BMA.gen.GenProg BMA.gen.GenMeta BMA.lib.Encode.',
         'Open Scope N_scope.', '']
    flat_enums = [n for n, c in enums.items() if all(not p for _, p in c)]
    for n in flat_enums:
        v.append('Definition enc_%s (x : %s) : N := match x with %s end.' % (
            n, n, ' | '.join('%s => %d' % (c, i) for i, (c, _) in enumerate(enums[n]))))
    v.append('')
    v.append('(* decidable equality of the enumerations, for kernel evaluation of enum-valued statements *)')
    for n in flat_enums:
        v.append('Lemma enc_%s_inj (a b : %s) : N.eqb (enc_%s a) (enc_%s b) = true -> a = b.' % (n, n, n, n))
        v.append('Proof. destruct a, b; intro H; try reflexivity; discriminate H. Qed.')
        v.append('#[export] Instance BEq_%s : BEq %s := {| beq := fun a b => N.eqb (enc_%s a) (enc_%s b); beq_eq := enc_%s_inj |}.' % (n, n, n, n, n))
    v.append('')
    for b in builders:
        bn, cfg = b['name'], b['config']
        v.append('Inductive set_%s : Type :=' % bn)
        for s in b['setters']:
            v.append('| S_%s %s' % (s['name'], ' '.join('(%s : %s)' % (a, coq_arg_type(k)) for a, k in s['args'])))
        v[-1] += '.'
        v.append('Definition apply_%s (s : set_%s) (c : %s) : res %s :=\n  match s with' % (bn, bn, cfg, cfg))
        for s in b['setters']:
            args = ' '.join(a for a, _ in s['args'])
            call = '%s c %s' % (s['name'], args)
            v.append('  | S_%s %s => %s' % (s['name'], args, call if s['kind'] == 'Res' else 'Ok (%s)' % call))
        v.append('  end.')
        v.append('Fixpoint apply_all_%s (l : list set_%s) (c : %s) : res %s :=\n'
                 '  match l with [] => Ok c | s :: l\' => c\' <-? apply_%s s c ;; apply_all_%s l\' c\' end.' % (bn, bn, cfg, cfg, bn, bn))
        v.append('')
    v.append('Inductive api_op : Type :=')
    for f in plain:
        v.append('| Op_%s' % f['method'])
    v.append('| Op_read_fifo_frames (n : N)')
    v.append('| Op_perform_self_test')
    v.append('| Op_get_temp_celsius')
    for b in builders:
        for mk in b['makers']:
            v.append('| Op_%s (l : list set_%s)' % (mk, b['name']))
    v.append('| Op_load (a v : N)\n| Op_raw_write (a v : N)\n| Op_raw_read (a n : N).')
    v.append('')
    v.append('(* overwrite one shadow byte by register address (hook verif_load) *)')
    v.append('Definition shadow_load (a v : N) (d : Config) : Config :=')
    for leaf in meta['leaves']:
        v.append('  if N.eqb a %d then put_%s v d else' % (leaf['addr'], leaf['label']))
    v.append('  d.')
    v.append('')
    v.append('Definition step (op : api_op) : prog (list N) :=\n  match op with')
    for f in plain:
        v.append('  | Op_%s => r <- %s ;; Ret (%s)' % (f['method'], f['name'], enc_result(f['ret'], 'r')))
    v.append('  | Op_read_fifo_frames n => it <- BMA400_read_fifo_frames (repeatN 0 n) ;; l <- lift_res (enc_fifo it) ;; Ret l')
    v.append('  | Op_perform_self_test => _ <- BMA400_perform_self_test ;; Ret []')
    v.append('  | Op_get_temp_celsius => r <- BMA400_get_raw_temp ;; Ret [encZ (r + 46)]   (* 2 x (raw/2 + 23): hand model of the f32 line *)')
    for b in builders:
        for mk in b['makers']:
            v.append('  | Op_%s l => d <- get_shadow ;; c <- lift_res (apply_all_%s l (snd (BMA400_%s d))) ;; _ <- %s_write c ;; Ret []'
                     % (mk, b['name'], mk, b['name']))
    v.append('  | Op_load a v => _ <- modify (shadow_load a v) ;; Ret []')
    v.append('  | Op_raw_write a v => _ <- write_register a v ;; Ret []')
    v.append('  | Op_raw_read a n => l <- read_register a n ;; Ret l')
    v.append('  end.')
    v.append('')
    open(sys.argv[3], 'w').write('\n'.join(v) + '\n') if _changed(sys.argv[3], '\n'.join(v) + '\n') else None

    # =================================================================== GenLens.v
    L = ['(* generated by tools/gen_api.py: one lens per shadowed register, looked up by register address *)',
         'Require Import BMA.lib.Base BMA.gen.GenTypes BMA.gen.GenPure BMA.gen.GenMeta.', 'Open Scope N_scope.', '',
         ]
    records = {}
    for m in re.finditer(r'Record (\w+) : Type := mk_\w+ \{([^}]*)\}', open(sys.argv[2]).read()):
        records[m.group(1)] = [(f.split(':')[0].strip(), f.split(':')[1].strip()) for f in m.group(2).split(';') if ':' in f]
    cfg_fields = records['Config']
    pats = []
    for fname, fty in cfg_fields:
        sub = records[fty]
        pats.append('[' + ' '.join('s_%s_%s' % (fname[len('Config_'):], sf[len(fty) + 1:]) for sf, _ in sub) + ']')
    L.append('(* fully destructure a Config into named byte variables (names never clash with the projections) *)')
    L.append('Ltac destruct_cfg d := destruct d as [%s].' % ' '.join(pats))
    L.append('')
    for leaf in meta['leaves']:
        lb = leaf['label']
        L.append('Lemma eta_%s : forall d, put_%s (get_%s d) d = d. Proof. intro d. destruct_cfg d. reflexivity. Qed.' % (lb, lb, lb))
    L.append('')
    L.append('(* continuation-passing lookup: k get put eta *)')
    L.append('Ltac lens_of a k :=\n  lazymatch a with')
    for leaf in meta['leaves']:
        lb = leaf['label']
        L.append('  | %d => k get_%s put_%s eta_%s' % (leaf['addr'], lb, lb, lb))
    L.append('  end.')
    L.append('Definition shadow_addrs : list N := [%s].' % '; '.join(str(l['addr']) for l in meta['leaves']))
    # pure functions whose first argument is one of the configuration records: unfolding them on an explicit record exposes a projection
    rec_names = set(records)
    cfg_fns = [f['name'] for f in fns if f['kind'] == 'Pure' and f['params'] and f['params'][0][1] in rec_names]
    L.append('Ltac unfold_cfg_fns := cbv beta iota delta [%s].' % ' '.join(cfg_fns))
    # every definition of GenPure.v (register constants and pure functions): unfolding them exposes the bit tests
    import re as _re
    pure_v = open(os.path.join(os.path.dirname(sys.argv[1]), 'GenPure.v')).read()
    pure_names = _re.findall(r'^Definition (\w+)', pure_v, _re.M)
    meta_v = open(os.path.join(os.path.dirname(sys.argv[1]), 'GenMeta.v')).read()
    rec_list = _re.search(r'Ltac cbv_records := cbv beta iota delta \[([^\]]*)\]', meta_v).group(1).split()
    for leaf in meta['leaves']:
        if 'get_' + leaf['label'] not in rec_list:
            rec_list.append('get_' + leaf['label'])
    L.append('(* the symbolic content of the shadowed register at address a in an explicit record d (nothing but projections is reduced) *)')
    L.append('Ltac field_at a d k := lens_of a ltac:(fun get put eta => let t := eval cbv beta iota delta [%s] in (get d) in k t).' % ' '.join(rec_list))
    L.append('Ltac unfold_pure_fns := cbv beta iota delta [%s].' % ' '.join(pure_names))
    L.append('Ltac unfold_pure_fns_in H := cbv beta iota delta [%s] in H.' % ' '.join(pure_names))
    txt = '\n'.join(L) + '\n'
    lens_path = os.path.join(os.path.dirname(sys.argv[3]), 'GenLens.v')
    if _changed(lens_path, txt):
        open(lens_path, 'w').write(txt)

    # =================================================================== dispatch_gen.rs
    r = ['// generated by tools/gen_api.py — do not edit', '']
    for n in flat_enums:
        ctors = enums[n]
        if n in ('Command', 'BMA400Error'):
            continue
        r.append('#[allow(dead_code, non_snake_case)]\npub fn enc_%s(x: &bma400::%s) -> i64 { match x { %s } }' % (
            n, n, ', '.join('bma400::%s::%s => %d' % (n, short(n, c), i) for i, (c, _) in enumerate(ctors))))
    arg_enums = sorted({k.split(':')[1] for b in builders for s in b['setters'] for _, k in s['args'] if k.startswith('enum:')})
    for n in arg_enums:
        arms = []
        for c, pay in enums[n]:
            if not pay:
                arms.append('"%s" => bma400::%s::%s' % (short(n, c), n, short(n, c)))
            else:
                p = pay[0]
                for c2, _ in enums[p]:
                    arms.append('"%s.%s" => bma400::%s::%s(bma400::%s::%s)' % (short(n, c), short(p, c2), n, short(n, c), p, short(p, c2)))
        r.append('#[allow(non_snake_case)]\npub fn parse_%s(s: &str) -> bma400::%s { match s { %s, _ => panic!("bad %s {}", s) } }' % (n, n, ', '.join(arms), n))
    r.append('')

    def rust_arg(k, e):
        if k == 'bool':
            return '%s == "true"' % e
        if k in ('u8', 'u16', 'i8', 'i16'):
            return '%s.parse::<%s>().unwrap()' % (e, k)
        return 'parse_%s(%s)' % (k.split(':')[1], e)

    r.append('// apply one named setter with textual arguments to a builder value')
    for b in builders:
        r.append('macro_rules! apply_%s { ($b:expr, $name:expr, $a:expr) => { match $name {' % b['name'])
        for s in b['setters']:
            r.append('    "%s" => $b.%s(%s),' % (s['method'], s['method'], ', '.join(rust_arg(k, '$a[%d].as_str()' % i) for i, (_, k) in enumerate(s['args']))))
        r.append('    other => panic!("unknown setter {}", other), } } }')
    r.append('')
    r.append('// plain operations: evaluates to Option<Result<Vec<i64>, _>> (None = not a plain operation)')
    r.append('macro_rules! dispatch_plain { ($dev:expr, $op:expr) => { match $op {')
    for f in plain:
        r.append('    "%s" => Some($dev.%s().map(|r| { let _ = &r; %s })),' % (f['method'], f['method'], rust_enc_result(f['ret'], 'r')))
    r.append('    _ => None, } } }')
    r.append('')
    r.append('// builder operations: evaluates to Option<Result<Vec<i64>, _>>')
    r.append('macro_rules! dispatch_builder { ($dev:expr, $op:expr, $setters:expr) => { match $op {')
    for b in builders:
        for mk in b['makers']:
            r.append('    "%s" => { let mut b = $dev.%s(); for (n, a) in $setters.iter() { b = apply_%s!(b, n.as_str(), a); } Some(b.write().map(|_| Vec::<i64>::new())) }'
                     % (mk, mk, b['name']))
    r.append('    _ => None, } } }')
    txt = '\n'.join(r) + '\n'
    if _changed(sys.argv[4], txt):
        open(sys.argv[4], 'w').write(txt)

    # =================================================================== api.json
    cat = {'plain': [f['method'] for f in plain],
           'plain_ret': {f['method']: {'type': f['ret'], 'accessors': [[a['method'], a['ret']] for a in accessors(f['ret'])]} for f in plain},
           'builders': [{'name': b['name'], 'config': b['config'], 'makers': b['makers'],
                         'setters': [{'method': s['method'], 'coq': 'S_' + s['name'], 'args': s['args']} for s in b['setters']]}
                        for b in builders],
           'enums': {n: [[short(n, c), p] for c, p in enums[n]] for n in enums},
           'leaves': meta['leaves']}
    txt = json.dumps(cat, indent=1)
    if _changed(sys.argv[5], txt):
        open(sys.argv[5], 'w').write(txt)
    print('gen_api: ok: %d plain operations, %d builders, %d setters' % (len(plain), len(builders), sum(len(b['setters']) for b in builders)))


def _changed(path, text):
    try:
        return open(path).read() != text
    except FileNotFoundError:
        return True


if __name__ == '__main__':
    main()
