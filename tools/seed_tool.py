#!/usr/bin/env python3
"""Seeded-defect bookkeeping.

  seed_tool.py confirm <worktree> <prop>     confirm the sub-agent's mutants (m1, m2, ... under <worktree>/_seed) in the
                                              worktree itself: suite passes with the change, demo fails with it and passes
                                              without; keep confirmed ones as /verif/seeded/<prop>-mK/; remove the worktree
  seed_tool.py eval <seeded id> [props..]    run ./vp check for the given properties (default: the one it was written for)
                                              against the change in an isolated copy of /verif + a scratch worktree of /repo
"""
import glob, json, os, re, shutil, subprocess, sys, time

VERIF = os.path.dirname(os.path.dirname(os.path.abspath(__file__)))
SEEDED = os.path.join(VERIF, 'seeded')
ENV = dict(os.environ, CARGO_NET_OFFLINE='true')


def sh(cmd, cwd=None, timeout=3600):
    p = subprocess.run(cmd, cwd=cwd, shell=True, env=ENV, stdout=subprocess.PIPE, stderr=subprocess.STDOUT, text=True, timeout=timeout)
    return p.returncode, p.stdout


def confirm(wt, prop):
    seed = os.path.join(wt, '_seed')
    notes = open(os.path.join(seed, 'notes.md')).read() if os.path.exists(os.path.join(seed, 'notes.md')) else ''
    results = []
    sh('git checkout -- src && git clean -fdq tests', cwd=wt)
    for diff in sorted(glob.glob(os.path.join(seed, 'm*.diff'))):
        k = os.path.basename(diff)[:-5]
        demo = os.path.join(seed, k + '_demo.rs')
        sid = '%s-%s' % (prop, k)
        rec = {'id': sid, 'property': prop, 'ran': []}
        if not os.path.exists(demo):
            rec['kept'] = False
            rec['why'] = 'no demonstration file'
            results.append(rec)
            continue
        demo_name = 'seed_demo_%s' % k
        shutil.copy(demo, os.path.join(wt, 'tests', demo_name + '.rs'))
        # without the change: demo passes
        rc0, out0 = sh('cargo test --offline --test %s 2>&1 | tail -15' % demo_name, cwd=wt)
        ok_without = 'test result: ok' in out0 and 'FAILED' not in out0
        rec['ran'].append({'cmd': 'cargo test --offline --test %s (unchanged tree)' % demo_name, 'passes': ok_without})
        rc, out = sh('git apply %s' % diff, cwd=wt)
        if rc != 0:
            rec['kept'] = False
            rec['why'] = 'patch does not apply: ' + out[-300:]
            results.append(rec)
            os.remove(os.path.join(wt, 'tests', demo_name + '.rs'))
            continue
        rc1, out1 = sh('cargo test --offline --test %s 2>&1 | tail -25' % demo_name, cwd=wt)
        fails_with = ('FAILED' in out1 or 'panicked' in out1 or 'error' in out1) and 'test result: ok' not in out1.split('Running')[-1]
        rec['ran'].append({'cmd': 'cargo test --offline --test %s (with the change)' % demo_name, 'fails': fails_with})
        os.remove(os.path.join(wt, 'tests', demo_name + '.rs'))
        rc2, out2 = sh('cargo test --workspace --no-fail-fast --offline 2>&1 | grep -E "^test result|FAILED|error(\\[|:)" | head -20', cwd=wt)
        results_lines = [l for l in out2.splitlines() if l.startswith('test result')]
        suite_ok = len(results_lines) >= 4 and all('ok.' in l and ' 0 failed' in l for l in results_lines) and 'FAILED' not in out2
        n_pass = sum(int(re.search(r'(\d+) passed', l).group(1)) for l in results_lines) if results_lines else 0
        rec['ran'].append({'cmd': 'cargo test --workspace --no-fail-fast --offline (with the change)', 'passes': suite_ok, 'tests_passed': n_pass})
        sh('git checkout -- src', cwd=wt)
        rec['kept'] = bool(ok_without and fails_with and suite_ok)
        if rec['kept']:
            d = os.path.join(SEEDED, sid)
            os.makedirs(d, exist_ok=True)
            shutil.copy(diff, os.path.join(d, 'patch.diff'))
            shutil.copy(demo, os.path.join(d, 'demo.rs'))
            sec = notes
            meta = {'id': sid, 'breaks_property': prop, 'confirmed': rec['ran'],
                    'needs_to_manifest': extract_trigger(notes, k), 'agent_notes': sec[:6000],
                    'demo_placement': 'tests/%s.rs; cargo test --offline --test %s' % (demo_name, demo_name)}
            json.dump(meta, open(os.path.join(d, 'meta.json'), 'w'), indent=1)
        else:
            rec['why'] = 'unchanged-demo-pass=%s changed-demo-fail=%s suite-pass=%s' % (ok_without, fails_with, suite_ok)
            rec['tail'] = (out0[-400:], out1[-600:], out2[-400:])
        results.append(rec)
    sh('git -C /repo worktree remove --force %s' % wt)
    print(json.dumps(results, indent=1))


def extract_trigger(notes, k):
    m = re.search(r'(?is)(%s.*?)(?=\n#+ *m\d|\Z)' % re.escape(k), notes)
    return (m.group(1) if m else notes)[:2500]


def evaluate(sid, props, tier='quick'):
    d = os.path.join(SEEDED, sid)
    meta = json.load(open(os.path.join(d, 'meta.json')))
    props = props or [meta['breaks_property']]
    base = '/tmp/ev_%s' % sid
    sh('rm -rf %s; mkdir -p %s' % (base, base))
    sh('git -C /repo worktree prune; git -C /repo worktree add -q --detach %s/repo HEAD && cp /repo/Cargo.lock %s/repo/' % (base, base))
    sh('rsync -a --exclude .git --exclude "rs2v/target/debug/incremental" %s/ %s/verif/' % (VERIF, base))
    ev = base + '/verif'
    sh("sed -i 's#path = \"/repo\"#path = \"%s/repo\"#' %s/harness/Cargo.toml" % (base, ev))
    rc, out = sh('git apply %s/patch.diff' % d, cwd=base + '/repo')
    if rc != 0:
        print('patch does not apply:', out)
        return
    res = {}
    env = 'VERIF_REPO=%s/repo' % base
    for p in props:
        t = time.time()
        rc, out = sh('%s VERIF_TIER=%s ./vp check %s 2>&1 | tail -12' % (env, tier, p), cwd=ev, timeout=7200)
        viol = [l for l in out.splitlines() if l.startswith('VIOLATION')]
        res[p] = {'detected': bool(viol), 'line': viol[0] if viol else None, 'wall_s': round(time.time() - t),
                  'tail': out[-1500:]}
        if viol:
            m = re.search(r'replay=(\S+)', viol[0])
            if m and os.path.exists(m.group(1)):
                rp = json.load(open(m.group(1)))
                res[p]['tie_failures'] = [t_['kind'] + ': ' + t_['what'] for t_ in rp.get('tie_failures', [])]
                res[p]['failing_input'] = [v.get('message') for v in rp.get('violations', [])][:2]
    sh('git -C /repo worktree remove --force %s/repo; rm -rf %s' % (base, base))
    out = {'seed': sid, 'results': res}
    os.makedirs(os.path.join(VERIF, 'build', 'seed_eval'), exist_ok=True)
    json.dump(out, open(os.path.join(VERIF, 'build', 'seed_eval', sid + '.json'), 'w'), indent=1)
    print(json.dumps({'seed': sid, 'results': {p: {k: v for k, v in r.items() if k != 'tail'} for p, r in res.items()}}, indent=1))
    for p, r in res.items():
        if not r['detected']:
            print('--- NOT DETECTED by %s; tail:\n%s' % (p, r['tail']))


if __name__ == '__main__':
    if sys.argv[1] == 'confirm':
        confirm(sys.argv[2], sys.argv[3])
    elif sys.argv[1] == 'eval':
        tier = os.environ.get('SEED_TIER', 'quick')
        evaluate(sys.argv[2], sys.argv[3:], tier)
