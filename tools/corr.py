"""Correspondence check: run the same programs on the real crate (impl_run) and on the Coq model
(Driver.run_program evaluated by vm_compute inside coqc) and report the programs on which they differ."""
import os, re, subprocess, sys, time
from concurrent.futures import ThreadPoolExecutor
import progs as P

VERIF = P.VERIF
BUILD = os.path.join(VERIF, 'build')
COQ = os.path.join(BUILD, 'coq')
ENV = dict(os.environ, CARGO_NET_OFFLINE='true')


def harness_bin(variant='default', profile='debug'):
    return os.path.join(BUILD, 'harness-target-%s' % variant, profile, 'impl_run')


def build_harness(variant='default', profile='debug'):
    """(ok, output).  The harness depends on /repo by path, so this rebuilds the crate under test."""
    env = dict(ENV, CARGO_TARGET_DIR=os.path.join(BUILD, 'harness-target-%s' % variant), RUSTFLAGS='--cfg bma400_verif')
    cmd = ['cargo', 'build', '--offline', '--quiet', '--features', 'addr-' + variant]
    if profile == 'release':
        cmd.append('--release')
    lock = os.path.join(VERIF, 'harness', 'Cargo.lock')
    p = subprocess.run(cmd, cwd=os.path.join(VERIF, 'harness'), env=env, stdout=subprocess.PIPE, stderr=subprocess.STDOUT, text=True)
    errs = '\n'.join(l for l in p.stdout.splitlines() if 'error' in l.lower())
    return p.returncode == 0, (errs or p.stdout[-3000:])


def run_impl(programs, variant='default', profile='debug', dump_each=False, tag='corr'):
    """returns {prog id: {'calls': [[int]], 'dumps': [[int]], 'each': [(regs, shadow)], 'cs_high_clocked': int}}"""
    os.makedirs(os.path.join(BUILD, 'corr'), exist_ok=True)
    path = os.path.join(BUILD, 'corr', '%s_%d.prog' % (tag, os.getpid()))
    with open(path, 'w') as f:
        for p in programs:
            f.write(P.to_rust(p, dump_each))
    r = subprocess.run([harness_bin(variant, profile), path], stdout=subprocess.PIPE, stderr=subprocess.PIPE, text=True)
    if r.returncode != 0:
        raise RuntimeError('impl_run failed (rc %d): %s' % (r.returncode, r.stderr[-2000:]))
    os.remove(path)
    out, cur = {}, None
    for line in r.stdout.splitlines():
        k, _, rest = line.partition(' ')
        if k == 'R':
            cur = {'calls': [], 'dumps': [], 'each': [], 'cs_high_clocked': 0}
            out[rest.strip()] = cur
        elif k == 'C':
            cur['calls'].append([int(x) for x in rest.split()])
        elif k == 'D':
            cur['dumps'].append([int(x) for x in rest.split()])
        elif k == 'd':
            cur['each'].append([int(x) for x in rest.split()])
        elif k == 'X':
            cur['cs_high_clocked'] = int(rest)
    return out


def expected_lists(rec):
    return rec['calls'] + rec['dumps']


def _coq_ll(ll):
    return '[' + '; '.join('[' + '; '.join(str(max(x, 0)) for x in l) + ']' for l in ll) + ']'


HEADER = ('Require Import BMA.lib.Base BMA.gen.GenTypes BMA.gen.GenPure BMA.lib.Prog BMA.gen.GenApi BMA.lib.Run '
          'BMA.lib.Driver BMA.lib.Corr.\nOpen Scope N_scope.\n')


def _run_coq(path, timeout=900):
    r = subprocess.run(['coqc', '-noglob', '-R', COQ, 'BMA', path], stdout=subprocess.PIPE, stderr=subprocess.STDOUT,
                       text=True, timeout=timeout, cwd=os.path.dirname(path))
    for ext in ('.vo', '.vok', '.vos'):
        try:
            os.remove(path[:-2] + ext)
        except FileNotFoundError:
            pass
    try:
        os.remove(os.path.join(os.path.dirname(path), '.' + os.path.basename(path)[:-2] + '.aux'))
    except FileNotFoundError:
        pass
    return r.returncode, r.stdout


def model_outputs(api, programs, i2c_addr=20, tag='mo'):
    """evaluate the model on a few programs and return {id: [[int]]} (used to show a disagreement)"""
    d = os.path.join(BUILD, 'corr')
    os.makedirs(d, exist_ok=True)
    res = {}
    for i, p in enumerate(programs):
        path = os.path.join(d, '%s_%d_%d.v' % (tag, os.getpid(), i))
        with open(path, 'w') as f:
            f.write(HEADER + 'Eval vm_compute in (%s).\n' % P.to_coq(api, p, i2c_addr))
        rc, out = _run_coq(path)
        os.remove(path)
        if rc != 0:
            res[p.id] = 'coqc failed: ' + out[-1500:]
            continue
        body = out[out.index('='):]
        body = body[:body.rindex(':')]
        lists = re.findall(r'\[([0-9;\s]*)\]', body)
        res[p.id] = [[int(x) for x in re.findall(r'\d+', l)] for l in lists]
    return res


def compare(api, programs, impl, i2c_addr=20, shards=16, tag='cases'):
    """returns (list of disagreeing program ids, seconds).  `impl` as returned by run_impl."""
    t0 = time.time()
    d = os.path.join(BUILD, 'corr')
    os.makedirs(d, exist_ok=True)
    idx = {i: p for i, p in enumerate(programs)}
    shards = max(1, min(shards, len(programs)))
    paths = []
    for s in range(shards):
        path = os.path.join(d, '%s_%d_%d.v' % (tag, os.getpid(), s))
        with open(path, 'w') as f:
            f.write(HEADER)
            items = []
            for i in range(s, len(programs), shards):
                p = idx[i]
                items.append('(%d, %s,\n   %s)' % (i, P.to_coq(api, p, i2c_addr), _coq_ll(expected_lists(impl[p.id]))))
            f.write('Definition cases : list (N * list (list N) * list (list N)) :=\n [ ' + ';\n   '.join(items) + ' ].\n')
            f.write('Eval vm_compute in (mismatches cases).\n')
        paths.append(path)
    bad = []
    with ThreadPoolExecutor(max_workers=16) as ex:
        for path, (rc, out) in zip(paths, ex.map(_run_coq, paths)):
            if rc != 0:
                raise RuntimeError('coqc failed on %s:\n%s' % (path, out[-3000:]))
            m = re.search(r'=\s*\[([0-9;\s]*)\]', out)
            if not m:
                raise RuntimeError('cannot parse coqc output: %s' % out[-500:])
            bad += [int(x) for x in re.findall(r'\d+', m.group(1))]
            os.remove(path)
    return [idx[i].id for i in sorted(bad)], time.time() - t0


def first_difference(a, b):
    for i, (x, y) in enumerate(zip(a, b)):
        if x != y:
            return i, x, y
    if len(a) != len(b):
        return min(len(a), len(b)), None, None
    return None
