"""Decoding of impl_run output into structured call records, for the implementation-side monitors.
The decoders here are written against the datasheet framing rules, independently of the Coq model."""
import progs as P

ERR_KINDS = {1: 'IOError', 2: 'ChipSelectPinError', 3: 'ConfigBuildError', 4: 'ChipIdReadFailed', 5: 'SelfTestFailedError'}
CONFIG_ERRS = ['Filt1InterruptInvalidODR', 'TapIntEnabledInvalidODR', 'FifoReadWhilePwrDisable']


class CallRec:
    """one API call as observed on the implementation"""
    __slots__ = ('status', 'payload', 'err', 'tok', 'raw', 'regs', 'shadow', 'regs_before', 'shadow_before', 'call')

    def ok(self):
        return self.status == 'ok'

    def result_str(self):
        if self.status == 'ok':
            return 'Ok(%s)' % self.payload
        if self.status == 'panic':
            return 'PANIC'
        return 'Err(%s%s)' % (self.err, '' if self.tok is None else ':%s' % self.tok)


def split_call(ints):
    """[result..., nraw, raw...] -> (status, payload, err, tok, raw calls as lists)"""
    i = 0
    k = ints[0]
    status, payload, err, tok = None, None, None, None
    if k == 0:
        n = ints[1]
        payload = ints[2:2 + n]
        status = 'ok'
        i = 2 + n
    elif k == 9:
        status, i = 'panic', 1
    elif k in (1, 2):
        status, err, tok, i = 'err', ERR_KINDS[k], ints[1], 2
    elif k == 3:
        status, err, tok, i = 'err', ERR_KINDS[3], CONFIG_ERRS[ints[1]], 2
    else:
        status, err, i = 'err', ERR_KINDS[k], 1
    nraw = ints[i]
    i += 1
    raw = []
    for _ in range(nraw):
        t = ints[i]
        if t == 10:      # i2c write: addr, len, bytes
            n = ints[i + 2]
            raw.append(('i2c_w', ints[i + 1], ints[i + 3:i + 3 + n]))
            i += 3 + n
        elif t == 11:    # i2c write_read: addr, len, bytes, n
            n = ints[i + 2]
            raw.append(('i2c_wr', ints[i + 1], ints[i + 3:i + 3 + n], ints[i + 3 + n]))
            i += 4 + n
        elif t == 12:
            raw.append(('cs_low',))
            i += 1
        elif t == 13:
            raw.append(('cs_high',))
            i += 1
        elif t in (14, 15):
            n = ints[i + 1]
            raw.append(('spi_w' if t == 14 else 'spi_x', ints[i + 2:i + 2 + n]))
            i += 2 + n
        elif t == 17:
            raw.append(('delay', ints[i + 1]))
            i += 2
        else:
            raise ValueError('bad raw tag %d' % t)
    assert i == len(ints), (i, len(ints))
    return status, payload, err, tok, raw


def records(prog, rec):
    """list of CallRec for the constructor (index 0) and every call of `prog` that was executed (needs dump_each)"""
    out = []
    each = rec['each']
    for i, ints in enumerate(rec['calls']):
        c = CallRec()
        c.status, c.payload, c.err, c.tok, c.raw = split_call(ints)
        c.call = None if i == 0 else prog.calls[i - 1]
        c.regs = c.shadow = c.regs_before = c.shadow_before = None
        if i >= 1 and len(each) >= 2 * i:
            c.regs, c.shadow = each[2 * (i - 1)], each[2 * (i - 1) + 1]
            if i >= 2:
                c.regs_before, c.shadow_before = each[2 * (i - 2)], each[2 * (i - 2) + 1]
        out.append(c)
    return out


def reg_events(raw, fault_tok=None):
    """register-level events decoded from the HAL journal by the datasheet framing rules:
    ('w', addr, val) | ('r', addr, n) | ('d', ms) | ('?', description) for anything that is not a well-framed access.
    The call with index `fault_tok` (if any) failed and had no effect."""
    ev = []
    k = 0          # index among fallible calls
    i = 0
    win = None     # SPI: list of byte groups in the current window
    for c in raw:
        failed = False
        if c[0] != 'delay':
            failed = (fault_tok is not None and k == fault_tok)
            k += 1
        if c[0] == 'delay':
            ev.append(('d', c[1]))
        elif c[0] == 'i2c_w':
            if failed:
                continue
            if len(c[2]) == 2:
                ev.append(('w', c[2][0], c[2][1]))
            else:
                ev.append(('?', 'i2c write of %d bytes' % len(c[2])))
        elif c[0] == 'i2c_wr':
            if failed:
                continue
            if len(c[2]) == 1:
                ev.append(('r', c[2][0], c[3]))
            else:
                ev.append(('?', 'i2c write_read with %d address bytes' % len(c[2])))
        elif c[0] == 'cs_low':
            if not failed:
                win = []
        elif c[0] == 'cs_high':
            if failed:
                continue
            if win is not None:
                if len(win) == 1 and win[0][0] == 'spi_w' and len(win[0][1]) == 2 and win[0][1][0] < 128:
                    ev.append(('w', win[0][1][0], win[0][1][1]))
                elif (len(win) == 2 and win[0][0] == 'spi_x' and len(win[0][1]) == 2 and win[0][1][0] >= 128
                      and win[1][0] == 'spi_x'):
                    ev.append(('r', win[0][1][0] & 0x7F, len(win[1][1])))
                elif len(win) == 0:
                    pass
                else:
                    ev.append(('?', 'spi window %r' % (win,)))
            win = None
        elif c[0] in ('spi_w', 'spi_x'):
            if failed:
                continue
            if win is None:
                ev.append(('?', 'spi bytes clocked while chip-select is high'))
            else:
                win.append(c)
    return ev
