#!/usr/bin/env python3
"""runs every registered quick check on the current tree and validates the evidence files"""
import json, os, subprocess, sys, time
sys.path.insert(0, os.path.dirname(os.path.abspath(__file__)))
import jsonschema_lite as js
VERIF = os.path.dirname(os.path.dirname(os.path.abspath(__file__)))
man = json.load(open(os.path.join(VERIF, 'MANIFEST.json')))
only = sys.argv[1:]
bad = 0
for c in man['checks']:
    pid = c['property_id']
    if only and pid not in only:
        continue
    t = time.time()
    p = subprocess.run(c['quick_cmd'], shell=True, cwd=VERIF, stdout=subprocess.PIPE, stderr=subprocess.STDOUT, text=True)
    ev = json.load(open(c['evidence_file']))
    cov = ev['coverage']
    ok = p.returncode == 0 and 'VIOLATION' not in p.stdout and cov.get('discharged', 0) == cov.get('obligations', -1) and cov['discharged'] >= 1
    print('%s rc=%d %.0fs %s' % (pid, p.returncode, time.time() - t, 'ok' if ok else 'PROBLEM: ' + p.stdout[-500:]))
    bad += 0 if ok else 1
sys.exit(1 if bad else 0)
